"""
Shared helpers of the parsing streams (C01, C02, C03, C13): recording tokenizer, token wire format,
canonical dump of a library tree, renderers of token sequences.
"""
from html.parser import HTMLParser

from .core import enc, opt, sx

VOID = ('br', 'img', 'input', 'hr', 'meta', 'link')      # the specification's own list (property text)
WRAPPER = 'xxxblank'


class Recorder(HTMLParser):
    """The real stdlib tokenizer configured as the library configures it (convert_charrefs=False, never close()d)."""

    def __init__(self):
        HTMLParser.__init__(self)
        self.convert_charrefs = False
        self.toks = []

    def handle_starttag(self, tag, attrs):
        self.toks.append(['start', tag, [list(a) for a in attrs]])

    def handle_startendtag(self, tag, attrs):
        self.toks.append(['startend', tag, [list(a) for a in attrs]])

    def handle_endtag(self, tag):
        self.toks.append(['end', tag])

    def handle_data(self, data):
        self.toks.append(['data', data])

    def handle_entityref(self, name):
        self.toks.append(['entity', name])

    def handle_charref(self, name):
        self.toks.append(['charref', name])

    def handle_comment(self, data):
        self.toks.append(['comment', data])

    def handle_decl(self, decl):
        self.toks.append(['decl', decl])

    def handle_pi(self, data):
        self.toks.append(['pi', data])

    def unknown_decl(self, data):
        self.toks.append(['udecl', data])


def tokenize(text):
    """Token list the real tokenizer delivers for `text` (what is still buffered at the end is dropped, as in the library)."""
    r = Recorder()
    r.feed(text)
    return r.toks


def tok_sx(t):
    k = t[0]
    if k in ('start', 'startend'):
        return sx(k, enc(t[1]), *[[enc(a[0]), opt(a[1])] for a in t[2]])
    return sx('end' if k == 'end' else k, enc(t[1]))


def toks_sx(toks):
    return '(' + ' '.join(tok_sx(t) for t in toks) + ')'


# ---- canonical dump of the library's tree -----------------------------------------------------------------

def canon_tree(el):
    """(e name (attrs in getAttributesList order) sc kids...) with adjacent text merged, empty text dropped."""
    from AdvancedHTMLParser.Tags import AdvancedTag
    kids = []
    pending = []
    for b in el.blocks:
        if isinstance(b, AdvancedTag):
            if pending:
                s = ''.join(pending)
                if s:
                    kids.append(sx('t', enc(s)))
                pending = []
            kids.append(canon_tree(b))
        else:
            pending.append(b)
    if pending:
        s = ''.join(pending)
        if s:
            kids.append(sx('t', enc(s)))
    attrs = [[enc(k), opt(v)] for k, v in el.getAttributesList()]
    return sx('e', enc(el.tagName), attrs, 1 if el.isSelfClosing else 0, *kids)


def doc_sx(parser):
    root = parser.getRoot()
    if root is None:
        return sx('empty', opt(parser.doctype))
    names = [enc(n.tagName) for n in parser.getRootNodes()]
    return sx('doc', opt(parser.doctype), canon_tree(root), enc(parser.getHTML()), names)


# ---- plain python view of a tree (for oracles) -------------------------------------------------------------

def py_tree(el):
    """('e', name, [(k, v)...], sc, [kids]) / ('t', text), text merged and empties dropped."""
    from AdvancedHTMLParser.Tags import AdvancedTag
    kids = []
    for b in el.blocks:
        if isinstance(b, AdvancedTag):
            kids.append(py_tree(b))
        elif b:
            if kids and kids[-1][0] == 't':
                kids[-1] = ('t', kids[-1][1] + b)
            else:
                kids.append(('t', b))
    return ('e', el.tagName, [tuple(a) for a in el.getAttributesList()], bool(el.isSelfClosing), kids)
