"""
C14 — XPath evaluation selects exactly the elements the expression denotes.

Stream `C14`, first kind of case: (document, expression syntax tree, receivers).  The harness renders the syntax tree to
*text* with randomised white space, quote style and letter case (that is what the library gets), sends the tree *and the
text* to the Lean driver (model: parse the text with the model's tokenizer → compile with constant folding → pass-based
evaluator → step driver; `parsediff` when the parse is not the flat form of the tree) and evaluates the tree with an
independent reference interpreter (oracle).  Compared: result id lists per receiver, `err` for any exception.

Second kind of case (`{'hostile': text}`): arbitrary, mostly malformed expression texts.  Compared: "raises" or the canonical
print of the parsed operations (`lib_parsed` below = read-only introspection of `XPathExpression(text).orderedOperations`
against the model's `parseExpr` + constant folding).  No document, no oracle (the property says nothing about them).
"""
import struct
import itertools
import random

from ..core import PropCheck, Case, sx, enc

NAMES3 = ['div', 'span', 'p']
NAMES = ['div', 'span', 'p', 'b', 'ul', 'li', 'h2']
AXES = [None, 'child', 'desc', 'dos', 'parent', 'anc', 'aos']
AXIS_TEXT = {'child': 'child', 'desc': 'descendant', 'dos': 'descendant-or-self', 'parent': 'parent',
             'anc': 'ancestor', 'aos': 'ancestor-or-self'}
ARITH = ['cat', 'add', 'sub', 'mul', 'div', 'mod']
CMP = ['eq', 'ne', 'lt', 'le', 'gt', 'ge']
BOOL = ['and', 'or']
OP_TEXT = {'cat': '||', 'add': '+', 'sub': '-', 'mul': '*', 'div': 'div', 'mod': 'mod',
           'eq': '=', 'ne': '!=', 'lt': '<', 'le': '<=', 'gt': '>', 'ge': '>=', 'and': 'and', 'or': 'or'}
WRAPPER = 'xxxblank'


def op_cls(o):
    return 0 if o in ARITH else 1 if o in CMP else 2


# ------------------------------------------------------------------------------------------------
# documents: node = [name, [[k, v]...], [text0, text1, ...], [children]]   (len(texts) == len(children) + 1)

def doc_table(doc):
    """Pre-order table [(name, parent, attrs, text)] ; element 0 is the wrapper when the document has several roots."""
    rows = []

    def walk(n, parent):
        i = len(rows)
        rows.append((n[0], parent, [(k.lower(), v) for k, v in n[1]], ''.join(n[2])))
        for c in n[3]:
            walk(c, i)
    roots = doc['roots']
    if len(roots) > 1:
        rows.append((WRAPPER, None, [], ''))
        for r in roots:
            walk(r, 0)
    else:
        walk(roots[0], None)
    return rows


def doc_html(doc):
    def r(n):
        attrs = ''.join(' %s="%s"' % (k, v) for k, v in n[1])
        inner = n[2][0] + ''.join(r(c) + t for c, t in zip(n[3], n[2][1:]))
        return '<%s%s>%s</%s>' % (n[0], attrs, inner, n[0])
    return ''.join(r(x) for x in doc['roots'])


def doc_size(doc):
    return len(doc_table(doc))


# ------------------------------------------------------------------------------------------------
# rendering an expression tree to text

class Style(object):
    def __init__(self, seed):
        self.rng = random.Random(seed)
        self.plain = seed == 0

    def ws(self, least=0):
        if self.plain:
            return ' ' * least
        r = self.rng.random()
        if r < 0.45:
            n = 0
        elif r < 0.8:
            n = 1
        else:
            n = self.rng.randint(2, 3)
        n = max(n, least)
        return ''.join(self.rng.choice(' \t') if self.rng.random() < 0.15 else ' ' for _ in range(n))

    def case(self, word):
        if self.plain:
            return word
        r = self.rng.random()
        if r < 0.6:
            return word
        if r < 0.75:
            return word.upper()
        return ''.join(c.upper() if self.rng.random() < 0.5 else c for c in word)

    def quote(self, s):
        q = '"' if (self.plain or self.rng.random() < 0.5) else "'"
        return q + s + q


def render_pred(p, st):
    k = p[0]
    if k == 'num':
        return p[1]
    if k == 'str':
        return st.quote(p[1])
    if k == 'attr':
        return '@' + p[1]
    if k == 'text':
        return st.case('text') + st.ws() + '(' + st.ws() + ')'
    if k == 'last':
        return st.case('last') + st.ws() + '(' + st.ws() + ')'
    if k == 'pos':
        return st.case('position') + st.ws() + '(' + st.ws() + ')'
    if k == 'concat':
        return st.case('concat') + st.ws() + '(' + st.ws() + (st.ws() + ',' + st.ws()).join(render_pred(a, st) for a in p[1:]) + st.ws() + ')'
    if k == 'contains':
        return st.case('contains') + st.ws() + '(' + st.ws() + render_pred(p[1], st) + st.ws() + ',' + st.ws() + render_pred(p[2], st) + st.ws() + ')'
    if k == 'nspace':
        inner = render_pred(p[1], st) if len(p) > 1 else ''
        return st.case('normalize-space') + st.ws() + '(' + st.ws() + inner + st.ws() + ')'
    if k == 'group':
        return '(' + st.ws() + render_pred(p[1], st) + st.ws() + ')'
    if k == 'bin':
        o = p[1]
        t = OP_TEXT[o]
        if o in ('and', 'or', 'div', 'mod'):
            mid = st.ws(1) + st.case(t) + st.ws(1)
        elif o == 'sub':
            mid = st.ws(1) + t + st.ws(1)        # `@n-1` would read as the attribute `n-1`, `-0.5` as a literal
        else:
            mid = st.ws() + t + st.ws()
        return render_pred(p[2], st) + mid + render_pred(p[3], st)
    raise ValueError(k)


def render_expr(steps, seed):
    st = Style(seed)
    out = [st.ws()]
    for s in steps:
        dbl, axis, name, preds = s
        out.append('//' if dbl else '/')
        out.append(st.ws())
        if axis:
            out.append(st.case(AXIS_TEXT[axis]) + '::')
        out.append(st.case(name))
        for p in preds:
            out.append(st.ws() + '[' + st.ws() + render_pred(p, st) + st.ws() + ']')
        out.append(st.ws())
    return ''.join(out)


def flip_literals(p):
    """the same predicate with the letter case of every string literal swapped (None when nothing changes)"""
    if not isinstance(p, list):
        return p
    if p and p[0] == 'str':
        return ['str', p[1].swapcase()]
    return [flip_literals(x) for x in p]


def twin_texts(steps, seed):
    """Expression texts that a sloppy compiled-expression cache key (case-folded, stripped, truncated) would confuse with
    render_expr(steps, seed): string literals with swapped case; the text without its last character's step predicate is
    C15's business. Evaluated (result ignored) before the expression itself, so that the evaluation under test never
    depends on being the first user of its cache slot."""
    flipped = [[s[0], s[1], s[2], [flip_literals(q) for q in s[3]]] for s in steps]
    t = render_expr(flipped, seed)
    return [t] if t != render_expr(steps, seed) else []


# ------------------------------------------------------------------------------------------------
# reference interpreter on the syntax tree (independent of the text and of the library)

class Outside(Exception):
    """the case is outside the domain of the property"""


class RefError(Exception):
    """the expression has no value here (the library must raise)"""


NULL = object()


def as_num(v):
    if v is NULL:
        return None
    if isinstance(v, bool):
        return 1.0 if v else 0.0
    if isinstance(v, float):
        return v
    try:
        return float(v)
    except ValueError:
        return None


class Ref(object):
    def __init__(self, doc):
        self.rows = doc_table(doc)
        self.n = len(self.rows)
        self.wrapper = len(doc['roots']) > 1
        self.kids = [[] for _ in self.rows]
        for i, r in enumerate(self.rows):
            if r[1] is not None:
                self.kids[r[1]].append(i)

    def name(self, i):
        return self.rows[i][0]

    def parent(self, i):
        return self.rows[i][1]

    def ancestors(self, i):
        out = []
        p = self.parent(i)
        while p is not None:
            out.append(p)
            p = self.parent(p)
        return out

    def descendants(self, i):
        return [j for j in range(self.n) if i in self.ancestors(j)]      # document order

    def same_named(self, i):
        p = self.parent(i)
        if p is None:
            return [i]
        return [c for c in self.kids[p] if self.name(c) == self.name(i)]

    def root_nodes(self):
        return list(self.kids[0]) if self.wrapper else [0]

    # ---- predicates ----
    def value(self, p, i):
        k = p[0]
        if k == 'num':
            return float(p[1])
        if k == 'str':
            return p[1]
        if k == 'attr':
            for a, v in self.rows[i][2]:
                if a == p[1].lower():
                    return v
            return NULL
        if k == 'text':
            return self.rows[i][3]
        if k == 'last':
            return float(len(self.same_named(i)))
        if k == 'pos':
            return float(self.same_named(i).index(i) + 1)
        if k == 'concat':
            parts = [self.value(a, i) for a in p[1:]]
            out = ''
            for v in parts:
                if v is NULL:
                    continue
                if not isinstance(v, str):
                    raise RefError('concat of a non-string')
                out += v
            return out
        if k == 'contains':
            a, b = self.value(p[1], i), self.value(p[2], i)
            for v in (a, b):
                if isinstance(v, (float, bool)):
                    raise Outside('contains() of a number or boolean')
            a = '' if a is NULL else a
            b = '' if b is NULL else b
            return b in a
        if k == 'nspace':
            if len(p) == 1:
                return self.rows[i][3].strip()
            v = self.value(p[1], i)
            if v is NULL:
                return ''
            if not isinstance(v, str):
                raise RefError('normalize-space of a non-string')
            return v.strip()
        if k == 'group':
            return self.value(p[1], i)
        if k == 'bin':
            a = self.value(p[2], i)
            b = self.value(p[3], i)
            return self.apply(p[1], a, b)
        raise ValueError(k)

    def apply(self, o, a, b):
        if o == 'cat':
            if isinstance(a, str) and isinstance(b, str):
                return a + b
            raise RefError('|| of a non-string')
        if o in ARITH:
            x, y = as_num(a), as_num(b)
            if x is None or y is None:
                raise RefError('arithmetic on a non-number')
            if o == 'add':
                return x + y
            if o == 'sub':
                return x - y
            if o == 'mul':
                return x * y
            if y == 0:
                raise Outside('division or modulus by zero')
            return x / y if o == 'div' else x % y
        if o in CMP:
            x, y = as_num(a), as_num(b)
            if x is not None and y is not None:
                return {'eq': x == y, 'ne': x != y, 'lt': x < y, 'le': x <= y, 'gt': x > y, 'ge': x >= y}[o]
            if o in ('eq', 'ne'):
                if a is NULL or b is NULL:
                    same = a is NULL and b is NULL
                elif isinstance(a, str) and isinstance(b, str):
                    same = a == b
                else:
                    same = False
                return same if o == 'eq' else not same
            raise Outside('ordering comparison against an absent or non-numeric value')
        if isinstance(a, bool) and isinstance(b, bool):
            return (a and b) if o == 'and' else (a or b)
        raise RefError('and/or of a non-boolean')

    def keep(self, p, i):
        v = self.value(p, i)
        if isinstance(v, bool):
            return v
        if isinstance(v, float):
            if v != v or v in (float('inf'), float('-inf')):
                raise Outside('nan/inf as a position')
            if v != int(v):
                return False
            return self.same_named(i).index(i) + 1 == int(v)
        raise Outside('bare string / attribute-existence predicate')

    # ---- steps ----
    def axis(self, first, step, i):
        dbl, axis, name, _ = step
        name = name.lower()
        t = lambda j: name == '*' or self.name(j) == name
        me = [i] if t(i) else []
        if axis == 'child':
            return [j for j in self.kids[i] if t(j)]
        if axis == 'desc':
            return [j for j in self.descendants(i) if t(j)]
        if axis == 'dos':
            return me + [j for j in self.descendants(i) if t(j)]
        if axis == 'parent':
            p = self.parent(i)
            return [p] if p is not None and t(p) else []
        if axis == 'anc':
            return [j for j in self.ancestors(i) if t(j)]
        if axis == 'aos':
            return me + [j for j in self.ancestors(i) if t(j)]
        base = [j for j in (self.descendants(i) if dbl else self.kids[i]) if t(j)]
        return (me if first else []) + base

    def evaluate(self, steps, start):
        cur = []
        for x in start:
            if x not in cur:
                cur.append(x)
        first = True
        for step in steps:
            nxt = []
            for i in cur:
                for j in self.axis(first, step, i):
                    if j not in nxt:
                        nxt.append(j)
            first = False
            cur = nxt
            if not cur:
                return []
            for p in step[3]:
                flags = [self.keep(p, i) for i in cur]      # every element is evaluated: an error anywhere is an error
                cur = [i for i, f in zip(cur, flags) if f]
                if not cur:
                    return []
        return cur


def walk_pred(p):
    yield p
    for x in p[1:]:
        if isinstance(x, list):
            for y in walk_pred(x):
                yield y


GENERATORS = ('attr', 'text', 'last', 'pos', 'nspace', 'contains')


def is_static(p):
    return not any(q[0] in GENERATORS for q in walk_pred(p))


def static_error(d):
    """Does some constant sub-expression have no value (e.g. `"a" + 1`)?  Such an expression is rejected when it is
    compiled, whether or not an element ever reaches the predicate: outside the domain."""
    ref = Ref({'roots': [['x', [], [''], []]]})
    for s in d['steps']:
        for p in s[3]:
            for q in walk_pred(p):
                if q[0] in ('bin', 'concat') and is_static(q):
                    try:
                        ref.value(q, 0)
                    except (Outside, RefError):
                        return True
    return False


def leading_negative(p):
    """the grammar has no unary minus: a literal that starts with '-' is outside the domain"""
    if p[0] == 'num':
        return p[1].startswith('-')
    return any(leading_negative(x) for x in p[1:] if isinstance(x, list))


# ------------------------------------------------------------------------------------------------
# the library side

class Built(object):
    _memo = {}

    def __init__(self, doc):
        import AdvancedHTMLParser as AHP
        self.AHP = AHP
        html = doc_html(doc)
        p = AHP.AdvancedHTMLParser()
        p.parseStr(html)
        self.parser = p
        self.by_id = []
        root = p.getRoot()

        def walk(e):
            self.by_id.append(e)
            for c in e.children:
                walk(c)
        if root is not None:
            walk(root)
        self.id_of = {e.uid: i for i, e in enumerate(self.by_id)}
        rows = doc_table(doc)
        self.ok = len(rows) == len(self.by_id) and all(r[0] == e.tagName for r, e in zip(rows, self.by_id))

    @classmethod
    def get(cls, doc):
        k = doc_html(doc)
        b = cls._memo.get(k)
        if b is None:
            if len(cls._memo) > 200:
                cls._memo.clear()
            b = cls(doc)
            cls._memo[k] = b
        return b

    def ids(self, coll):
        return [self.id_of.get(e.uid, 999) for e in coll]


def lib_eval(B, text, recv, via):
    """Evaluate through one entry point; returns list of ids or 'err'."""
    from AdvancedHTMLParser.xpath import XPathExpression
    TagCollection = B.AHP.Tags.TagCollection
    try:
        if recv[0] == 'doc':
            p = B.parser
            if via == 0:
                r = p.getElementsByXPathExpression(text)
            elif via == 1:
                r = p.getElementsByXPath(text)
            elif via == 2:
                r = p.evaluate(text)
            else:
                r = XPathExpression(text).evaluate(p)
        elif recv[0] == 'el':
            e = B.by_id[recv[1]]
            if via == 0:
                r = e.getElementsByXPathExpression(text)
            elif via == 1:
                r = e.getElementsByXPath(text)
            else:
                r = XPathExpression(text).evaluate(e)
        else:
            els = [B.by_id[i] for i in recv[1]]
            if via == 0:
                r = TagCollection(els).getElementsByXPathExpression(text)
            elif via == 1:
                r = XPathExpression(text).evaluate(TagCollection(els))
            elif via == 2:
                r = XPathExpression(text).evaluate(list(els))
            else:
                r = XPathExpression(text).evaluate(tuple(els))
        if type(r) is not TagCollection:
            return 'type:' + type(r).__name__
        return B.ids(r)
    except Exception:
        return 'err'


N_VIA = {'doc': 4, 'el': 3, 'coll': 4}


# ------------------------------------------------------------------------------------------------
# canonical print of the library's parsed operations (hostile texts)

FIND_KIND = {
    '_mk_xpath_op_filter_by_tagname_one_level_function': 'one',
    '_mk_xpath_op_filter_by_tagname_one_level_function_or_self': 'oneself',
    '_mk_xpath_op_filter_by_tagname_multi_level_function': 'multi',
    '_mk_xpath_op_filter_by_tagname_multi_level_function_or_self': 'multiself',
    '_mk_xpath_op_filter_by_parent_tagname_one_level_function': 'parent',
    '_mk_xpath_op_filter_by_ancestor_tagname_multi_level_function': 'anc',
    '_mk_xpath_op_filter_by_ancestor_or_self_tagname_multi_level_function': 'aos',
    '<lambda>': 'self',
}
OP_CLASS = {
    'BodyElementOperation_Concat': 'cat', 'BodyElementOperation_Math_Plus': 'add', 'BodyElementOperation_Math_Minus': 'sub',
    'BodyElementOperation_Math_Multiply': 'mul', 'BodyElementOperation_Math_Divide': 'div',
    'BodyElementOperation_Math_Modulus': 'mod',
    'BodyElementComparison_Equal': 'eq', 'BodyElementComparison_NotEqual': 'ne', 'BodyElementComparison_LessThan': 'lt',
    'BodyElementComparison_LessThanOrEqual': 'le', 'BodyElementComparison_GreaterThan': 'gt',
    'BodyElementComparison_GreaterThanOrEqual': 'ge',
    'BodyElementBooleanOps_And': 'and', 'BodyElementBooleanOps_Or': 'or',
}


def float_bits(x):
    if x != x:
        return 'nan'
    return str(struct.unpack('>Q', struct.pack('>d', x))[0])


def canon_be(e):
    """one body element -> nested list (the driver's ELEM)"""
    from AdvancedHTMLParser.xpath import _body as B
    from AdvancedHTMLParser.xpath.null import Null
    cn = type(e).__name__
    if isinstance(e, B.BodyLevel):
        return ['group'] + [canon_be(x) for x in e.bodyElements]
    if isinstance(e, B.BodyElementValue):
        v = e.getValue()
        if isinstance(e, B.BodyElementValue_Null) or v is Null:
            return ['null']
        if isinstance(v, bool):
            return ['bool', 1 if v else 0]
        if isinstance(v, float):
            return ['num', float_bits(v)]
        if isinstance(v, str):
            return ['str', enc(v)]
        return ['unknown-value', enc(repr(v))]
    if isinstance(e, B.BodyElementValueGenerator_FetchAttribute):
        return ['attr', enc(e.attributeName)]
    if isinstance(e, B.BodyElementValueGenerator_Text):
        return ['text']
    if isinstance(e, B.BodyElementValueGenerator_Last):
        return ['last']
    if isinstance(e, B.BodyElementValueGenerator_Position):
        return ['pos']
    if isinstance(e, B.BodyElementValueGenerator_Function_Concat):
        return ['concat'] + [canon_be(a) for a in e.fnArgElements]
    if isinstance(e, B.BodyElementValueGenerator_Function_Contains):
        return ['contains'] + [canon_be(a) for a in e.fnArgElements]
    if isinstance(e, B.BodyElementValueGenerator_Function_NormalizeSpace):
        return ['nspace'] + [canon_be(a) for a in e.fnArgElements]
    if cn in OP_CLASS:
        return ['op', OP_CLASS[cn]]
    return ['unknown', enc(cn)]


def lib_parsed(text):
    """`err` when the constructor raises, else `(parsed OP*)`."""
    from AdvancedHTMLParser.xpath import XPathExpression
    from AdvancedHTMLParser.xpath import _body as B
    try:
        ops = XPathExpression(text).orderedOperations
    except Exception:
        return 'err'
    out = []
    for op in ops:
        if isinstance(op, B.BodyLevel_Top):
            out.append(['pred'] + [canon_be(x) for x in op.bodyElements])
            continue
        f = op.filterFunction
        kind = FIND_KIND.get(f.__qualname__.split('.')[0], 'unknown:' + f.__qualname__)
        if kind == 'self':
            out.append(['find', 'self'])
            continue
        name = '*'
        if f.__closure__:
            for var, cell in zip(f.__code__.co_freevars, f.__closure__):
                if var == 'tagName':
                    name = cell.cell_contents
        out.append(['find', kind, enc(name)])
    return sx(*(['parsed'] + out))


# hostile texts ----------------------------------------------------------------------------------

HOSTILE_FIXED = [
    '', ' ', '\t \n', '/', '//', '///x', '/ /x', '/x/', '//*', '/*/*', '/x y', 'x', '/1x', '/_x1', '/x-y', ' \n/x\n ', '/x\n/y',
    '/x[]', '/x[ ]', '/x[\t]', '/x[1][]', '/x[][1]', '/x[1][][2]', '/x[1] [2]', '/x [1]', '/x[1]/y[2]', '/x[1', '/x 1]', '/x[1]]',
    '/x[[1]', '/x["]"]', "/x[']']", '/x["]', '/x["a]"', '/x["a\\"]', '/x["a\\"]"]', '/x["a\\"b"]', '/x["a\\\\"]', "/x['a\\']", "/x['a\\'b']",
    '/x["a\'b"]', '/x[\'a"b\']', '/x["a" "b"]', '/x["a"\']\'"]"]', '/x[\'"][@a="]', '/x[@a="\']"][\'"]',
    '/child::x', '/CHILD::X', '/child::node()', '/child::child::node()', '/child::child::node( )', '/child::child::node(\t)',
    '/child::child::NODE()', '/child::CHILD::node()', '/parent::Child::node()[1]', '//CHILD::node()', '/DIV', '//SpAn[1]', '/child::child::node', '/child::child::node(', '/x::node()', '/child::node()[1]', '/Child::node()',
    '/x::y', '/x::y()', '/x::1', '/x::', '/parent::', '/parent::[1]', '/parent::*', '/parent:: x', '/parent ::x', '/parent:x',
    '/self::x', '/self::*[1]', '//self::x/y', '/ancestor::x', '/ancestor-or-self::x', '/ancestor-or-selfx', '/ancestor-or::x',
    '/descendant::x', '/descendant-or-self::*', '/DESCENDANT-OR-SELF::x', '/descendant-or-self::x::node()', '/following::x',
    '/x[-5]', '/x[-.5]', '/x[- .5]', '/x[5.]', '/x[.5]', '/x[.]', '/x[1.2.3]', '/x[1 -.5]', '/x[1 - .5]', '/x[1-.5]', '/x[1-1]', '/x[--1]',
    '/x[- -.5]', '/x[1e3]', '/x[007]', '/x[1 2]', '/x[12abc]', '/x[@n-1]', '/x[@n -1]', '/x[@n - 1]', '/x[@-n]', '/x[@1]', '/x[@]',
    '/x[@*]', '/x[@* = 1]', '/x[@ n]', '/x[@n@m]', '/x[@_]', '/x[@a-]', '/x[@a--b = 1]',
    '/x[1 and 2]', '/x[1 and2]', '/x[1and 2]', '/x[1 AND\t2]', '/x[1 and]', '/x[and 1]', '/x[1 or 2]', '/x[1 or2]', '/x[1 or]', '/x[or]',
    '/x[1 div 2]', '/x[1 div2]', '/x[1div2]', '/x[4 divx]', '/x[div]', '/x[1 mod 2]', '/x[5mod2]', '/x[1 mod]', '/x[mod 2]', '/x[6 DIV 3]',
    '/x[1<=2]', '/x[1< =2]', '/x[1=<2]', '/x[1>=2]', '/x[1> =2]', '/x[1!=2]', '/x[1! =2]', '/x[1!2]', '/x[1==2]', '/x[1<>2]', '/x[1 = ]',
    '/x[= 1]', '/x[1 + ]', '/x[+ 1]', '/x[1 + + 1]', '/x[1 || 2]', '/x["a" || "b"]', '/x["a"||"b" = "ab"]', '/x[1 | 2]', '/x[1 * 2]', '/x[*]',
    '/x[1 + 2 = 3]', '/x[1 + 2 * 3 = 7]', '/x["a" + 1]', '/x[(1 div 0) $]', '/x[1 div 0]', '/x[1 mod 0]', '/x[2 = 1 + 1 and 3 > 2]',
    '/x[()]', '/x[( )]', '/x[(]', '/x[)]', '/x[(1]', '/x[1)]', '/x[(1)]', '/x[((1))]', '/x[(1))]', '/x[((1)]', '/x[(1)(2)]', '/x[(1) + (2)]',
    '/x[( 1 + 2 ) * 3 = 9]', '/x[(\n1)]', '/x[(1\n)]', '/x[(1) = "a\nb"]', '/x["a\nb" = (1)]', '/x[(1) \n]', '/x[1\n+ 2]',
    '/x[text()]', '/x[text( )]', '/x[text ()]', '/x[TEXT()]', '/x[text(1)]', '/x[text(]', '/x[text]', '/x[text() = "a"]', '/x[last()]',
    '/x[last ( ) - 1]', '/x[position() = last()]', '/x[position()=1]', '/x[positio()]', '/x[lastx()]', '/x[last()x]',
    '/x[concat()]', '/x[concat(]', '/x[concat( ]', '/x[concat("a")]', '/x[concat("a",)]', '/x[concat("a","b")]', '/x[concat("a","b",)]',
    '/x[concat(,"a","b")]', '/x[concat("a",,"b")]', '/x[concat("a" "b", "c")]', '/x[concat("a", "b"]', '/x[concat("a", "b"))]',
    '/x[concat("a", @b, text())]', '/x[concat("a", 1)]', '/x[concat(("a"), ("b" || "c"))]', '/x[CONCAT ( "a" , "b" ) = "ab"]',
    '/x[concat("a", concat("b", "c"))]', '/x[concat("a", concat("b", @c))]', '/x[concat(1 + 1, "b")]', '/x[concat("a,b", "c)")]',
    '/x[contains()]', '/x[contains("a")]', '/x[contains("a","b")]', '/x[contains("a","b",)]', '/x[contains("a","b","c")]',
    '/x[contains(@a, "b") and 1 = 1]', '/x[contains (text(), "b")]', '/x[contains("a", "b") = contains("b", "a")]',
    '/x[normalize-space()]', '/x[normalize-space( )]', '/x[normalize-space(\t)]', '/x[normalize-space(@a)]', '/x[normalize-space(@a,)]',
    '/x[normalize-space(@a,@b)]', '/x[normalize-space]', '/x[normalize-space(]', '/x[normalize_space()]', '/x[NORMALIZE-SPACE() = "a"]',
    '/x[normalize-space("a" || "b")]', '/x[normalize - space()]', '/x[unknown()]', '/x[true()]', '/x[not(1)]', '/x[count(y)]',
    '/x[y]', '/x[y = 1]', '/x[./y]', '/x[@a = $b]', '/x[#]', '/x[1;2]', '/x[1,2]', '/x[,]', '/x[1 2 3]', '/x["a"1]', '/x[1"a"]',
    '/x[@a="b"]/y[@c=\'d\']//z[last()]', '//x[@a = "1" or @b = 2 and @c != 3]', '/x[1]garbage', '/x[1] / y', '/x[1]\t//\ty [ 2 ]',
]

H_TOKENS = ['@a', '@n', '@*', '@a-b', '1', '2', '10', '0', '.5', '2.5', '-.5', '-1', '"a"', "'b'", '""', '"x y"', '"a]b"', "'['", '"\\"', "'\\'",
            '"a\\"b"', 'text()', 'last()', 'position()', 'Text ( )', 'LAST()', 'normalize-space()', 'normalize-space(', 'concat(',
            'contains(', 'Concat (', '(', ')', '(', ')', ',', ',', '=', '!=', '<', '<=', '>', '>=', '||', '+', '-', '*', 'div', 'mod', 'and', 'or',
            'AND', 'Or', 'DIV', 'and ', 'or ', 'foo', 'foo(', '[', ']', '"', "'", '\\', '!', '|', '$', '.', '::', '/', '//', '\n']
H_STEPS = ['/', '//', '/', '//', ' / ', '/ ', '///', '']
H_AXES = ['', '', '', '', 'child::', 'parent::', 'ancestor::', 'ancestor-or-self::', 'descendant::', 'descendant-or-self::', 'self::',
          'Parent::', 'CHILD::', 'child ::', 'child:: ', 'following::', 'ancestor-or::']
H_NAMES = ['div', 'span', '*', 'P', 'child', 'CHILD', 'Child', 'x1', '_y', 'a-b', '1a', '', 'node', 'self']
H_SUFFIX = ['', '', '', '', '', '::node()', '::node( )', '::Node()', '::node', '::text()', '::x', '::']
H_MUT = ' \t()[]"\'\\,@=<>!|+-*/:.-09adnortxivm\n'


def hostile_ws(rng):
    r = rng.random()
    return '' if r < 0.4 else ' ' if r < 0.8 else rng.choice(['  ', '\t', ' \t', '\n'])


def hostile_soup(rng):
    out = []
    for _ in range(rng.randint(1, 3)):
        out.append(rng.choice(H_STEPS) + rng.choice(H_AXES) + rng.choice(H_NAMES) + rng.choice(H_SUFFIX))
        for _ in range(rng.choice([0, 1, 1, 1, 2])):
            toks = [rng.choice(H_TOKENS) for _ in range(rng.choice([0, 1, 2, 3, 3, 4, 5, 6, 8]))]
            body = ''.join(hostile_ws(rng) + t for t in toks) + hostile_ws(rng)
            out.append(hostile_ws(rng) + '[' + body + ']' + hostile_ws(rng))
    return ''.join(out)


def hostile_mutate(text, rng):
    t = list(text)
    for _ in range(rng.choice([1, 1, 1, 2, 3])):
        k = rng.random()
        i = rng.randrange(len(t) + 1)
        if k < 0.35 and t:
            del t[min(i, len(t) - 1)]
        elif k < 0.7:
            t.insert(i, rng.choice(H_MUT))
        elif k < 0.85 and t:
            t[min(i, len(t) - 1)] = rng.choice(H_MUT)
        elif len(t) > 2:
            j = min(i, len(t) - 2)
            t[j], t[j + 1] = t[j + 1], t[j]
    return ''.join(t)


def hostile_ok(text):
    """keep the search of the two backtracking matchers small and the float arithmetic inside what the driver's Float
    instance reproduces bit for bit (`mod` on non-integers is computed differently)"""
    if text.count('"') + text.count("'") > 10 or len(text) > 160:
        return False
    if 'mod' in text.lower() and ('.' in text):
        return False
    return all(ord(c) < 128 for c in text)

# ------------------------------------------------------------------------------------------------
# generation

FIXED_DOC = {'roots': [
    ['div', [['n', '1'], ['k', 'x']], ['', '', '', ' t '], [
        ['span', [['n', '2'], ['k', 'y']], ['hi'], []],
        ['div', [['n', '3']], ['', '', ''], [
            ['p', [['n', '2'], ['k', 'x']], ['hi'], []],
            ['span', [['n', '4'], ['k', 'xy']], [' t '], []]]],
        ['span', [['n', '2.5'], ['k', 'x']], ['', ''], [
            ['p', [['n', '1']], [''], []]]]]]]}

PREDS_FULL = [
    ['num', '1'], ['num', '2'], ['last'],
    ['bin', 'eq', ['pos'], ['num', '1']], ['bin', 'eq', ['pos'], ['last']], ['bin', 'lt', ['pos'], ['last']],
    ['bin', 'eq', ['attr', 'n'], ['num', '2']], ['bin', 'ne', ['attr', 'n'], ['num', '2']],
    ['bin', 'lt', ['attr', 'n'], ['num', '2.5']], ['bin', 'gt', ['attr', 'n'], ['num', '2']],
    ['bin', 'le', ['attr', 'n'], ['num', '2']], ['bin', 'ge', ['attr', 'n'], ['num', '2.5']],
    ['bin', 'eq', ['attr', 'k'], ['str', 'x']], ['bin', 'ne', ['attr', 'k'], ['str', 'x']],
    ['bin', 'eq', ['bin', 'add', ['attr', 'n'], ['num', '1']], ['num', '3']],
    ['bin', 'eq', ['bin', 'sub', ['bin', 'sub', ['attr', 'n'], ['num', '1']], ['num', '1']], ['num', '0']],
    ['bin', 'eq', ['bin', 'mod', ['attr', 'n'], ['num', '2']], ['num', '0']],
    ['bin', 'eq', ['bin', 'mul', ['attr', 'n'], ['num', '2']], ['num', '4']],
    ['bin', 'eq', ['bin', 'div', ['attr', 'n'], ['num', '2']], ['num', '1']],
    ['bin', 'or', ['bin', 'eq', ['attr', 'n'], ['num', '1']], ['bin', 'eq', ['attr', 'k'], ['str', 'y']]],
    ['bin', 'and', ['bin', 'gt', ['attr', 'n'], ['num', '1']], ['bin', 'lt', ['attr', 'n'], ['num', '4']]],
    ['bin', 'eq', ['text'], ['str', 'hi']], ['bin', 'eq', ['nspace'], ['str', 't']],
    ['contains', ['attr', 'k'], ['str', 'x']],
    ['bin', 'eq', ['concat', ['attr', 'k'], ['str', 'y']], ['str', 'xy']],
    ['bin', 'eq', ['bin', 'cat', ['attr', 'k'], ['str', 'y']], ['str', 'xy']],
    ['bin', 'eq', ['bin', 'mul', ['group', ['bin', 'add', ['attr', 'n'], ['num', '1']]], ['num', '2']], ['num', '6']],
    ['bin', 'eq', ['num', '3'], ['bin', 'add', ['attr', 'n'], ['num', '1']]],
]
PREDS_FEW = [['num', '2'], ['last'], ['bin', 'gt', ['attr', 'n'], ['num', '2']], ['bin', 'eq', ['attr', 'k'], ['str', 'x']]]


def step_heads():
    out = []
    for name in NAMES3 + ['*']:
        out.append((0, None, name))
        out.append((1, None, name))
        for a in AXES[1:]:
            out.append((0, a, name))
    return out


def exhaustive_exprs():
    heads = step_heads()
    for h in heads:
        yield [[h[0], h[1], h[2], []]]
        for p in PREDS_FULL:
            yield [[h[0], h[1], h[2], [p]]]
    for h1 in heads:
        for h2 in heads:
            yield [[h1[0], h1[1], h1[2], []], [h2[0], h2[1], h2[2], []]]
            for p in PREDS_FEW:
                yield [[h1[0], h1[1], h1[2], [p]], [h2[0], h2[1], h2[2], []]]
                yield [[h1[0], h1[1], h1[2], []], [h2[0], h2[1], h2[2], [p]]]


class Gen(object):
    def __init__(self, rng):
        self.rng = rng
        self.num_pool = []       # numeric texts that occur in the current document
        self.str_pool = []       # strings that occur in the current document (attribute values, text)

    def set_doc(self, doc):
        nums, strs = [], []
        for name, parent, attrs, text in doc_table(doc):
            for k, v in attrs:
                if as_num(v) is not None and not v.strip().startswith('-'):
                    t = v.strip()
                    if t.replace('.', '', 1).isdigit() and not t.endswith('.'):
                        nums.append(t)
                if '"' not in v and "'" not in v:
                    strs.append(v)
            strs.append(text)
            strs.append(text.strip())
        self.num_pool = nums
        self.str_pool = strs

    # ---- documents ----
    def doc(self, max_nodes=60):
        rng = self.rng
        n = rng.choice([1, 2, 3, 5, 8, 12, 20, 30, 45, 60])
        n = min(n, max_nodes)
        n = max(1, rng.randint(max(1, n // 2), n))
        nroots = 1 if rng.random() < 0.8 else rng.randint(2, 3)
        nroots = min(nroots, n)
        kids = {i: [] for i in range(n)}
        roots = list(range(nroots))
        for i in range(nroots, n):
            lo = 0 if rng.random() < 0.3 else max(0, i - 6)
            kids[rng.randrange(lo, i)].append(i)
        names = rng.choice([NAMES3, NAMES, ['div', 'span']])

        def mk(i):
            name = rng.choice(names)
            attrs = [['n', self.numtext()]]
            if rng.random() < 0.5:
                attrs.append(['k', rng.choice(['x', 'y', 'xy', 'x y', 'abc', 'Foo', '10', '2', ' x ', 'a]b', 'a,b'])])
            if rng.random() < 0.3:
                attrs.append(['id', rng.choice(['a', 'b', 'c', 'main'])])
            if rng.random() < 0.2:
                attrs.append(['class', rng.choice(['x', 'x y', 'big red'])])
            if rng.random() < 0.15:
                attrs.append(['data-x', rng.choice(['1', 'q', ''])])
            rng.shuffle(attrs)
            cs = [mk(k) for k in kids[i]]
            texts = [rng.choice(['', '', 'hi', ' t ', 'a b', 'x  y', '7', ' ']) for _ in range(len(cs) + 1)]
            return [name, attrs, texts, cs]
        return {'roots': [mk(r) for r in roots]}

    def numtext(self):
        r = self.rng.random()
        if r < 0.75:
            return str(self.rng.randint(0, 6))
        if r < 0.9:
            return self.rng.choice(['2.5', '0.5', '1.5', '3.0', '10', '1.25'])
        return self.rng.choice([' 3 ', '4 ', '1e1', '007', '12'])

    # ---- predicates: three precedence levels ----
    def lit_num(self):
        r = self.rng.random()
        if self.num_pool and r < 0.45:
            return ['num', self.rng.choice(self.num_pool)]
        if r < 0.7:
            return ['num', str(self.rng.randint(0, 6))]
        return ['num', self.rng.choice(['2.5', '0.5', '.5', '1.0', '10', '1.25', '3.0'])]

    def lit_str(self):
        if self.str_pool and self.rng.random() < 0.5:
            return ['str', self.rng.choice(self.str_pool)]
        return ['str', self.rng.choice(['x', 'y', 'xy', 'x y', 'abc', 'hi', 't', ' t ', '', '2', '10', 'a,b', 'a)b', 'Foo', 'a b', 'a]b', '[x', 'a=b', 'x and y'])]

    def attr(self, numeric=None):
        if numeric is True:
            return ['attr', 'n']
        if numeric is False:
            return ['attr', self.rng.choice(['k', 'id', 'class', 'data-x', 'zz'])]
        return ['attr', self.rng.choice(['n', 'n', 'k', 'id', 'class', 'zz', 'data-x'])]

    def num_atom(self, depth):
        """an atom that is numeric on every element"""
        r = self.rng.random()
        if r < 0.4:
            return self.attr(True)
        if r < 0.75:
            return self.lit_num()
        if r < 0.85:
            return ['pos']
        if r < 0.92:
            return ['last']
        if depth > 0:
            return ['group', self.num_expr(depth - 1)]
        return self.lit_num()

    def num_expr(self, depth):
        e = self.num_atom(depth)
        for _ in range(self.rng.choice([0, 0, 1, 1, 2, 3])):
            o = self.rng.choice(['add', 'sub', 'mul', 'add', 'sub', 'div', 'mod'])
            r = self.num_atom(depth)
            if o in ('div', 'mod'):
                r = ['num', self.rng.choice(['1', '2', '3', '4'])]
            e = ['bin', o, e, r]
        return e

    def str_atom(self, depth):
        r = self.rng.random()
        if r < 0.3:
            return self.attr(False)
        if r < 0.55:
            return self.lit_str()
        if r < 0.65:
            return ['text']
        if r < 0.72:
            return ['nspace']
        if r < 0.8:
            return ['nspace', self.str_expr(max(depth - 1, 0)) if depth > 0 else self.attr(False)]
        if r < 0.92 and depth > 0:
            return ['concat'] + [self.str_expr(depth - 1) for _ in range(self.rng.randint(2, 3))]
        if depth > 0:
            return ['group', self.str_expr(depth - 1)]
        return self.lit_str()

    def str_expr(self, depth):
        """string valued (may be Null for an absent attribute when it is a bare attribute)"""
        e = self.str_atom(depth)
        if e[0] == 'attr' or self.rng.random() < 0.7:
            return e
        # `||` needs real strings on both sides
        for _ in range(self.rng.randint(1, 2)):
            r = self.rng.choice([self.lit_str(), ['text'], ['nspace'], self.lit_str()])
            if e[0] == 'attr':
                break
            e = ['bin', 'cat', e, r]
        return e

    def num_variant(self):
        """a string literal that is numeric but not written like the attribute values"""
        base = self.rng.choice(self.num_pool) if self.num_pool and self.rng.random() < 0.7 else str(self.rng.randint(0, 6))
        f = self.rng.choice(['%s.0', '0%s', ' %s', '%s ', '%s', '%s.00', '+%s'])
        if '.' in base and f in ('%s.0', '%s.00'):
            f = '%s0'
        return ['str', f % base]

    def comparison(self, depth):
        r = self.rng.random()
        if r < 0.08:
            # numeric comparison between string-typed operands (attribute vs attribute / numeric string literal)
            o = self.rng.choice(CMP)
            a = self.rng.choice([['attr', 'n'], ['attr', 'n'], ['nspace', ['attr', 'n']]])
            b = self.rng.choice([self.num_variant(), self.num_variant(), ['attr', 'n'], ['concat', ['attr', 'n'], ['str', '']]])
            return ['bin', o, a, b] if self.rng.random() < 0.7 else ['bin', o, b, a]
        if r < 0.16:
            # text functions against strings that occur in the document
            t = self.rng.choice(self.str_pool) if self.str_pool else 'hi'
            if '"' in t or "'" in t:
                t = 'hi'
            f = self.rng.choice([['text'], ['nspace'], ['nspace', ['text']], ['nspace', ['attr', 'k']], ['concat', ['attr', 'zz'], ['text']],
                                 ['concat', ['attr', 'k'], ['attr', 'id']], ['concat', ['text'], ['attr', 'k']]])
            return ['bin', self.rng.choice(['eq', 'eq', 'ne']), f, ['str', t if self.rng.random() < 0.6 else t.strip()]]
        if r < 0.45:
            o = self.rng.choice(CMP)
            return ['bin', o, self.num_expr(depth), self.num_expr(depth)]
        if r < 0.75:
            o = self.rng.choice(['eq', 'ne'])
            a, b = self.str_expr(depth), self.str_expr(depth)
            return ['bin', o, a, b]
        if r < 0.85:
            return ['contains', self.str_expr(depth), self.str_expr(depth)]
        if r < 0.9:
            # mixed: numeric attribute against a string literal that may or may not be numeric
            return ['bin', self.rng.choice(['eq', 'ne']), self.attr(), self.rng.choice([self.lit_str(), self.lit_num()])]
        if depth > 0:
            return ['group', self.boolean(depth - 1)]
        return ['bin', 'eq', self.attr(True), self.lit_num()]

    def boolean(self, depth):
        e = self.comparison(depth)
        for _ in range(self.rng.choice([0, 0, 0, 1, 1, 2])):
            e = ['bin', self.rng.choice(BOOL), e, self.comparison(depth)]
        return e

    def pred(self, depth=3):
        r = self.rng.random()
        if r < 0.12:
            return ['num', str(self.rng.randint(1, 3))]
        if r < 0.17:
            return ['last']
        if r < 0.2:
            return self.num_expr(min(depth, 1))          # a computed position
        if r < 0.24:
            return self.rng.choice([['num', '1.5'], ['num', '2.5'], ['bin', 'div', ['last'], ['num', '2']],
                                    ['bin', 'div', ['attr', 'n'], ['num', '2']], ['bin', 'add', ['pos'], ['num', '0.5']],
                                    ['bin', 'mul', ['pos'], ['num', '1.0']], ['bin', 'sub', ['last'], ['num', '0.5']]])
        if r < 0.27:
            return self.rare(depth)
        return self.boolean(depth)

    def rare(self, depth):
        """in-grammar shapes that are errors or outside the domain (kept at a low rate)"""
        return self.rng.choice([
            ['bin', 'lt', ['attr', 'zz'], ['num', '3']],
            ['bin', 'gt', ['attr', 'k'], ['num', '1']],
            ['bin', 'add', ['attr', 'k'], ['num', '1']],
            ['bin', 'eq', ['bin', 'div', ['attr', 'n'], ['num', '0']], ['num', '1']],
            ['bin', 'and', ['attr', 'n'], ['bin', 'eq', ['attr', 'n'], ['num', '1']]],
            ['bin', 'eq', ['concat', ['attr', 'n'], ['num', '1']], ['str', '11']],
            ['attr', 'k'],
            ['bin', 'eq', ['bin', 'cat', ['attr', 'zz'], ['str', 'a']], ['str', 'a']],
            ['bin', 'eq', ['bin', 'eq', ['attr', 'n'], ['num', '1']], ['num', '1']],
            ['bin', 'eq', ['nspace', ['num', '1']], ['num', '1']],
            ['contains', ['attr', 'n'], ['num', '1']],
            ['num', '1.5'],
            ['bin', 'lt', ['attr', 'k'], ['str', 'y']],
        ])

    def steps(self, max_steps=5, max_preds=3, depth=3, names=NAMES):
        out = []
        for i in range(self.rng.randint(1, max_steps)):
            axis = self.rng.choice([None, None, None, None] + AXES[1:])
            dbl = 1 if self.rng.random() < 0.5 else 0
            name = self.rng.choice(names + ['*', '*'])
            np_ = self.rng.choice([0, 0, 1, 1, 1, 2, 3])
            out.append([dbl, axis, name, [self.pred(depth) for _ in range(min(np_, max_preds))]])
        return out

    def steps_guided(self, ref, start, max_steps=5, max_preds=3, depth=3):
        """Steps chosen with the reference interpreter at hand, so that most expressions select something."""
        rng = self.rng
        names = sorted(set(r[0] for r in ref.rows if r[0] != WRAPPER))
        cur = []
        for x in start:
            if x not in cur:
                cur.append(x)
        out = []
        first = True
        for _ in range(rng.randint(1, max_steps)):
            step = None
            for attempt in range(8):
                axis = rng.choice([None, None, None, None] + AXES[1:])
                cand = [1 if rng.random() < 0.5 else 0, axis, rng.choice(names + ['*', '*'] + NAMES[:2]), []]
                nxt = []
                for i in cur:
                    for j in ref.axis(first, cand, i):
                        if j not in nxt:
                            nxt.append(j)
                step = cand
                if nxt or rng.random() < 0.08:
                    break
            first = False
            np_ = min(rng.choice([0, 0, 1, 1, 1, 2, 3]), max_preds)
            for _ in range(np_):
                chosen, kept = None, []
                for attempt in range(8):
                    p = self.pred(depth)
                    try:
                        kept = [i for i in nxt if ref.keep(p, i)]
                        ok = bool(kept) and (len(kept) < len(nxt) or attempt >= 3 or len(nxt) == 1)
                    except (Outside, RefError):
                        kept, ok = [], rng.random() < 0.1
                    chosen = p
                    if ok or rng.random() < 0.05:
                        break
                step[3].append(chosen)
                nxt = kept
            out.append(step)
            cur = nxt
        return out

    def receivers(self, doc):
        n = doc_size(doc)
        wrapper = len(doc['roots']) > 1
        lo = 1 if wrapper else 0
        recvs = [['doc']]
        ids = list(range(lo, n))
        if n - lo <= 8:
            recvs += [['el', i] for i in ids]
        else:
            recvs += [['el', i] for i in self.rng.sample(ids, 6)]
        for _ in range(2):
            k = self.rng.randint(1, min(5, len(ids)))
            c = [self.rng.choice(ids) for _ in range(k)]
            if self.rng.random() < 0.4:
                c.append(self.rng.choice(c))
            recvs.append(['coll', c])
        return recvs


# ------------------------------------------------------------------------------------------------

def enc_pred(p):
    k = p[0]
    if k in ('num', 'str', 'attr'):
        return [k, enc(p[1])]
    if k in ('text', 'last', 'pos'):
        return [k]
    if k == 'bin':
        return ['bin', p[1], enc_pred(p[2]), enc_pred(p[3])]
    return [k] + [enc_pred(a) for a in p[1:]]


class Check(PropCheck):
    id = 'C14'
    stream = 'C14'
    exhaustive_in = ('thorough',)
    rule = ('(document, expression, receivers): every expression with <= 2 steps and <= 1 predicate over a 3-name, 2-attribute '
            'vocabulary on a fixed 7-element document (thorough: all; quick: a 1/8 slice chosen by the seed) plus seeded random '
            'expressions (<= 5 steps, <= 3 predicates per step, predicate depth <= 3, three precedence levels, all operators, '
            'functions, axes) on random documents of up to 60 elements in which every element has a numeric attribute; rendered '
            'to text with random white space, quote style and letter case; evaluated from the document, from elements and from '
            'collections through every entry point; plus hostile expression texts (a fixed list of corner inputs, token soup, '
            '1-3 character mutations of well-formed renderings) on which only raises / parsed structure is compared; a case is '
            'non-trivial when some receiver gives a non-empty result or the expression has a predicate (hostile: the text has '
            'more than one character), distinct by canonical JSON')
    assumptions = [
        'the regex tokenizers are modelled (AHP/Model/XPathParse.lean, ASCII-exact) and proved to read the text of every '
        'writable expression, in every layout (white space / letter case / quote: a superset of what is randomised here), as its '
        'flat form (parse_render); malformed texts: tie only (hostile texts compare the parsed structure with the library)',
        'numbers: theorems over an abstract numeric structure; the driver uses IEEE doubles (Lean Float) like CPython',
        'normalize-space() strips leading/trailing white space only; arithmetic operators share one precedence level, and so do '
        'and/or (left to right): the reading of the property text that the code and the reference interpreter share',
    ]

    # ---- generation ---------------------------------------------------------------------------
    def cases(self, tier, rng):
        gen = Gen(rng)
        allx = list(exhaustive_exprs())
        if tier == 'thorough':
            chosen = allx
        else:
            k = rng.randrange(8)
            chosen = allx[k::8]
        recv_fixed = [['doc'], ['el', 2], ['el', 3], ['coll', [4, 1, 4]]]
        for e in chosen:
            yield Case({'doc': FIXED_DOC, 'steps': e, 'recv': recv_fixed, 'style': rng.randrange(1 << 30)}, 'exhaustive')
        n = 12000 if tier == 'thorough' else 1500
        doc = None
        for i in range(n):
            if doc is None or i % 5 == 0:
                doc = gen.doc()
                gen.set_doc(doc)
                ref = Ref(doc)
            recv = gen.receivers(doc)
            r = rng.random()
            if r < 0.1:
                steps = gen.steps(2, 1, 2)
            elif r < 0.2:
                steps = gen.steps()
            else:
                # guided by the reference interpreter from one of the receivers
                g = rng.choice(recv[:3]) if rng.random() < 0.5 else recv[0]
                start = ref.root_nodes() if g[0] == 'doc' else [g[1]] if g[0] == 'el' else list(g[1])
                small = rng.random() < 0.3
                steps = gen.steps_guided(ref, start, 2 if small else 5, 1 if small else 3, 2 if small else 3)
            yield Case({'doc': doc, 'steps': steps, 'recv': recv,
                        'style': 0 if rng.random() < 0.1 else rng.randrange(1 << 30)}, 'random')
        # hostile / malformed texts: the fixed list, token soup, mutations of well-formed renderings
        for t in HOSTILE_FIXED:
            yield Case({'hostile': t}, 'hostile-fixed')
        n = 16000 if tier == 'thorough' else 2500
        doc = gen.doc(8)
        gen.set_doc(doc)
        for i in range(n):
            r = rng.random()
            if r < 0.45:
                t = hostile_soup(rng)
            else:
                steps = gen.steps(3, 2, 2)
                t = render_expr(steps, 0 if rng.random() < 0.3 else rng.randrange(1 << 30))
                if r < 0.95:
                    t = hostile_mutate(t, rng)
            if hostile_ok(t):
                yield Case({'hostile': t}, 'hostile')

    def nontrivial(self, d):
        if 'hostile' in d:
            return len(d['hostile'].strip()) > 1
        return any(s[3] for s in d['steps']) or len(d['steps']) > 1

    def features(self, d):
        fs = set()
        if 'hostile' in d:
            t = d['hostile']
            out = lib_parsed(t)
            fs.add('hostile:' + ('raises' if out == 'err' else 'parses'))
            if out != 'err':
                for k in ('pred', 'group', 'concat', 'contains', 'nspace', 'bool', 'self', 'num', 'str', 'attr'):
                    if '(' + k in out:
                        fs.add('hostile-parsed:' + k)
            for k, what in (('"', 'dquote'), ("'", 'squote'), ('\\', 'backslash'), ('(', 'paren'), ('::', 'axis-or-suffix'),
                            ('\n', 'newline'), ('[]', 'empty-pred'), (',', 'comma')):
                if k in t:
                    fs.add('hostile-text:' + what)
            return sorted(fs)
        fs.add('steps=%d' % len(d['steps']))
        n = doc_size(d['doc'])
        fs.add('doc:' + ('1' if n == 1 else '<=8' if n <= 8 else '<=20' if n <= 20 else '<=60'))
        if len(d['doc']['roots']) > 1:
            fs.add('doc:multi-root')
        for s in d['steps']:
            fs.add('lead:' + ('//' if s[0] else '/'))
            fs.add('axis:' + (s[1] or 'none'))
            fs.add('name:' + ('*' if s[2] == '*' else 'named'))
            fs.add('preds=%d' % len(s[3]))
            for p in s[3]:
                if p[0] in ('num', 'last') or (p[0] == 'bin' and p[1] in ARITH):
                    fs.add('pred:numeric-position')
                for q in walk_pred(p):
                    if q[0] == 'bin':
                        fs.add('op:' + q[1])
                        for side in (q[2], q[3]):
                            if side[0] == 'bin' and op_cls(side[1]) == op_cls(q[1]):
                                fs.add('chain:same-class')
                    else:
                        fs.add('atom:' + q[0])
        for r in d['recv']:
            fs.add('recv:' + r[0])
        fs.add('style:' + ('plain' if d['style'] == 0 else 'random'))
        try:
            ref = self._ref(d)
            kinds = set()
            for r in d['recv']:
                kinds.add(self._ref_result(ref, d, r)[0])
            for k in kinds:
                fs.add('ref:' + k)
            if any(self._ref_result(ref, d, r) [1] for r in d['recv']):
                fs.add('result:non-empty')
        except Exception:
            pass
        return sorted(fs)

    def shrink(self, d):
        if 'hostile' in d:
            t = d['hostile']
            for i in range(len(t)):
                yield {'hostile': t[:i] + t[i + 1:]}
            return
        steps = d['steps']
        # fewer receivers
        if len(d['recv']) > 1:
            for i in range(len(d['recv'])):
                yield dict(d, recv=[d['recv'][i]])
        # fewer steps / predicates
        for i in range(len(steps)):
            if len(steps) > 1:
                yield dict(d, steps=steps[:i] + steps[i + 1:])
            for j in range(len(steps[i][3])):
                s = list(steps[i])
                s[3] = s[3][:j] + s[3][j + 1:]
                yield dict(d, steps=steps[:i] + [s] + steps[i + 1:])
        # smaller predicates: replace a predicate by one of its sub-expressions
        for i in range(len(steps)):
            for j, p in enumerate(steps[i][3]):
                for sub in self._subpreds(p):
                    s = list(steps[i])
                    s[3] = s[3][:j] + [sub] + s[3][j + 1:]
                    yield dict(d, steps=steps[:i] + [s] + steps[i + 1:])
        if d['style'] != 0:
            yield dict(d, style=0)
        # smaller document: drop a subtree that no receiver mentions
        used = set()
        for r in d['recv']:
            if r[0] == 'el':
                used.add(r[1])
            elif r[0] == 'coll':
                used.update(r[1])
        for cand in self._drop_subtrees(d['doc'], used):
            yield cand(d)

    def _subpreds(self, p):
        if p[0] == 'bin':
            yield p[2]
            yield p[3]
            for k in (2, 3):
                for sub in self._subpreds(p[k]):
                    q = list(p)
                    q[k] = sub
                    yield q
        elif p[0] == 'group':
            yield p[1]
            for sub in self._subpreds(p[1]):
                yield ['group', sub]

    def _drop_subtrees(self, doc, used):
        rows = doc_table(doc)
        wrapper = len(doc['roots']) > 1
        # pre-order numbering of nodes in the nested structure
        counter = [1 if wrapper else 0]
        spans = []

        def number(n):
            i = counter[0]
            counter[0] += 1
            for c in n[3]:
                number(c)
            spans.append((i, counter[0]))
        for r in doc['roots']:
            number(r)
        for (lo, hi) in sorted(spans, key=lambda s: s[0] - s[1]):
            if lo == 0 or (wrapper and len(doc['roots']) <= 2 and rows[lo][1] == 0):
                continue
            if any(lo <= u < hi for u in used):
                continue

            def make(lo=lo, hi=hi):
                def f(d):
                    cnt = [1 if wrapper else 0]

                    def prune(n):
                        i = cnt[0]
                        cnt[0] += 1
                        kids, texts = [], [n[2][0]]
                        for c, t in zip(n[3], n[2][1:]):
                            ci = cnt[0]
                            pc = prune(c)
                            if ci == lo:
                                texts[-1] += t
                            else:
                                kids.append(pc)
                                texts.append(t)
                        return [n[0], n[1], texts, kids]
                    roots = []
                    for r in d['doc']['roots']:
                        ri = cnt[0]
                        pr = prune(r)
                        if ri != lo:
                            roots.append(pr)
                    shift = hi - lo
                    m = lambda u: u if u < lo else u - shift
                    recv = []
                    for r in d['recv']:
                        if r[0] == 'el':
                            recv.append(['el', m(r[1])])
                        elif r[0] == 'coll':
                            recv.append(['coll', [m(u) for u in r[1]]])
                        else:
                            recv.append(r)
                    return dict(d, doc={'roots': roots}, recv=recv)
                return f
            yield make()

    # ---- both sides ---------------------------------------------------------------------------
    def text(self, d):
        return render_expr(d['steps'], d['style'])

    def encode(self, d):
        if 'hostile' in d:
            return sx('text', enc(d['hostile']))
        rows = doc_table(d['doc'])
        elems = [[enc(r[0]), 'none' if r[1] is None else r[1], [[enc(k), enc(v)] for k, v in r[2]], enc(r[3])] for r in rows]
        wrapper = 1 if len(d['doc']['roots']) > 1 else 0
        recvs = [[r[0]] if r[0] == 'doc' else ['el', r[1]] if r[0] == 'el' else ['coll'] + list(r[1]) for r in d['recv']]
        steps = [[s[0], s[1] or 'none', enc(s[2]), [enc_pred(p) for p in s[3]]] for s in d['steps']]
        return sx(elems, wrapper, recvs, steps, enc(self.text(d)))

    def impl(self, d):
        if 'hostile' in d:
            return lib_parsed(d['hostile'])
        B = Built.get(d['doc'])
        if not B.ok:
            return '(doc-mismatch)'
        text = self.text(d)
        out = []
        for tw in twin_texts(d['steps'], d['style']) if d['recv'] else []:
            lib_eval(B, tw, d['recv'][0], 0)
        for k, r in enumerate(d['recv']):
            res = lib_eval(B, text, r, 0)
            out.append('err' if res == 'err' else res if isinstance(res, str) else list(res))
        return sx(*(out + ['ok']))

    def compare(self, model_out, impl_out, d):
        if model_out == impl_out:
            return None
        if 'hostile' in d:
            return 'text=%r model=%s impl=%s' % (d['hostile'], model_out[:300], impl_out[:300])
        if model_out.endswith('specdiff)') and model_out[:-len('specdiff)')] + 'ok)' == impl_out:
            # model and library agree; the model's two evaluators differ: only legitimate when a constant folded at
            # compile time raises although no element reaches the predicate
            return None if self._fold_raises(d) else 'spec-vs-model: ' + model_out[:300]
        return 'model=%s impl=%s text=%r' % (model_out[:300], impl_out[:300], self.text(d))

    def _fold_raises(self, d):
        return static_error(d)

    # ---- the property itself on the library ----------------------------------------------------
    def _ref(self, d):
        return Ref(d['doc'])

    def _ref_result(self, ref, d, r):
        if any(leading_negative(p) for s in d['steps'] for p in s[3]) or static_error(d):
            return ('outside', None)
        if r[0] == 'doc':
            start = ref.root_nodes()
        elif r[0] == 'el':
            start = [r[1]]
        else:
            start = list(r[1])
        try:
            return ('ok', ref.evaluate(d['steps'], start))
        except Outside:
            return ('outside', None)
        except RefError:
            return ('error', None)

    def oracle(self, d):
        if 'hostile' in d:
            return None             # the property speaks about the denotation of expressions; these have none
        B = Built.get(d['doc'])
        if not B.ok:
            return ('doc-mismatch', 'the parsed document does not have the generated shape')
        text = self.text(d)
        ref = self._ref(d)
        for r in d['recv']:
            for tw in twin_texts(d['steps'], d['style']):
                lib_eval(B, tw, r, 0)
            kind, exp = self._ref_result(ref, d, r)
            got = [lib_eval(B, text, r, v) for v in range(N_VIA[r[0]])]
            for v, g in enumerate(got[1:], 1):
                if g != got[0]:
                    return ('entry-points', 'receiver %r, expression %r: entry point 0 gives %r, entry point %d gives %r'
                            % (r, text, got[0], v, g))
            g = got[0]
            if kind == 'outside':
                continue
            if kind == 'error':
                if g != 'err':
                    return ('no-raise', 'receiver %r, expression %r: the expression has no value there but the library returned %r'
                            % (r, text, g))
                continue
            if g == 'err':
                return ('raises', 'receiver %r, expression %r: the library raised, the expression denotes %r' % (r, text, exp))
            if g != exp:
                return ('result', 'receiver %r, expression %r: library %r, the expression denotes %r' % (r, text, g, exp))
        return None
