"""
C03 — parsing is total: any text parses without error, hang or debugger prompt; afterwards either nothing was
parsed or every serialiser returns a string; the object stays usable.
Stream `C03`: hostile strings x every parser / formatter class and configuration.
"""
import io
import json
import multiprocessing
import os
import signal
import tempfile
import time

from ..core import PropCheck, Case, sx, DebuggerEntered
from .. import parsing
from ..parsing import WRAPPER
from . import c02

CLASSES = ('plain', 'indexed', 'fmt', 'mini', 'slim', 'slimmini')
ENTRIES = ('parseStr', 'feed', 'parseFile', 'parseBytes', 'parseFileName')
FRAGMENTS = ['<', '>', '/', '=', '"', "'", '&', '#', ';', '!', '-', '?', ' ', '\n', '\t', '\r',
             'div', 'a', 'br', 'script', 'style', 'pre', 'code', 'xx', 'id', 'class', 'style=', 'x', '1',
             '<!DOCTYPE html>', '<!doctype', '<!--', '-->', '--', '<?', '?>', '\x00', '\U0001F600', 'é',
             '&amp;', '&amp', '&#', '&#x', '&#65;', '<a>', '</a>', '<b ', '</', '/>', '<br/>', '<p>', '</p>',
             '<div class="k" style="color: red">', '</div>', '<script>', '</script>', '<style>', '</style>',
             '<pre>', '</pre>', 'text', '<a href=x>', "<a b='c'>", '<input checked>', '<div style>', '<div class>',
             ']]>', '<!', '<!x>', '</>', '< ', '<1', 'open>', '<! doctype html>', '<!doctypehtml>', ' <!DOCTYPE html>',
             ' ' * 40, '\n \t' * 12, '\r\n' * 15, '<div id>', '<li ID>', '<a name>', '<p class style>']


def stripped(text):
    from AdvancedHTMLParser.utils import stripIEConditionals
    return stripIEConditionals(text)


def wrapped(text):
    from AdvancedHTMLParser.utils import addStartTag
    from AdvancedHTMLParser.constants import INVISIBLE_ROOT_TAG_START, INVISIBLE_ROOT_TAG_END
    return '%s%s' % (addStartTag(text, INVISIBLE_ROOT_TAG_START), INVISIBLE_ROOT_TAG_END)


def non_ascii_names(text):
    t = stripped(text)
    for src in (t, wrapped(t)):
        for tok in parsing.tokenize(src):
            if tok[0] in ('start', 'startend'):
                if not tok[1].isascii() or any(not a[0].isascii() for a in tok[2]):
                    return True
            elif tok[0] == 'end' and not tok[1].isascii():
                return True
    return False


def in_domain(text):
    low = text.lower()
    return WRAPPER not in low and '<![' not in text


class Budget(object):
    """per-case wall-clock budget enforced with SIGALRM (the parse runs in process)."""

    def __init__(self, seconds):
        self.seconds = seconds

    def __enter__(self):
        def on_alarm(signum, frame):
            raise TimeoutError('budget of %.2fs exceeded' % self.seconds)
        self.old = signal.signal(signal.SIGALRM, on_alarm)
        signal.setitimer(signal.ITIMER_REAL, self.seconds)

    def __exit__(self, *a):
        signal.setitimer(signal.ITIMER_REAL, 0)
        signal.signal(signal.SIGALRM, self.old)
        return False


def make(cls, cfg):
    import AdvancedHTMLParser as A
    from AdvancedHTMLParser import Formatter as F
    if cls == 'plain':
        return A.AdvancedHTMLParser(encoding=cfg.get('encoding', 'utf-8') or 'utf-8')
    if cls == 'indexed':
        p = A.IndexedAdvancedHTMLParser(indexIDs=cfg.get('ids', True), indexNames=cfg.get('names', True),
                                        indexClassNames=cfg.get('classes', True), indexTagNames=cfg.get('tags', True))
        for a in cfg.get('attrs', []):
            p.addIndexOnAttribute(a)
        return p
    if cls == 'fmt':
        return F.AdvancedHTMLFormatter(indent=cfg.get('indent', '  '), encoding=cfg.get('encoding', 'utf-8'))
    if cls == 'mini':
        return F.AdvancedHTMLMiniFormatter(encoding=cfg.get('encoding', 'utf-8'))
    if cls == 'slim':
        return F.AdvancedHTMLSlimTagFormatter(indent=cfg.get('indent', '  '), encoding=cfg.get('encoding', 'utf-8'),
                                              slimSelfClosing=cfg.get('slimSelfClosing', False))
    return F.AdvancedHTMLSlimTagMiniFormatter(encoding=cfg.get('encoding', 'utf-8'), slimSelfClosing=cfg.get('slimSelfClosing', False))


def all_elements(root):
    out = [root]
    for c in root.children:
        out.extend(all_elements(c))
    return out


class Check(PropCheck):
    id = 'C03'
    stream = 'C03'
    rule = ('hostile strings of length 0-200 built from a fragment alphabet (markup delimiters, quotes, references, names, doctype / '
            'comment / processing-instruction delimiters, NUL, non-BMP, unterminated constructs at end of input) and corrupted '
            'renderings of C02 token sequences (random deletions / insertions / truncations), each run on AdvancedHTMLParser, '
            'IndexedAdvancedHTMLParser (random index configuration) and the four formatters (indent in {"", " ", "  ", tab, 4}, '
            'encoding in {utf-8, None}, slimSelfClosing) through parseStr / feed / parseFile / bytes, under a per-case time budget, '
            'followed by a second parse on the same object. Non-trivial: contains "<" or "&"; distinct by canonical JSON. Text '
            'containing the reserved wrapper name or "<![" is outside the domain and not generated.')
    assumptions = ['the stdlib tokenizer\'s own totality and running time are observed, not proved; the model is fed the token '
                   'sequences html.parser reports for the text and for the wrapped text',
                   'wall-clock bound: 0.5 s + 5 ms per character per parse, re-run three times before a hang is reported',
                   'stripIEConditionals is applied by the real library code on the harness side before tokenising (the function itself is modelled and tied in C02: Model/StripIE.lean)']

    def random_text(self, rng):
        if rng.random() < 0.35:
            gen = c02.Check()
            text = c02.render(gen.random_tokens(rng), rng.randrange(1, 1 << 30))
            chars = list(text)
            for _ in range(rng.randint(1, 6)):
                if not chars:
                    break
                r = rng.random()
                i = rng.randrange(len(chars))
                if r < 0.4:
                    del chars[i]
                elif r < 0.8:
                    chars.insert(i, rng.choice('<>&"\'=/;#! -'))
                else:
                    del chars[i:]
            text = ''.join(chars)
        else:
            text = ''.join(rng.choice(FRAGMENTS) for _ in range(rng.randint(0, 40)))
        text = text[:200]
        while not in_domain(text):
            text = text.replace('<![', '<!').replace('xxxblank', 'xxblank').replace('XXXBLANK', 'xxblank')
            if not in_domain(text):
                text = ''.join(c for c in text if c.lower() not in 'xblank')
        return text

    def random_cfg(self, rng, cls):
        if cls == 'indexed':
            return {'ids': rng.random() < 0.5, 'names': rng.random() < 0.5, 'classes': rng.random() < 0.5,
                    'tags': rng.random() < 0.5, 'attrs': rng.sample(['href', 'data-x', 'title'], rng.randint(0, 2))}
        if cls in ('fmt', 'slim'):
            return {'indent': rng.choice(['', ' ', '  ', '\t', 4]), 'encoding': rng.choice(['utf-8', None]),
                    'slimSelfClosing': rng.random() < 0.5}
        if cls in ('mini', 'slimmini'):
            return {'encoding': rng.choice(['utf-8', None]), 'slimSelfClosing': rng.random() < 0.5}
        return {'encoding': 'utf-8'}

    def cases(self, tier, rng):
        fixed = ['', ' ', '<', '&', '&#', '<a', '</', '<!--', '<!', '<?', 'a<b</div>', '<div foo>x</div>', '<div style>x</div>',
                 '<details open>y</details>', '<!DOCTYPE html><p>a</p><p>b</p>', 'R&D', '<a>&', '<script>x', 'x<script>y',
                 '<br/><br/>', '\x00', '<! doctype html><a>', 'hello<!DOCTYPE html><p>x</p>', '<p>a</p>\n<!DOCTYPE html>\n<p>b</p>',
                 ' ' * 60 + 'x<a>', '\n' * 30 + ' ' * 30 + '<a></a><b></b>', '<div id>x</div>', '<span id/>', '<a \x00=1>', '<a b=">', "<a b='>", '<a/b>', '<a//>', '<p/ >', '</ a>', '<A B=C D>']
        # nesting depths around powers of two and other round numbers (a table, a counter or a limit indexed by the depth)
        for depth in (8, 9, 10, 15, 16, 17, 20, 31, 32, 33, 34, 50, 63, 64, 65, 66):
            fixed.append('<a>' * depth)
            if depth <= 34:
                fixed.append('<i>' * depth + 'x' + '</i>' * (depth // 2))
        for t in fixed:
            for cls in CLASSES:
                yield Case({'text': t, 'cls': cls, 'cfg': {}, 'entry': 'parseStr'}, 'corpus-fixed')
        n = 40000 if tier == 'thorough' else 5000
        for _ in range(n):
            cls = rng.choice(CLASSES)
            d = {'text': self.random_text(rng), 'cls': cls, 'cfg': self.random_cfg(rng, cls), 'entry': rng.choice(ENTRIES)}
            r = rng.random()
            if r < 0.3:
                # the object has a history: it parsed something before, or it is an unpickled / copied parser
                d['prov'] = rng.choice(('used', 'used-feed', 'pickled', 'copied') if cls in ('plain', 'indexed') else ('used', 'used-feed'))
            yield Case(d, 'random')

    def nontrivial(self, d):
        return '<' in d['text'] or '&' in d['text']

    def features(self, d):
        t = d['text']
        fs = ['cls:' + d['cls'], 'entry:' + d['entry'], 'object:' + d.get('prov', 'fresh'), 'len<=%d' % (10 * ((len(t) + 9) // 10))]
        for k, m in (('lt', '<'), ('amp', '&'), ('comment', '<!--'), ('doctype', '<!D'), ('pi', '<?'), ('nul', '\x00'),
                     ('script', '<script'), ('quote', '"')):
            if m in t:
                fs.append('has:' + k)
        if t.endswith(('<', '&', '<a', '</', '&#', '<!--')) or (t.rfind('<') > t.rfind('>')):
            fs.append('unterminated-at-end')
        return fs

    def shrink(self, d):
        t = d['text']
        n = len(t)
        step = max(1, n // 8)
        while step >= 1:
            for i in range(0, n, step):
                cand = t[:i] + t[i + step:]
                if in_domain(cand):
                    yield dict(d, text=cand)
            if step == 1:
                break
            step //= 2
        if d['cfg']:
            yield dict(d, cfg={})
        if d['entry'] != 'parseStr':
            yield dict(d, entry='parseStr')
        if d.get('prov'):
            yield {k: v for k, v in d.items() if k != 'prov'}

    # ---- model side: plain and indexed parser -------------------------------------------------------------------
    def encode(self, d):
        return self._call(d)[2]

    def encode_inproc(self, d):
        if d['cls'] not in ('plain', 'indexed'):
            return '(() ())'
        text = stripped(d['text'])
        return '(' + parsing.toks_sx(parsing.tokenize(text)) + ' ' + parsing.toks_sx(parsing.tokenize(wrapped(text))) + ')'

    def parse(self, obj, d, text):
        entry = d['entry']
        if entry == 'parseStr':
            obj.parseStr(text)
        elif entry == 'feed':
            obj.feed(text)
        elif entry == 'parseBytes':
            enc_ = getattr(obj, 'encoding', None) or 'utf-8'
            try:
                data = text.encode(enc_)
            except UnicodeEncodeError:
                data = None
            if data is None or getattr(obj, 'encoding', 'utf-8') is None:
                obj.parseStr(text)
            else:
                obj.parseStr(data)
        elif entry == 'parseFileName':
            # parseFile(<path>): the library opens the file itself with the object's encoding (None = the platform's text mode)
            try:
                data = text.encode('utf-8')
            except UnicodeEncodeError:
                data = None
            if data is None or (getattr(obj, 'encoding', 'utf-8') is None and ('\r' in text or not text.isascii())):
                obj.parseFile(_TextFile(text))      # not storable as UTF-8 / text mode would rewrite it: the file-object form
            else:
                import tempfile
                fd, path = tempfile.mkstemp(prefix='ahp-c03-', suffix='.html')
                try:
                    with os.fdopen(fd, 'wb') as fh:
                        fh.write(data)
                    obj.parseFile(path)
                finally:
                    try:
                        os.unlink(path)
                    except OSError:
                        pass
        else:
            obj.parseFile(_TextFile(text))

    def impl_inproc(self, d):
        if d['cls'] not in ('plain', 'indexed'):
            return '(first (empty none))'
        p = make_obj(d)
        try:
            self.parse(p, d, d['text'])
        except DebuggerEntered:
            return '(impl-debugger)'
        except Exception as e:      # noqa
            return sx('raise', type(e).__name__)
        root = p.getRoot()
        second = root is not None and root.tagName == WRAPPER
        return sx('second' if second else 'first', parsing.doc_sx(p))

    # ---- isolation: every case runs in a worker process that the parent can kill -----------------------------------------
    # (a regular-expression call that backtracks exponentially cannot be interrupted by a signal handler in process)
    _proc = None
    _conn = None
    _cache = {}
    _timeouts = 0

    def _start(self):
        ctx = multiprocessing.get_context('fork')
        parent, child = ctx.Pipe()
        proc = ctx.Process(target=_worker_main, args=(child,), daemon=True)
        proc.start()
        child.close()
        Check._proc, Check._conn = proc, parent

    def _call(self, d):
        key = json.dumps(d, sort_keys=True)
        if key in Check._cache:
            return Check._cache[key]
        if Check._timeouts >= 3:
            # the time bound is already refuted three times in this run: do not spend minutes on more instances
            res = ('(skipped-after-timeouts)', None, '(() ())')
            Check._cache[key] = res
            return res
        if Check._proc is None or not Check._proc.is_alive():
            self._start()
        hard = max(6.0, 30 * (0.5 + 0.005 * len(d['text'])))
        try:
            Check._conn.send(d)
            if Check._conn.poll(hard):
                res = Check._conn.recv()
                if len(res) == 4:
                    # library lines the worker executed for the first time (source-reach measurement, core/srccov)
                    from .. import srccov
                    srccov._hits.update(tuple(h) for h in res[3])
                    res = res[:3]
            else:
                raise TimeoutError()
        except (TimeoutError, EOFError, BrokenPipeError, OSError):
            try:
                Check._proc.kill()
                Check._proc.join(2)
            except Exception:
                pass
            Check._proc = None
            Check._timeouts += 1
            res = ('(impl-timeout)', ('time', 'parse of %r on %s (%s) did not return within %.0f s (worker killed)'
                                      % (d['text'], d['cls'], d['entry'], hard)), '(() ())')
        if len(Check._cache) > 20000:
            Check._cache.clear()
        Check._cache[key] = res
        return res

    def impl(self, d):
        return self._call(d)[0]

    def oracle(self, d):
        return self._call(d)[1]

    def compare(self, model_out, impl_out, d):
        if d['cls'] not in ('plain', 'indexed') or impl_out in ('(impl-timeout)', '(skipped-after-timeouts)', '(skipped-nonascii-names)'):
            return None
        return PropCheck.compare(self, model_out, impl_out, d)

    # ---- the property itself -----------------------------------------------------------------------------------------
    def oracle_inproc(self, d):
        text = d['text']
        budget = 0.5 + 0.005 * len(text)
        last = None
        for attempt in range(3):
            last = self.oracle_once(d, budget)
            if last is None or last[0] != 'time':
                return last
        return last

    def oracle_once(self, d, budget):
        text = d['text']
        obj = make_obj(d)
        t0 = time.time()
        try:
            with Budget(budget * 4):
                self.parse(obj, d, text)
        except TimeoutError as e:
            return ('time', 'parse of %r on %s: %s' % (text, d['cls'], e))
        except DebuggerEntered:
            return ('debugger', 'parse of %r on %s dropped into pdb' % (text, d['cls']))
        except Exception as e:      # noqa
            return ('raises', 'parse of %r on %s (%s) raised %s: %s' % (text, d['cls'], d['entry'], type(e).__name__, e))
        dt = time.time() - t0
        if dt > budget:
            return ('time', 'parse of %r took %.2fs (budget %.2fs)' % (text, dt, budget))
        r = self.after_parse(obj, d, text)
        if r:
            return r
        # the object is still usable
        try:
            obj.parseStr('<b>x</b>')
            html = obj.getHTML()
        except DebuggerEntered:
            return ('debugger', 'second parse after %r dropped into pdb' % text)
        except Exception as e:      # noqa
            return ('unusable', 'after %r on %s the next parseStr/getHTML raised %s: %s' % (text, d['cls'], type(e).__name__, e))
        if not isinstance(html, str) or 'x' not in html or '<b' not in html:
            return ('unusable', 'after %r on %s the next parse gives %r' % (text, d['cls'], html))
        return None

    def after_parse(self, obj, d, text):
        root = obj.getRoot()
        getters = ['getHTML']
        if d['cls'] in ('plain', 'indexed'):
            getters += ['getFormattedHTML', 'getMiniHTML']
        for g in getters:
            try:
                v = getattr(obj, g)()
            except ValueError as e:
                if root is None:
                    continue        # the documented "nothing parsed" error
                if g != 'getHTML' and 'Cannot format' in str(e) and _buffered_only(obj):
                    # the recorded finding's class, recognised by an independent scan: the serialisation consists only of
                    # characters the (never closed) stdlib tokenizer keeps buffered, so the formatter sees no token at all
                    return ('raises-buffered-only', '%s() after %r on %s raised ValueError: %s' % (g, text, d['cls'], e))
                return ('raises', '%s() after %r on %s raised ValueError: %s' % (g, text, d['cls'], e))
            except DebuggerEntered:
                return ('debugger', '%s() after %r dropped into pdb' % (g, text))
            except Exception as e:      # noqa
                return ('raises', '%s() after %r on %s raised %s: %s' % (g, text, d['cls'], type(e).__name__, e))
            if root is None and g == 'getHTML':
                return ('nothing-parsed-but-html', 'getHTML() returned %r although nothing was parsed' % (v,))
            if not isinstance(v, str):
                return ('not-a-string', '%s() after %r on %s returned %s' % (g, text, d['cls'], type(v).__name__))
        if root is not None:
            for e in all_elements(root):
                try:
                    o = e.outerHTML
                except DebuggerEntered:
                    return ('debugger', 'outerHTML after %r dropped into pdb' % text)
                except Exception as ex:     # noqa
                    return ('raises', 'outerHTML of <%s> after %r raised %s: %s' % (e.tagName, text, type(ex).__name__, ex))
                if not isinstance(o, str):
                    return ('not-a-string', 'outerHTML of <%s> after %r is %s' % (e.tagName, text, type(o).__name__))
        return None


def make_obj(d):
    """the object under test, with the history the case asks for (`prov`): fresh; used before (a document left open, through
    parseStr or feed — `feed` does not reset, so the earlier document is then part of the input: skipped for the model); an
    unpickled or copied parser"""
    import copy
    import pickle
    obj = make(d['cls'], d['cfg'])
    prov = d.get('prov')
    if prov in ('used', 'used-feed') and d['entry'] == 'feed':
        pass        # feed() continues the document the object holds (no reset, by design): no earlier document then
    elif prov == 'used':
        try:
            obj.parseStr('<!DOCTYPE used><section><pre><i>left open')
        except Exception:
            pass
    elif prov == 'used-feed':
        try:
            obj.feed('<!DOCTYPE used><section><pre><i>left open')
        except Exception:
            pass
    elif prov == 'pickled':
        obj = pickle.loads(pickle.dumps(obj, 2))
    elif prov == 'copied':
        obj = copy.copy(obj)
    return obj


def _buffered_only(obj):
    """does a fresh stdlib tokenizer report no token that makes a node (only blank text, declarations) for getHTML() of this document?"""
    try:
        html = obj.getHTML()
    except Exception:
        return False
    return isinstance(html, str) and all((t[0] == 'data' and not t[1].strip()) or t[0] in ('decl', 'udecl', 'pi')
                                         for t in parsing.tokenize(html))


def _worker_main(conn):
    from ..core import safe_impl, safe_oracle

    class Inner(Check):
        impl = Check.impl_inproc
        oracle = Check.oracle_inproc
    chk = Inner()
    from .. import srccov, noise
    from ..core import quiet_call
    sent = set()
    served = 0
    while True:
        try:
            d = conn.recv()
        except EOFError:
            return
        if d is None:
            return
        quiet_call(noise.between, served)       # the library runs in this process: so does the noise (core/noise)
        served += 1
        try:
            payload = chk.encode_inproc(d)
        except Exception:
            payload = '(() ())'
        impl_out = safe_impl(chk, d)
        try:
            if d['cls'] in ('plain', 'indexed') and non_ascii_names(d['text']):
                # the model's str.isalpha / isalnum / lower are ASCII-exact (DESIGN: Unicode restriction): element and
                # attribute names outside ASCII are not compared (the oracle still runs)
                impl_out = '(skipped-nonascii-names)'
        except Exception:
            pass
        verdict = safe_oracle(chk, d)
        new = srccov._hits - sent
        sent |= new
        conn.send((impl_out, verdict, payload, sorted(new)))


class _TextFile(io.TextIOWrapper):
    """a real `file` object (io.TextIOWrapper) over the text, as parseFile's isinstance test expects"""

    def __init__(self, text):
        io.TextIOWrapper.__init__(self, io.BytesIO(text.encode('utf-8', 'surrogatepass')), encoding='utf-8', newline='',
                                  errors='surrogatepass')
