"""
C07 — indexes are transparent: indexed search equals unindexed search.

Stream `C07`: an IndexedAdvancedHTMLParser configuration (4 flags, 0-2 attribute indexes) and a history
  parse, [parse again], [DOM edits], [index reconfiguration], reindex, queries …
The model (lean/AHP/Model/Index.lean) and the library run the history; compared for every query: the
indexed answer and the answer of the plain search (with AHP_C07_MAPS=1 also the contents of the index maps
after every parse / reindex / setRoot).  The oracle compares, on the library alone, the three answers the property names
(useIndex as asked, useIndex=False, a plain AdvancedHTMLParser on the same document) with each other and with
a brute-force filter over the pre-order of the document described by the case data.

case data:
  {'cfg': [ids, names, classes, tags], 'attrs': [a...], 'steps': [step...]}
  step = ['parse', node] | ['parsemulti', [node...]]
       | ['setattr', u, k, v] | ['delattr', u, k] | ['addclass', u, c] | ['rmclass', u, c] | ['append', u, node] | ['remove', u]
       | ['appendmoved', u, node, old]  (the objects removed as `old` appended below u; the model sees a new subtree `node`)
       | ['addindex', a] | ['rmindex', a] | ['disable'] | ['reindex', o, o, o, o] | ['setroot', u]
       | ['query', ['P'] | ['P', u], op, useIndex]
  node as in C06; uids are allocated in creation order over the whole history (wrapper of a multi-root parse first).
"""
import itertools
import os
import random

from ..core import PropCheck, Case, sx, enc, parse_sx
from . import c06

WRAPPER = 'xxxblank'
IDX_ATTRS = ['title', 'data-x', 'lang']


# ------------------------------------------------------------------------------------------------
# the history on plain data (used by the generator, the validity check and the oracle)

def to_pnode(n, counter):
    u = counter[0]
    counter[0] += 1
    return {'u': u, 'tag': n[0], 'attrs': [list(a) for a in n[1]], 'classes': list(n[2]), 'text': n[3][0] + n[3][1],
            'kids': [to_pnode(k, counter) for k in n[4]]}


def p_iter(n):
    yield n
    for k in n['kids']:
        for x in p_iter(k):
            yield x


def p_find(root, u, parent=None):
    if root['u'] == u:
        return root, parent
    for k in root['kids']:
        r = p_find(k, u, root)
        if r is not None:
            return r
    return None


def p_to_c06(n):
    return [n['tag'], [list(a) for a in n['attrs']], list(n['classes']), [n['text'], ''], [p_to_c06(k) for k in n['kids']]]


class Pure(object):
    """Replays a history on plain data; raises Invalid for histories outside the property's form."""

    class Invalid(Exception):
        pass

    def __init__(self, d):
        self.counter = [0]
        self.root = None
        self.dirty = False
        self.parsed = False
        # values that were in the document once and may be gone now: the stale entries an index must not keep
        self.retired = {'id': [], 'name': [], 'cls': [], 'tag': [], 'attr': []}
        self.removed = set()        # elements taken out of the document (an 'appendmoved' step puts one back elsewhere)

    def _retire(self, n, deep=True):
        for x in (p_iter(n) if deep else [n]):
            at = dict(map(tuple, x['attrs']))
            r = self.retired
            for k, v in at.items():
                if k == 'id':
                    r['id'].append(v)
                elif k == 'name':
                    r['name'].append(v)
                else:
                    r['attr'].append([k, v])
            r['cls'].extend(x['classes'])
            r['tag'].append(x['tag'])

    def apply(self, st):
        k = st[0]
        if k in ('parse', 'parsemulti') and self.root is not None:
            self._retire(self.root)
        if k == 'parse':
            self.root = to_pnode(st[1], self.counter)
            self.dirty = False
        elif k == 'parsemulti':
            self.root = to_pnode([WRAPPER, [], [], ['', ''], st[1]], self.counter)
            self.dirty = False
        elif self.root is None:
            raise Pure.Invalid('nothing parsed')
        elif k in ('setattr', 'delattr', 'addclass', 'rmclass', 'append', 'appendmoved', 'remove'):
            if k == 'appendmoved':
                # ['appendmoved', u, node, old]: the element objects removed as `old` are appended below u (to the model a new
                # subtree; to the library the same objects, which may be remembered somewhere)
                if st[3] not in self.removed:
                    raise Pure.Invalid('appendmoved of an element that was not removed')
                self.removed.discard(st[3])
            hit = p_find(self.root, st[1])
            if hit is None:
                raise Pure.Invalid('unknown element')
            n, parent = hit
            self.dirty = True
            if k in ('setattr', 'delattr', 'rmclass'):
                self._retire(n, deep=False)
            elif k == 'remove':
                self._retire(n)
            if k == 'setattr':
                for a in n['attrs']:
                    if a[0] == st[2]:
                        a[1] = st[3]
                        break
                else:
                    n['attrs'].append([st[2], st[3]])
            elif k == 'delattr':
                n['attrs'] = [a for a in n['attrs'] if a[0] != st[2]]
            elif k == 'addclass':
                if st[2] not in n['classes']:
                    n['classes'].append(st[2])
            elif k == 'rmclass':
                if st[2] in n['classes']:
                    n['classes'].remove(st[2])
            elif k in ('append', 'appendmoved'):
                n['kids'].append(to_pnode(st[2], self.counter))
            elif k == 'remove':
                if parent is None:
                    raise Pure.Invalid('cannot remove the root')
                parent['kids'].remove(n)
                self.removed.add(st[1])
        elif k in ('addindex', 'rmindex', 'disable'):
            # the property's histories: [index reconfiguration], reindex, queries
            self.dirty = True
        elif k == 'reindex':
            self.dirty = False
        elif k == 'setroot':
            hit = p_find(self.root, st[1])
            if hit is None:
                raise Pure.Invalid('unknown element')
            self._retire(self.root)
            self.root = hit[0]
            self.dirty = False
        elif k == 'query':
            if self.dirty:
                raise Pure.Invalid('query on an index that was not rebuilt after edits')
            if len(st[1]) > 1 and p_find(self.root, st[1][1]) is None:
                raise Pure.Invalid('unknown root= element')
            ids = [dict(map(tuple, n['attrs'])).get('id') for n in p_iter(self.root)]
            ids = [i for i in ids if i is not None]
            if len(set(ids)) != len(ids):
                raise Pure.Invalid('ids must be unique')
        else:
            raise ValueError(st)

    def expected(self, recv, op):
        """Brute force over the pre-order of the current document (C06's reference), in uids."""
        order = [n['u'] for n in p_iter(self.root)]
        flat = c06.Flat(p_to_c06(self.root))
        r = ['P'] if len(recv) == 1 else ['P', order.index(recv[1])]
        e = c06.expected(flat, r, op)
        if e is None:
            return None
        return [e[0]] + [order[i] for i in e[1:]]


def valid(d):
    try:
        p = Pure(d)
        for st in d['steps']:
            p.apply(st)
        return True
    except Pure.Invalid:
        return False


# ------------------------------------------------------------------------------------------------
# the library side

class Run(object):
    def __init__(self, d):
        import AdvancedHTMLParser as AHP
        self.AHP = AHP
        a, b, c, e = d['cfg']
        self.parser = AHP.IndexedAdvancedHTMLParser(indexIDs=a, indexNames=b, indexClassNames=c, indexTagNames=e)
        for x in d['attrs']:
            self.parser.addIndexOnAttribute(x)
        self.els = {}
        self.idx = {}
        self.counter = 0

    def _register(self, e):
        self.els[self.counter] = e
        self.idx[e.uid] = self.counter
        self.counter += 1
        for c in e.children:
            self._register(c)

    def _build(self, n):
        tag, attrs, classes, (pre, post), kids = n
        al = [(k, v) for k, v in attrs]
        if classes:
            al.append(('class', ' '.join(classes)))
        e = self.AHP.AdvancedTag(tag, al)
        if pre:
            e.appendText(pre)
        for k in kids:
            e.appendChild(self._build(k))
        if post:
            e.appendText(post)
        return e

    def uid_of(self, e):
        return self.idx.get(e.uid, -1)

    def apply(self, st):
        k = st[0]
        p = self.parser
        if k == 'parse':
            p.parseStr(c06.render(st[1]))
            self._register(p.getRoot())
        elif k == 'parsemulti':
            p.parseStr(''.join(c06.render(n) for n in st[1]))
            self._register(p.getRoot())
        elif k == 'setattr':
            self.els[st[1]].setAttribute(st[2], st[3])
        elif k == 'delattr':
            self.els[st[1]].removeAttribute(st[2])
        elif k == 'addclass':
            self.els[st[1]].addClass(st[2])
        elif k == 'rmclass':
            self.els[st[1]].removeClass(st[2])
        elif k == 'append':
            sub = self._build(st[2])
            self.els[st[1]].appendChild(sub)
            self._register(sub)
        elif k == 'remove':
            e = self.els[st[1]]
            e.parentNode.removeChild(e)
        elif k == 'appendmoved':
            sub = self.els[st[3]]           # the removed objects themselves; they are numbered anew, as the model numbers them
            self.els[st[1]].appendChild(sub)
            self._register(sub)
        elif k == 'addindex':
            p.addIndexOnAttribute(st[1])
        elif k == 'rmindex':
            p.removeIndexOnAttribute(st[1])
        elif k == 'disable':
            p.disableIndexing()
        elif k == 'reindex':
            p.reindex(*st[1:5])
        elif k == 'setroot':
            e = self.els[st[1]]
            if e.parentNode is not None:
                e.parentNode.removeChild(e)
            p.setRoot(e)
        else:
            raise ValueError(st)

    def maps(self):
        p = self.parser
        u = self.uid_of

        def lst(m):
            return [[enc(k)] + [u(e) for e in v] for k, v in sorted(m.items()) if v]
        return ['maps',
                ['id'] + [[enc(k), u(e)] for k, e in sorted(p._idMap.items())],
                ['name'] + lst(p._nameMap), ['class'] + lst(p._classNameMap), ['tag'] + lst(p._tagNameMap),
                ['other'] + [[enc(a)] + lst(m) for a, m in sorted(p._otherAttributeIndexes.items())]]

    def answer(self, parser, recv, op, extra):
        B = _Shim(self, parser)
        r = ['P'] if len(recv) == 1 else ['P', recv[1]]
        return c06.run_query(B, r, op, extra)


class _Shim(object):
    """What c06.run_query needs: parser, els (by uid), idx, AHP, ids()."""

    def __init__(self, run, parser):
        self.parser = parser
        self.els = run.els
        self.idx = run.idx
        self.AHP = run.AHP

    def ids(self, coll):
        return [self.idx.get(e.uid, -1) for e in coll]


MAPS_AFTER = ('parse', 'parsemulti', 'reindex', 'setroot')
# The contents of the private index maps are compared only on request (AHP_C07_MAPS=1, a development aid): the
# property speaks about answers, and a harmless change of the bookkeeping (e.g. a flag that stays on after
# disableIndexing and is filled again by the next reindex) must not raise an alarm.
COMPARE_MAPS = os.environ.get('AHP_C07_MAPS') == '1'


# ------------------------------------------------------------------------------------------------
# encoding

def enc_step(st, counter):
    k = st[0]
    if k == 'parse':
        return ['parse', c06.enc_node(st[1], counter)]
    if k == 'parsemulti':
        return ['parse', c06.enc_node([WRAPPER, [], [], ['', ''], st[1]], counter)]
    if k == 'setattr':
        return [k, st[1], enc(st[2]), enc(st[3])]
    if k in ('delattr', 'addclass', 'rmclass'):
        return [k, st[1], enc(st[2])]
    if k in ('append', 'appendmoved'):
        return ['append', st[1], c06.enc_node(st[2], counter)]
    if k in ('remove', 'setroot'):
        return [k, st[1]]
    if k in ('addindex', 'rmindex'):
        return [k, enc(st[1])]
    if k == 'disable':
        return [k]
    if k == 'reindex':
        return [k] + ['none' if o is None else o for o in st[1:5]]
    if k == 'query':
        return [k, list(st[1]), c06.enc_op(st[2]), bool(st[3])]
    raise ValueError(st)


# ------------------------------------------------------------------------------------------------
# generators

def doc_queries(rng, pure, n, idx_attrs):
    """Queries over the current document's vocabulary plus absent values."""
    nodes = list(p_iter(pure.root))
    tags = sorted(set(x['tag'] for x in nodes))
    out = []
    for _ in range(n):
        kind = rng.choice(('tag', 'name', 'id', 'cls', 'cls', 'attr', 'attr', 'vals'))
        x = rng.choice(nodes)
        attrs = dict(map(tuple, x['attrs']))
        if kind == 'tag':
            op = ['tag', rng.choice(tags + [x['tag'], c06.ABSENT])]
        elif kind == 'name':
            op = ['name', attrs.get('name', rng.choice(c06.NAMES + [c06.ABSENT]))]
        elif kind == 'id':
            op = ['id', attrs.get('id', 'e0') if rng.random() < 0.85 else c06.ABSENT]
        elif kind == 'cls':
            if x['classes'] and rng.random() < 0.6:
                k = rng.randint(1, min(3, len(x['classes'])))
                names = rng.sample(x['classes'], k)
                if rng.random() < 0.2:
                    names.append(rng.choice(c06.CLASSES + [c06.ABSENT]))
                q = rng.choice((' ', ' ', '  ')).join(names)
                if rng.random() < 0.15:
                    q = ' ' + q + ' '
                op = ['cls', q]
            else:
                op = ['cls', c06.rand_class_query(rng)]
        else:
            cands = [a for a in attrs if a not in ('id', 'name')]
            a = rng.choice(cands) if cands and rng.random() < 0.7 else rng.choice(IDX_ATTRS + ['name', 'id'])
            if idx_attrs and rng.random() < 0.5:
                a = rng.choice(idx_attrs)
            v = attrs.get(a, rng.choice(c06.VALUES))
            if kind == 'attr':
                op = ['attr', a, v if rng.random() < 0.8 else rng.choice(c06.VALUES + [c06.ABSENT])]
            else:
                vs = [v] if rng.random() < 0.7 else []
                vs += [rng.choice(c06.VALUES + [c06.ABSENT]) for _ in range(rng.randint(0, 2))]
                rng.shuffle(vs)
                op = ['vals', a, vs[:3]]
        ret = pure.retired
        if rng.random() < 0.3:
            if op[0] in ('tag', 'name', 'id', 'cls') and ret[op[0]]:
                op = [op[0], rng.choice(ret[op[0]])]
            elif op[0] == 'attr' and ret['attr']:
                a, v = rng.choice(ret['attr'])
                op = ['attr', a, v]
            elif op[0] == 'vals' and ret['attr']:
                a, v = rng.choice(ret['attr'])
                op = ['vals', a, [v] + op[2][:1]]
        r = rng.random()
        if r < 0.55 or len(nodes) == 1:
            recv = ['P']
        elif r < 0.62:
            recv = ['P', pure.root['u']]
        else:
            recv = ['P', rng.choice(nodes)['u']]
        out.append(['query', recv, op, rng.random() < 0.85])
    return out


def rand_edit(rng, pure, idx_attrs, fresh):
    nodes = list(p_iter(pure.root))
    x = rng.choice(nodes)
    attrs = dict(map(tuple, x['attrs']))
    used_ids = set(dict(map(tuple, n['attrs'])).get('id') for n in nodes)
    k = rng.choice(('setid', 'delid', 'setname', 'delname', 'addclass', 'rmclass', 'setattr', 'setattr', 'delattr', 'append', 'append', 'remove'))
    if k == 'setid':
        pool = [i for i in fresh['ids'] if i not in used_ids]
        if not pool:
            return None
        return ['setattr', x['u'], 'id', rng.choice(pool)]
    if k == 'delid':
        return ['delattr', x['u'], 'id']
    if k == 'setname':
        return ['setattr', x['u'], 'name', rng.choice(c06.NAMES + ['n3'])]
    if k == 'delname':
        return ['delattr', x['u'], 'name']
    if k == 'addclass':
        return ['addclass', x['u'], rng.choice(c06.CLASSES + ['e'])]
    if k == 'rmclass':
        return ['rmclass', x['u'], rng.choice(x['classes']) if x['classes'] and rng.random() < 0.8 else rng.choice(c06.CLASSES)]
    if k == 'setattr':
        a = rng.choice(idx_attrs) if idx_attrs and rng.random() < 0.6 else rng.choice(IDX_ATTRS)
        return ['setattr', x['u'], a, rng.choice(c06.VALUES)]
    if k == 'delattr':
        cands = [a for a in attrs if a not in ('id', 'name')]
        return ['delattr', x['u'], rng.choice(cands) if cands else rng.choice(IDX_ATTRS)]
    if k == 'append':
        sub = c06.rand_doc(rng, rng.randint(1, 4), 'none')
        # fresh unique ids for the new elements
        def relabel(n):
            n[1] = [a for a in n[1] if a[0] != 'id']
            if rng.random() < 0.7:
                pool = [i for i in fresh['ids'] if i not in used_ids]
                if pool:
                    i = rng.choice(pool)
                    used_ids.add(i)
                    n[1].append(['id', i])
            for c in n[4]:
                relabel(c)
        relabel(sub)
        return ['append', x['u'], sub]
    if k == 'remove':
        if x is pure.root:
            return None
        return ['remove', x['u']]
    return None


def gen_history(rng, max_steps=12, tier='quick'):
    cfg = [rng.random() < 0.6 for _ in range(4)]
    attrs = rng.sample(IDX_ATTRS, rng.choice((0, 0, 1, 1, 2)))
    if attrs and rng.random() < 0.15:
        attrs[0] = attrs[0].upper()                       # addIndexOnAttribute lower-cases
    d = {'cfg': cfg, 'attrs': attrs, 'steps': []}
    pure = Pure(d)
    idx_attrs = [a.lower() for a in attrs]
    fresh = {'ids': ['e%d' % i for i in range(0, 40)] + ['x', 'y', 'z']}
    steps = d['steps']

    def push(st):
        steps.append(st)
        pure.apply(st)

    def parse_step():
        n = rng.choice((1, 2, 3, 5, 8, 13)) if rng.random() < 0.8 else rng.randint(14, 30)
        if rng.random() < 0.2:
            roots = []
            used = 0
            for _ in range(rng.randint(2, 3)):
                sub = c06.rand_doc(rng, max(1, n // 3), 'none')
                roots.append(sub)
            k = [0]

            def relabel(nd):
                nd[1] = [a for a in nd[1] if a[0] != 'id']
                if rng.random() < 0.8:
                    nd[1].append(['id', 'e%d' % k[0]])
                k[0] += 1
                for c in nd[4]:
                    relabel(c)
            for r in roots:
                relabel(r)
            return ['parsemulti', roots]
        return ['parse', c06.rand_doc(rng, n, 'unique')]

    push(parse_step())
    if rng.random() < 0.5:
        for q in doc_queries(rng, pure, rng.randint(1, 3), idx_attrs):
            push(q)
    if rng.random() < 0.3:
        push(parse_step())
        if rng.random() < 0.75:
            for q in doc_queries(rng, pure, rng.randint(2, 4), idx_attrs):
                push(q)
    rounds = rng.choice((1, 1, 2))
    for _ in range(rounds):
        moved = None
        nodes = list(p_iter(pure.root))
        if len(nodes) > 2 and rng.random() < 0.3:
            # a subtree is taken out and the same element objects are appended elsewhere; the containers are asked before
            # and after (an answer must come from where the elements are now)
            x = rng.choice(nodes[1:])
            inside = set(n['u'] for n in p_iter(x))
            targets = [n for n in nodes if n['u'] not in inside]
            v = rng.choice(targets)
            par = p_find(pure.root, x['u'])[1]
            xat = dict(map(tuple, x['attrs']))
            q = rng.choice((['tag', x['tag']], ['tag', x['tag']]) + ((['cls', x['classes'][0]],) if x['classes'] else ())
                           + ((['name', xat['name']],) if xat.get('name') else ()))
            moved = (par['u'], v['u'], q)
            if not pure.dirty:
                for r in (par['u'], v['u'], pure.root['u']):
                    push(['query', ['P', r], q, True])
            push(['remove', x['u']])
            push(['appendmoved', v['u'], p_to_c06(x), x['u']])
        for _ in range(rng.choice((0, 1, 2, 3, 4))):
            e = rand_edit(rng, pure, idx_attrs, fresh)
            if e is not None:
                push(e)
        for _ in range(rng.choice((0, 0, 1, 2))):
            r = rng.random()
            if r < 0.4:
                a = rng.choice(IDX_ATTRS)
                push(['addindex', a if rng.random() < 0.85 else a.upper()])
                if a not in idx_attrs:
                    idx_attrs.append(a)
            elif r < 0.7:
                a = rng.choice(idx_attrs) if idx_attrs and rng.random() < 0.8 else rng.choice(IDX_ATTRS)
                push(['rmindex', a])
                if a in idx_attrs:
                    idx_attrs.remove(a)
            elif r < 0.8:
                push(['disable'])
        r = rng.random()
        if r < 0.12 and len(list(p_iter(pure.root))) > 1:
            push(['setroot', rng.choice(list(p_iter(pure.root))[1:])['u']])
        elif pure.dirty or r < 0.8:
            push(['reindex'] + [rng.choice((None, None, True, False)) for _ in range(4)])
        if moved is not None and not pure.dirty:
            for r in moved[:2]:
                if p_find(pure.root, r) is not None:
                    push(['query', ['P', r], moved[2], True])
                    push(['query', ['P', r], moved[2], False])
        for q in doc_queries(rng, pure, rng.randint(2, 6), idx_attrs):
            push(q)
    return d


_CORPUS = {}


def corpus(n):
    if n not in _CORPUS:
        rng = random.Random(20260929)
        docs = []
        for i in range(n):
            size = (1, 2, 3, 4, 6, 9, 12, 16)[i % 8]
            docs.append(c06.rand_doc(rng, size, 'unique'))
        _CORPUS[n] = docs
    return _CORPUS[n]


ATTR_SETS = [[], ['title'], ['title', 'data-x']]


class Check(PropCheck):
    id = 'C07'
    stream = 'C07'
    exhaustive_in = ('quick', 'thorough')
    rule = ('IndexedAdvancedHTMLParser histories: constructor flags x attribute indexes x (parse, [queries], [parse again, possibly '
            'multi-root], [edits: set/remove id, name, class, attribute; append/remove subtrees; a removed subtree appended elsewhere as '
            'the same objects, its old and new container asked before and after], [addIndexOnAttribute / '
            'removeIndexOnAttribute / disableIndexing], reindex(with or without new flags) | setRoot, queries)*; queries '
            '(getElementsByTagName/ByName/ByClassName (1-4 names)/ByAttr/WithAttrValues, getElementById) over the document\'s '
            'vocabulary plus absent values, from the root and with root=<sub-element>, useIndex on/off. Exhaustive: all 16 flag '
            'combinations x 3 attribute-index sets on a fixed corpus of 20 (quick) / 200 (thorough) documents; random: histories of '
            'up to ~25 steps on documents of 1-30 elements. Non-trivial: some query takes the index path and has a non-empty '
            'answer; distinct by canonical JSON')
    assumptions = ['ids are unique and searched values non-empty (as the property says); queries are issued only when the index '
                   'has been rebuilt (parse / reindex / setRoot) after the last edit or addIndexOnAttribute',
                   'for getElementsWithAttrValues answered from an attribute index the order is not compared (the property '
                   'requires the same set)']

    def __init__(self):
        self._cache = {}

    # ---- generation -------------------------------------------------------------------------
    def cases(self, tier, rng):
        docs = corpus(200 if tier == 'thorough' else 20)
        qrng = random.Random(7)
        for di, doc in enumerate(docs):
            base = {'cfg': [True] * 4, 'attrs': ['title', 'data-x'], 'steps': [['parse', doc]]}
            pure = Pure(base)
            pure.apply(base['steps'][0])
            qs = doc_queries(qrng, pure, 14, ['title', 'data-x'])
            for cfg in itertools.product((True, False), repeat=4):
                for attrs in ATTR_SETS:
                    yield Case({'cfg': list(cfg), 'attrs': list(attrs), 'steps': [['parse', doc]] + qs}, 'exhaustive-config')
        n = 12000 if tier == 'thorough' else 2000
        for _ in range(n):
            yield Case(gen_history(rng, tier=tier), 'random')

    # ---- bookkeeping --------------------------------------------------------------------------
    def index_path(self, state, op):
        """Would this query be answered from an index (per the documented switches)?"""
        k = op[0]
        if k == 'tag':
            return state['flags'][3]
        if k == 'name':
            return state['flags'][1]
        if k == 'id':
            return state['flags'][0]
        if k == 'cls':
            return state['flags'][2]
        return op[1] in state['attrs']

    def features(self, d):
        fs = set()
        fs.add('flags:' + ''.join('1' if b else '0' for b in d['cfg']))
        fs.add('attr-indexes:%d' % len(d['attrs']))
        flags = list(d['cfg'])
        attrs = [a.lower() for a in d['attrs']]
        nparse = 0
        for st in d['steps']:
            k = st[0]
            fs.add('step:' + k)
            if k in ('parse', 'parsemulti'):
                nparse += 1
                if nparse > 1:
                    fs.add('parse-again')

                def rep(n):
                    return len(set(n[2])) < len(n[2]) or any(rep(c) for c in n[4])
                if any(rep(r) for r in (st[1] if k == 'parsemulti' else [st[1]])):
                    fs.add('doc-repeated-class-name')
            elif k == 'addindex':
                if st[1].lower() not in attrs:
                    attrs.append(st[1].lower())
            elif k == 'rmindex':
                if st[1].lower() in attrs:
                    attrs.remove(st[1].lower())
            elif k == 'disable':
                flags = [False] * 4
            elif k == 'reindex':
                if st[1] is not None:
                    flags[0] = st[1]
                    fs.add('reindex-switch-ids')
                if st[2] is not None:
                    flags[1] = st[2]
                    fs.add('reindex-switch-names')
                if st[3] is not None or st[4] is not None:
                    fs.add('reindex-switch-class-or-tag(no effect)')
            elif k in ('setattr', 'delattr'):
                fs.add('edit:%s:%s' % (k, st[2] if st[2] in ('id', 'name') else 'other'))
            elif k == 'query':
                op = st[2]
                path = st[3] and self.index_path({'flags': flags, 'attrs': attrs}, op)
                fs.add('query:%s:%s' % (op[0], 'index' if path else 'scan'))
                fs.add('query-root:' + ('default' if len(st[1]) == 1 else 'element'))
                fs.add('useIndex:%s' % bool(st[3]))
                if op[0] == 'cls':
                    fs.add('cls-names:%d' % len([w for w in op[1].split(' ') if w]))
                if nparse > 1:
                    fs.add('query-after-second-parse')
        fs.add('steps:' + ('1-5' if len(d['steps']) <= 5 else '6-12' if len(d['steps']) <= 12 else '13-20' if len(d['steps']) <= 20 else '21+'))
        return sorted(fs)

    def nontrivial(self, d):
        flags = list(d['cfg'])
        attrs = [a.lower() for a in d['attrs']]
        return any(st[0] == 'query' for st in d['steps']) and (any(flags) or bool(attrs))

    def shrink(self, d):
        steps = d['steps']
        for i in range(len(steps) - 1, -1, -1):
            cand = {'cfg': d['cfg'], 'attrs': d['attrs'], 'steps': steps[:i] + steps[i + 1:]}
            if cand['steps'] and valid(cand):
                yield cand
        for i in range(len(d['attrs'])):
            cand = {'cfg': d['cfg'], 'attrs': d['attrs'][:i] + d['attrs'][i + 1:], 'steps': steps}
            yield cand
        for i in range(4):
            if not d['cfg'][i]:
                continue
            cfg = list(d['cfg'])
            cfg[i] = False
            yield {'cfg': cfg, 'attrs': d['attrs'], 'steps': steps}
        # shrink the parsed documents: drop a subtree that no later step refers to
        for si, st in enumerate(steps):
            if st[0] != 'parse':
                continue
            if any(s[0] != 'query' and s[0] not in ('reindex', 'disable', 'addindex', 'rmindex') for s in steps[si + 1:]):
                continue
            if any(s[0] == 'query' and len(s[1]) > 1 for s in steps[si + 1:]):
                continue
            if si != 0:
                continue
            doc = st[1]
            flat = c06.Flat(doc)
            for i in range(flat.n - 1, 0, -1):
                lo, hi = i, flat.E[i]['end']
                cnt = [0]

                def cut(n):
                    cnt[0] += 1
                    kids = []
                    for k in n[4]:
                        if cnt[0] == lo:
                            cnt[0] = hi
                            continue
                        kids.append(cut(k))
                    return [n[0], n[1], n[2], n[3], kids]
                yield {'cfg': d['cfg'], 'attrs': d['attrs'], 'steps': steps[:si] + [['parse', cut(doc)]] + steps[si + 1:]}

    # ---- both sides --------------------------------------------------------------------------
    def encode(self, d):
        counter = [0]
        out = []
        for st in d['steps']:
            out.append(enc_step(st, counter))
            if COMPARE_MAPS and st[0] in MAPS_AFTER:
                out.append(['maps'])
        return sx(list(d['cfg']), [enc(a) for a in d['attrs']], out)

    def impl(self, d):
        R = Run(d)
        out = []
        for st in d['steps']:
            if st[0] == 'query':
                plain = R.AHP.AdvancedHTMLParser()
                plain.setRoot(R.parser.getRoot())
                a_idx = R.answer(R.parser, st[1], st[2], {'useIndex': bool(st[3])})
                a_plain = R.answer(plain, st[1], st[2], None)
                out.append(['q', a_idx, a_plain])
                continue
            try:
                R.apply(st)
            except Exception as e:
                out.append(['err'])
                continue
            out.append('ok')
            if COMPARE_MAPS and st[0] in MAPS_AFTER:
                out.append(R.maps())
        return sx(*out)

    def compare(self, model_out, impl_out, data):
        if model_out == impl_out:
            return None
        # getElementsWithAttrValues: the property asks for the same set, not the same order (an answer taken from an
        # attribute index is grouped by value) — compare those answers as sets
        try:
            m, i = parse_sx(model_out), parse_sx(impl_out)
            if not COMPARE_MAPS and len(m) == len(i) == len(data['steps']):
                for k, st in enumerate(data['steps']):
                    if st[0] == 'query' and st[2][0] == 'vals':
                        for side in (m, i):
                            a = side[k]
                            if isinstance(a, list) and len(a) == 3 and isinstance(a[1], list) and a[1][:1] == ['ok']:
                                a[1] = ['ok'] + sorted(a[1][1:], key=int)
                if m == i:
                    return None
        except Exception:
            pass
        return 'model=%s impl=%s' % (_first_diff(model_out, impl_out), '')

    # ---- the property itself on the library ---------------------------------------------------
    def oracle(self, d):
        if not valid(d):
            return None                       # outside the histories the property speaks about
        R = Run(d)
        pure = Pure(d)
        for n, st in enumerate(d['steps']):
            pure.apply(st)
            if st[0] != 'query':
                try:
                    R.apply(st)
                except Exception as e:
                    return ('raises', 'step %d %r raised %s: %s' % (n, st[:2], type(e).__name__, e))
                continue
            recv, op, use = st[1], st[2], st[3]
            plain = R.AHP.AdvancedHTMLParser()
            plain.setRoot(R.parser.getRoot())
            a_idx = R.answer(R.parser, recv, op, {'useIndex': bool(use)})
            a_off = R.answer(R.parser, recv, op, {'useIndex': False})
            a_plain = R.answer(plain, recv, op, None)
            exp = pure.expected(recv, op)
            if op[0] == 'vals':
                canon = lambda a: [a[0]] + sorted(a[1:]) if a and a[0] == 'ok' else a
                if a_idx and a_idx[0] == 'ok' and len(set(a_idx[1:])) != len(a_idx) - 1:
                    return ('duplicates', 'step %d %r: %r' % (n, st, a_idx))
            else:
                canon = lambda a: a
            if canon(a_idx) != canon(a_off):
                return (op[0], 'step %d %r: useIndex=%r answers %r, useIndex=False answers %r' % (n, st, bool(use), a_idx, a_off))
            if canon(a_idx) != canon(a_plain):
                return (op[0], 'step %d %r: indexed parser answers %r, plain parser %r' % (n, st, a_idx, a_plain))
            if exp is not None and canon(a_idx) != canon(exp):
                return (op[0], 'step %d %r: indexed parser answers %r, brute force over the document %r' % (n, st, a_idx, exp))
        return None


def _first_diff(a, b):
    i = 0
    while i < min(len(a), len(b)) and a[i] == b[i]:
        i += 1
    return '…%s  VS  …%s' % (a[max(0, i - 60): i + 120], b[max(0, i - 60): i + 120])
