"""
C06 — every search returns exactly the matching elements of its scope, once, in order.

Stream `C06`: one document and a battery of queries (receiver x entry point x arguments).  The model
(lean/AHP/Model/Search.lean) and the library answer every query; answers are lists of element indices
(pre-order creation index) in result order, `(one i)`/`(none)` for the single-result forms, `(raise)`.
The oracle recomputes every answer by brute force from the *case data* (independent pre-order, the
documented predicate, the documented scope) and compares it with the library.

case data:
  {'doc': node, 'queries': [[recv, op], ...]}
  node  = [tag, [[k, v]...], [class...], [text_before_children, text_after_children], [node...]]
  recv  = ['P'] | ['P', i] | ['E', i] | ['C', i...]
  op    = ['tag', q] | ['name', q] | ['id', q] | ['cls', q] | ['attr', a, v] | ['vals', a, [v...]]
        | ['custom', pred] | ['first', pred] | ['find', [[key, 'one', v] | [key, 'many', v...]...]]
        | ['filter', mode, [crit...], alias]
"""
import itertools

from ..core import PropCheck, Case, sx, enc

TAGS = ['div', 'span', 'p', 'b', 'ul', 'li']
CLASSES = ['a', 'b', 'c', 'd']
NAMES = ['n1', 'n2']
ATTRS = ['title', 'lang', 'data-x']
VALUES = ['1', '2', 'v w', 'Ab', 'ab', 'abc']
TEXTS = ['', '', 'hello', 'Hello World', 'ab', 'x y', 'AB']
ABSENT = 'zz'


# ------------------------------------------------------------------------------------------------
# the document as plain data

class Flat(object):
    """Independent pre-order of the case's document."""

    def __init__(self, node):
        self.E = []
        self._walk(node, None)
        self.n = len(self.E)

    def _walk(self, n, parent):
        i = len(self.E)
        d = {'i': i, 'tag': n[0], 'attrs': dict((k, v) for k, v in reversed(n[1])), 'classes': list(n[2]),
             'text': n[3][0] + n[3][1], 'parent': parent, 'kids': []}
        self.E.append(d)
        for k in n[4]:
            d['kids'].append(self._walk(k, i))
        d['end'] = len(self.E)
        return i

    def desc(self, i):
        return range(i + 1, self.E[i]['end'])

    def self_and_desc(self, i):
        return range(i, self.E[i]['end'])


WRAPPER = 'xxxblank'      # INVISIBLE_ROOT_TAG: a document with several roots is a tree under this element


def render(n):
    tag, attrs, classes, (pre, post), kids = n
    if tag == WRAPPER:
        return ''.join(render(k) for k in kids)
    parts = ['%s="%s"' % (k, v) for k, v in attrs]
    if classes:
        parts.append('class="%s"' % ' '.join(classes))
    return '<%s%s>%s%s%s</%s>' % (tag, ''.join(' ' + p for p in parts), pre, ''.join(render(k) for k in kids), post, tag)


def enc_node(n, counter):
    i = counter[0]
    counter[0] += 1
    tag, attrs, classes, (pre, post), kids = n
    return [i, enc(tag), [[enc(k), enc(v)] for k, v in attrs], [enc(c) for c in classes], enc(pre + post)] + \
        [enc_node(k, counter) for k in kids]


def enc_pred(p):
    if p[0] in ('true',):
        return ['true']
    if p[0] in ('hasattr', 'tagis', 'hascls', 'textsub'):
        return [p[0], enc(p[1])]
    if p[0] == 'not':
        return ['not', enc_pred(p[1])]
    return [p[0], enc_pred(p[1]), enc_pred(p[2])]


def enc_op(op):
    k = op[0]
    if k in ('tag', 'name', 'id', 'cls'):
        return [k, enc(op[1])]
    if k == 'attr':
        return [k, enc(op[1]), enc(op[2])]
    if k == 'vals':
        return [k, enc(op[1]), [enc(v) for v in op[2]]]
    if k in ('custom', 'first'):
        return [k, enc_pred(op[1])]
    if k == 'find':
        return [k, [[enc(a[0]), a[1]] + [enc(v) for v in a[2:]] for a in op[1]]]
    if k == 'filter':
        return [k, op[1]] + [[c[0], enc(c[1])] + [enc(v) for v in c[2:]] for c in op[2]]
    raise ValueError(op)


# ------------------------------------------------------------------------------------------------
# the library side

def py_pred(p):
    k = p[0]
    if k == 'true':
        return lambda em: True
    if k == 'hasattr':
        return lambda em: em.hasAttribute(p[1])
    if k == 'tagis':
        return lambda em: em.tagName == p[1]
    if k == 'hascls':
        return lambda em: em.hasClass(p[1])
    if k == 'textsub':
        return lambda em: p[1] in em.text
    if k == 'not':
        f = py_pred(p[1])
        return lambda em: not f(em)
    f, g = py_pred(p[1]), py_pred(p[2])
    if k == 'and':
        return lambda em: f(em) and g(em)
    return lambda em: f(em) or g(em)


def assemble_plan(node):
    """One document in three (chosen by its text) is not parsed whole: -> (document without one subtree, path of the subtree's
    parent, position among the parent's element children, the subtree), or None."""
    import zlib
    if node[0] == WRAPPER or not node[4]:
        return None
    h = zlib.crc32(render(node).encode('utf-8', 'replace'))
    if h % 3 != 0:
        return None
    spots = []

    def walk(n, path):
        for j, k in enumerate(n[4]):
            spots.append((path, j))
            walk(k, path + [j])
    walk(node, [])
    path, j = spots[(h // 3) % len(spots)]

    def cut(n, p):
        tag, attrs, classes, texts, kids = n
        if not p:
            return [tag, attrs, classes, texts, kids[:j] + kids[j + 1:]], kids[j]
        new, x = cut(kids[p[0]], p[1:])
        return [tag, attrs, classes, texts, kids[:p[0]] + [new] + kids[p[0] + 1:]], x
    without, x = cut(node, path)
    return without, path, j, x


class Built(object):
    """The document parsed by the real library; element <-> pre-order index."""

    def __init__(self, node, parser_cls=None, **kw):
        import AdvancedHTMLParser as AHP
        self.AHP = AHP
        self.parser = (parser_cls or AHP.AdvancedHTMLParser)(**kw)
        html = render(node)
        # the parser object has a history: it held the same text before (other element objects with the same ids, names,
        # classes) and was searched; what it answers now must come from the document it holds now
        self.parser.parseStr(html)
        old = self.parser.getRoot()
        if old is not None:
            for e in [old] + list(old.getAllChildNodes())[:40]:
                i = e.getAttribute('id')
                if i:
                    self.parser.getElementById(i)
            self.parser.getElementsByTagName(old.tagName)
        plan = assemble_plan(node) if parser_cls is None else None
        if plan is None:
            self.parser.parseStr(html)
        else:
            # the document is reached by an edit: parsed without one subtree, searched (whatever a search may remember is
            # now about the smaller document), then the subtree is inserted through the DOM API at its place
            without, path, j, xnode = plan
            self.parser.parseStr(render(without))
            parent = self.parser.getRoot()
            for k in path:
                parent = parent.children[k]
            try:
                self.parser.getAllNodes()
                self.parser.filter(tagname=xnode[0])
                self.parser.filterOr(tagname=xnode[0], id='nosuch')
                self.parser.find(tagname=xnode[0])
                self.parser.getElementsByTagName(xnode[0])
                for c in xnode[2][:2]:
                    self.parser.getElementsByClassName(c)
                for k, v in xnode[1][:2]:
                    self.parser.getElementsByAttr(k, v)
                parent.getAllChildNodes()
                parent.getElementsByTagName(xnode[0])
            except Exception:
                pass
            x = AHP.AdvancedHTMLParser.createElementFromHTML(render(xnode))
            kids = list(parent.children)
            if j < len(kids):
                parent.insertBefore(x, kids[j])
            elif kids:
                parent.insertAfter(x, kids[-1])
            else:
                parent.appendChild(x)
        self.assembled = plan is not None
        self.els = []
        self._walk(self.parser.getRoot())
        self.idx = {e.uid: i for i, e in enumerate(self.els)}
        # collections handed out are the caller's: emptying them changes no later answer
        for e in self.els[:12]:
            c = e.getAllChildNodes()
            for x in list(c):
                c.remove(x)
        for c in (self.parser.getAllNodes(), self.parser.getRootNodes()):
            if isinstance(c, list):
                del c[:]

    def _walk(self, e):
        self.els.append(e)
        for c in e.children:
            self._walk(c)

    def check_shape(self, flat):
        if len(self.els) != flat.n:
            return False
        return all(e.tagName == d['tag'] for e, d in zip(self.els, flat.E))

    def ids(self, coll):
        return [self.idx.get(e.uid, -1) for e in coll]


FILTER_METHODS = {
    # (receiver kind, mode, alias) -> method name
    ('P', 'and', False): 'filter', ('P', 'and', True): 'filterAnd', ('P', 'or', False): 'filterOr', ('P', 'or', True): 'filterOr',
    ('E', 'and', False): 'filter', ('E', 'and', True): 'filterAnd', ('E', 'or', False): 'filterOr', ('E', 'or', True): 'filterOr',
    ('C', 'and', False): 'filter', ('C', 'and', True): 'filterAnd', ('C', 'or', False): 'filterOr', ('C', 'or', True): 'filterOr',
    ('C', 'alland', False): 'filterAll', ('C', 'alland', True): 'filterAllAnd',
    ('C', 'allor', False): 'filterAllOr', ('C', 'allor', True): 'filterAllOr',
}


def crit_kwargs(crits):
    kw = {}
    for c in crits:
        op, f = c[0], c[1]
        if op == 'eq':
            kw[f] = c[2]
        elif op == 'in':
            kw[f + '__in'] = list(c[2:])
        else:
            kw[f + '__' + op] = c[2]
    return kw


def find_kwargs(args):
    kw = {}
    for a in args:
        if a[1] == 'one':
            kw[a[0]] = a[2]
        else:
            vs = list(a[2:])
            kw[a[0]] = tuple(vs) if len(vs) % 2 else vs
    return kw


def is_na(recv, op):
    k = op[0]
    if k == 'first' and recv[0] == 'C':
        return True
    if k in ('find', 'filter') and recv[0] == 'P' and len(recv) > 1:
        return True                              # no root= argument on these
    if k == 'find' and recv != ['P']:
        return True
    if k == 'filter' and op[1] in ('alland', 'allor') and recv[0] != 'C':
        return True
    return False


def run_query(B, recv, op, extra=None):
    """One query on the library -> canonical answer (python list).  `extra`: keyword arguments added to
    parser-level getElement* calls (C07 passes useIndex)."""
    if is_na(recv, op):
        return ['na']
    k = op[0]
    rk = recv[0]
    kw = {}
    if rk == 'P':
        target = B.parser
        if len(recv) > 1:
            kw['root'] = B.els[recv[1]]
        if extra and k not in ('custom', 'first', 'find', 'filter'):
            kw.update(extra)
    elif rk == 'E':
        target = B.els[recv[1]]
    else:
        target = B.AHP.Tags.TagCollection([B.els[i] for i in recv[1:]])
    try:
        if k == 'tag':
            r = target.getElementsByTagName(op[1], **kw)
        elif k == 'name':
            r = target.getElementsByName(op[1], **kw)
        elif k == 'id':
            r = target.getElementById(op[1], **kw)
            return ['none'] if r is None else ['one', B.idx.get(r.uid, -1)]
        elif k == 'cls':
            r = target.getElementsByClassName(op[1], **kw)
        elif k == 'attr':
            r = target.getElementsByAttr(op[1], op[2], **kw)
        elif k == 'vals':
            vs = op[2]
            # C07 (extra given): a list, so that an index-backed answer has a reproducible order
            r = target.getElementsWithAttrValues(op[1], set(vs) if (len(vs) % 2 and extra is None) else list(vs), **kw)
        elif k == 'custom':
            r = target.getElementsCustomFilter(py_pred(op[1]), **kw)
        elif k == 'first':
            r = target.getFirstElementCustomFilter(py_pred(op[1]), **kw)
            return ['none'] if r is None else ['one', B.idx.get(r.uid, -1)]
        elif k == 'find':
            r = target.find(**find_kwargs(op[1]))
        elif k == 'filter':
            m = FILTER_METHODS[(rk, op[1], bool(op[3]))]
            r = getattr(target, m)(**crit_kwargs(op[2]))
        else:
            raise ValueError(op)
    except Exception:
        return ['raise']
    if type(r) is not B.AHP.Tags.TagCollection:
        return ['not-a-collection', type(r).__name__]
    ids = B.ids(r)
    if sorted(B.idx.get(u, -1) for u in r.uids) != sorted(ids):
        return ['uids-differ'] + ids
    for x in list(r):           # the answer is the caller's collection: emptying it changes no later answer
        r.remove(x)
    return ['ok'] + ids


# ------------------------------------------------------------------------------------------------
# the property evaluated on plain data

def ref_pred(p, d):
    k = p[0]
    if k == 'true':
        return True
    if k == 'hasattr':
        return p[1] in d['attrs']
    if k == 'tagis':
        return d['tag'] == p[1]
    if k == 'hascls':
        return p[1] in d['classes']
    if k == 'textsub':
        return p[1] in d['text']
    if k == 'not':
        return not ref_pred(p[1], d)
    if k == 'and':
        return ref_pred(p[1], d) and ref_pred(p[2], d)
    return ref_pred(p[1], d) or ref_pred(p[2], d)


def ref_field(d, f):
    f = f.lower()
    if f == 'tagname':
        return d['tag']
    if f == 'text':
        return d['text']
    return d['attrs'].get(f)


def ref_crit(c, d):
    op, v = c[0], ref_field(d, c[1])
    if op == 'eq':
        return v == c[2]
    if op == 'ne':
        return v != c[2]
    if op == 'contains':
        return v is not None and c[2] in v
    if op == 'icontains':
        return v is not None and c[2].lower() in v.lower()
    if op == 'in':
        return v in c[2:]
    raise ValueError(c)


def ref_find_arg(a, d):
    key = a[0].lower()
    mode = 'eq'
    if key.endswith('__icontains'):
        key, mode = key[:-len('__icontains')], 'icontains'
    elif key.endswith('__contains'):
        key, mode = key[:-len('__contains')], 'contains'
    if key == 'tagname':
        have = d['tag']
    elif key == 'text':
        have = d['text']
    else:
        have = d['attrs'].get(key, '')
    vals = list(a[2:])
    if mode == 'eq':
        return have in vals
    if mode == 'icontains':
        return any(v.lower() in have.lower() for v in vals)
    return any(v in have for v in vals)


def expected(flat, recv, op):
    """The answer the property demands, or None when the property does not say (skipped)."""
    if is_na(recv, op):
        return ['na']
    k = op[0]
    rk = recv[0]
    E = flat.E
    # scope
    if rk == 'P':
        scope = list(range(flat.n)) if (len(recv) == 1 or recv[1] == 0) else list(flat.desc(recv[1]))
    elif rk == 'E':
        scope = list(flat.desc(recv[1]))
        if k == 'filter':
            scope = list(flat.self_and_desc(recv[1]))
    else:
        scope = []
        if k == 'filter' and op[1] in ('and', 'or'):
            members = recv[1:]
        else:
            members = itertools.chain.from_iterable(flat.self_and_desc(m) for m in recv[1:])
        seen = set()
        for i in members:
            if i not in seen:
                seen.add(i)
                scope.append(i)
    # predicate
    if k == 'tag':
        f = lambda d: d['tag'] == op[1]
    elif k == 'name':
        f = lambda d: d['attrs'].get('name') == op[1]
    elif k == 'id':
        if sum(1 for d in E if d['attrs'].get('id') == op[1]) > 1:
            return None                       # the property assumes unique ids for getElementById
        f = lambda d: d['attrs'].get('id') == op[1]
    elif k == 'cls':
        words = [w for w in op[1].split(' ') if w]
        if not words:
            return None
        f = lambda d: all(w in d['classes'] for w in words)
    elif k == 'attr':
        f = lambda d: d['attrs'].get(op[1]) == op[2]
    elif k == 'vals':
        f = lambda d: d['attrs'].get(op[1]) in op[2]
    elif k in ('custom', 'first'):
        f = lambda d: ref_pred(op[1], d)
    elif k == 'find':
        if any(a[0].lower() in ('tagname__contains', 'tagname__icontains') for a in op[1]):
            return None                       # documented as unsupported (ValueError)
        if not op[1]:
            return ['ok']
        f = lambda d: all(ref_find_arg(a, d) for a in op[1])
    elif k == 'filter':
        if op[1] in ('and', 'alland'):
            f = lambda d: all(ref_crit(c, d) for c in op[2])
        else:
            f = lambda d: any(ref_crit(c, d) for c in op[2])
    else:
        raise ValueError(op)
    if rk == 'P' and E[0]['tag'] == WRAPPER and scope and scope[0] == 0:
        # several roots: getAllNodes / getRootNodes skip the invisible wrapper (filter*); for the getElements* forms
        # the property does not say whether the invisible element counts — skipped when it would match
        if k == 'filter':
            scope = scope[1:]
        elif f(E[0]):
            return None
    hits = [i for i in scope if f(E[i])]
    if k in ('id', 'first'):
        return ['one', hits[0]] if hits else ['none']
    return ['ok'] + hits


# ------------------------------------------------------------------------------------------------
# generators

def rand_node(rng, ids_mode, counter, voc):
    i = counter[0]
    counter[0] += 1
    tag = rng.choice(voc['tags'])
    attrs = []
    r = rng.random()
    if ids_mode == 'unique':
        if r < 0.8:
            attrs.append(['id', 'e%d' % i])
    elif r < 0.7:
        attrs.append(['id', rng.choice(['x', 'y', 'z'])])
    if rng.random() < 0.4:
        attrs.append(['name', rng.choice(NAMES)])
    for a in ATTRS:
        if rng.random() < 0.35:
            attrs.append([a, rng.choice(VALUES)])
    rng.shuffle(attrs)
    k = rng.choice((0, 0, 1, 1, 2, 2, 3, 4))
    classes = rng.sample(voc['classes'], min(k, len(voc['classes'])))
    # repeated class names (`class="a b a"`): `_classNames` keeps every occurrence, the class index lists the element
    # once per occurrence, the searches must still return it once
    if classes and rng.random() < 0.2:
        for _ in range(rng.choice((1, 1, 2))):
            classes.insert(rng.randrange(len(classes) + 1), rng.choice(classes))
    pre = rng.choice(TEXTS)
    post = rng.choice(TEXTS) if rng.random() < 0.3 else ''
    return [tag, attrs, classes, [pre, post], []]


def rand_doc(rng, n, ids_mode='unique', voc=None):
    voc = voc or {'tags': TAGS, 'classes': CLASSES}
    counter = [0]
    nodes = [rand_node(rng, ids_mode, counter, voc) for _ in range(n)]
    # parent of i is an earlier node, biased to recent ones so that trees get deep; children keep index order
    deep = rng.random() < 0.5
    for i in range(1, n):
        if deep and rng.random() < 0.6:
            p = rng.randrange(max(0, i - 3), i)
        else:
            p = rng.randrange(i)
        nodes[p][4].append(nodes[i])
    return nodes[0]


def rand_pred(rng, depth=0):
    r = rng.random()
    if depth < 2 and r < 0.3:
        k = rng.choice(('not', 'and', 'or'))
        if k == 'not':
            return ['not', rand_pred(rng, depth + 1)]
        return [k, rand_pred(rng, depth + 1), rand_pred(rng, depth + 1)]
    k = rng.choice(('true', 'hasattr', 'tagis', 'hascls', 'textsub'))
    if k == 'true':
        return ['true']
    if k == 'hasattr':
        return [k, rng.choice(ATTRS + ['id', 'name', ABSENT])]
    if k == 'tagis':
        return [k, rng.choice(TAGS)]
    if k == 'hascls':
        return [k, rng.choice(CLASSES)]
    return [k, rng.choice(['l', 'o W', 'ab', 'AB', 'q'])]


def rand_class_query(rng):
    k = rng.choice((1, 1, 2, 2, 3, 4))
    names = [rng.choice(CLASSES + [ABSENT] if rng.random() < 0.15 else CLASSES) for _ in range(k)]
    if k > 1 and rng.random() < 0.3:
        names[rng.randrange(k)] = names[0]          # repeated name
    sep = rng.choice((' ', ' ', ' ', '  '))
    q = sep.join(names)
    r = rng.random()
    if r < 0.1:
        q = ' ' + q
    elif r < 0.2:
        q = q + ' '
    elif r < 0.25:
        q = '  ' + q + ' '
    return q


def rand_field(rng):
    f = rng.choice(ATTRS + ['id', 'name', 'tagname', 'text', ABSENT])
    if rng.random() < 0.15:
        f = {'tagname': 'tagName', 'text': 'TEXT'}.get(f, f.upper())
    return f


def doc_values(flat, f):
    f = f.lower()
    if flat is None:
        return []
    if f == 'tagname':
        return [d['tag'] for d in flat.E]
    if f == 'text':
        return [d['text'] for d in flat.E if d['text']]
    return [d['attrs'][f] for d in flat.E if f in d['attrs']]


def rand_value_for(rng, f, flat=None):
    have = doc_values(flat, f)
    if have and rng.random() < 0.65:
        v = rng.choice(have)
        if rng.random() < 0.1:
            v = v.swapcase()
        return v
    f = f.lower()
    if f == 'tagname':
        return rng.choice(TAGS)
    if f == 'text':
        return rng.choice([t for t in TEXTS if t] + ['nope'])
    if f == 'id':
        return rng.choice(['x', 'y', 'e1', 'e2', 'e5'])
    if f == 'name':
        return rng.choice(NAMES + [ABSENT])
    return rng.choice(VALUES + [ABSENT])


def rand_sub_for(rng, f, flat=None):
    have = doc_values(flat, f)
    if have and rng.random() < 0.75:
        v = rng.choice(have)
        i = rng.randrange(len(v))
        j = rng.randint(i + 1, len(v))
        v = v[i:j]
        r = rng.random()
        if r < 0.3:
            v = v.swapcase()
        elif r < 0.4:
            v = v.upper()
        return v
    f = f.lower()
    if f == 'text':
        return rng.choice(['l', 'o W', 'ab', 'AB', 'hello', 'H', 'q'])
    if f == 'tagname':
        return rng.choice(['i', 'p', 'DIV'])
    return rng.choice(['a', 'b', 'A', '1', 'v', ' ', 'q', 'e', 'n'])


def rand_crit(rng, used, flat=None):
    for _ in range(10):
        f = rand_field(rng)
        op = rng.choice(('eq', 'eq', 'ne', 'contains', 'icontains', 'in'))
        if (f, op) in used:
            continue
        used.add((f, op))
        if op in ('eq', 'ne'):
            return [op, f, rand_value_for(rng, f, flat)]
        if op in ('contains', 'icontains'):
            return [op, f, rand_sub_for(rng, f, flat)]
        return [op, f] + [rand_value_for(rng, f, flat) for _ in range(rng.randint(0, 3))]
    return ['eq', 'tagname', 'div']


def rand_find_arg(rng, used, flat=None):
    for _ in range(10):
        f = rng.choice(ATTRS + ['id', 'name', 'tagname', 'text', ABSENT])
        mode = rng.choice(('', '', '__contains', '__icontains'))
        if f == 'tagname' and mode and rng.random() < 0.9:
            continue
        key = f + mode
        if rng.random() < 0.15:
            key = key.upper() if rng.random() < 0.5 else key.title()
        if key.lower() in used:
            continue
        used.add(key.lower())
        many = rng.random() < 0.45
        gen = rand_sub_for if mode else rand_value_for
        if many:
            return [key, 'many'] + [gen(rng, f, flat) for _ in range(rng.randint(0, 3))]
        return [key, 'one', gen(rng, f, flat)]
    return ['tagname', 'one', 'div']


def rand_recv(rng, n):
    r = rng.random()
    if r < 0.22:
        return ['P']
    if r < 0.34:
        return ['P', rng.randrange(n)]
    if r < 0.62:
        return ['E', rng.randrange(n)]
    k = rng.choice((1, 1, 2, 3, 4))
    ms = []
    for _ in range(k):
        m = rng.randrange(n)
        if m not in ms:
            ms.append(m)
    if rng.random() < 0.1:
        ms = []
    return ['C'] + ms


def rand_op(rng, recv, flat):
    k = rng.choice(('tag', 'name', 'id', 'cls', 'cls', 'attr', 'vals', 'custom', 'first', 'find', 'find', 'filter', 'filter'))
    if is_na(recv, [k, 'alland'] if k == 'filter' else [k]) and k != 'filter':
        k = rng.choice(('tag', 'cls', 'attr', 'custom'))
    if k == 'tag':
        return ['tag', rng.choice(TAGS + [ABSENT])]
    if k == 'name':
        return ['name', rng.choice(NAMES + [ABSENT])]
    if k == 'id':
        d = flat.E[rng.randrange(flat.n)]
        return ['id', d['attrs'].get('id', 'e3') if rng.random() < 0.8 else ABSENT]
    if k == 'cls':
        return ['cls', rand_class_query(rng)]
    if k == 'attr':
        a = rng.choice(ATTRS + ['id', 'name', ABSENT])
        return ['attr', a, rand_value_for(rng, a, flat)]
    if k == 'vals':
        a = rng.choice(ATTRS + ['id', 'name'])
        return ['vals', a, [rand_value_for(rng, a, flat) for _ in range(rng.randint(0, 3))]]
    if k in ('custom', 'first'):
        return [k, rand_pred(rng)]
    if k == 'find':
        used = set()
        return ['find', [rand_find_arg(rng, used, flat) for _ in range(rng.choice((0, 1, 1, 1, 2, 2, 3)))]]
    used = set()
    modes = ('and', 'or', 'alland', 'allor') if recv[0] == 'C' else ('and', 'or')
    return ['filter', rng.choice(modes), [rand_crit(rng, used, flat) for _ in range(rng.choice((0, 1, 1, 2, 2, 3)))], rng.random() < 0.5]


TIGHT = ['a', 'ab', 'abc', 'AB', 'b', 'bA']


def tight_doc(rng, n):
    """Small documents whose values are dense in substring / case / equality relations."""
    nodes = []
    for i in range(n):
        attrs = []
        for a in ('id', 'name', 'title', 'lang'):
            if rng.random() < 0.6:
                attrs.append([a, rng.choice(TIGHT)])
        rng.shuffle(attrs)
        classes = rng.sample(['a', 'b', 'ab'], rng.choice((0, 1, 2, 3)))
        if classes and rng.random() < 0.2:
            classes.insert(rng.randrange(len(classes) + 1), rng.choice(classes))
        text = [rng.choice(TIGHT + ['']), rng.choice(TIGHT + ['']) if rng.random() < 0.3 else '']
        nodes.append([rng.choice(('div', 'span', 'b')), attrs, classes, text, []])
    for i in range(1, n):
        nodes[rng.randrange(i)][4].append(nodes[i])
    return nodes[0]


def tight_queries(rng, flat, k):
    out = []
    pick = lambda: rng.choice(TIGHT)
    some = lambda: [pick() for _ in range(rng.randint(0, 3))]
    for _ in range(k):
        recv = rand_recv(rng, flat.n)
        a = rng.choice(('id', 'name', 'title', 'lang'))
        kind = rng.choice(('attr', 'vals', 'name', 'id', 'cls', 'find', 'find', 'find', 'filter', 'filter', 'filter', 'custom', 'first'))
        if kind == 'attr':
            op = ['attr', a, pick()]
        elif kind == 'vals':
            op = ['vals', a, some()]
        elif kind in ('name', 'id'):
            op = [kind, pick()]
        elif kind == 'cls':
            op = ['cls', ' '.join(rng.choice(('a', 'b', 'ab')) for _ in range(rng.choice((1, 2, 3))))]
        elif kind in ('custom', 'first'):
            op = [kind, rng.choice((['textsub', pick()], ['hascls', rng.choice(('a', 'b', 'ab'))], ['hasattr', a],
                                    ['and', ['hasattr', a], ['not', ['textsub', pick()]]]))]
        elif kind == 'find':
            recv = ['P']
            args, used = [], set()
            for _ in range(rng.choice((1, 1, 2))):
                f = rng.choice(('id', 'name', 'title', 'lang', 'text', 'tagname'))
                mode = rng.choice(('', '__contains', '__icontains')) if f != 'tagname' else ''
                if f + mode in used:
                    continue
                used.add(f + mode)
                if f == 'tagname':
                    args.append([f, 'one', rng.choice(('div', 'span'))] if rng.random() < 0.5 else [f, 'many', 'div', 'b'])
                elif rng.random() < 0.5:
                    args.append([f + mode, 'one', pick()])
                else:
                    args.append([f + mode, 'many'] + some())
            op = ['find', args]
        else:
            crits, used = [], set()
            for _ in range(rng.choice((1, 1, 2))):
                f = rng.choice(('id', 'name', 'title', 'lang', 'text'))
                o = rng.choice(('eq', 'ne', 'contains', 'icontains', 'in'))
                if (f, o) in used:
                    continue
                used.add((f, o))
                crits.append([o, f] + (some() if o == 'in' else [pick()]))
            modes = ('and', 'or', 'alland', 'allor') if recv[0] == 'C' else ('and', 'or')
            if recv[0] == 'P':
                recv = ['P']
            op = ['filter', rng.choice(modes), crits, rng.random() < 0.5]
        if not is_na(recv, op):
            out.append([recv, op])
    return out


def battery(flat):
    """The fixed query battery of the exhaustive part (2-name, 2-class alphabet)."""
    n = flat.n
    recvs = [['P']] + [['P', i] for i in range(n)] + [['E', i] for i in range(n)]
    recvs += [['C', i] for i in range(n)]
    if n > 1:
        recvs += [['C', 0, n - 1], ['C', n - 1, 0], ['C'] + list(range(n)), ['C'] + list(range(n - 1, -1, -1))]
    ops = [['tag', 'div'], ['tag', 'span'], ['tag', ABSENT],
           ['cls', 'a'], ['cls', 'b'], ['cls', 'a b'], ['cls', 'b a'], ['cls', 'a a b'], ['cls', 'a  b'], ['cls', ABSENT], ['cls', 'a ' + ABSENT],
           ['custom', ['true']], ['custom', ['hascls', 'b']], ['first', ['hascls', 'a']], ['first', ['tagis', 'span']],
           ['id', 'e%d' % (n - 1)], ['id', 'e0'],
           ['filter', 'and', [['eq', 'tagname', 'div']], False], ['filter', 'or', [['eq', 'tagname', 'span'], ['eq', 'id', 'e0']], False],
           ['filter', 'alland', [['eq', 'tagname', 'div']], True], ['filter', 'allor', [['ne', 'tagname', 'div']], False]]
    finds = [['find', [['tagname', 'one', 'div']]], ['find', [['tagname', 'many', 'div', 'span'], ['id__contains', 'one', 'e']]]]
    out = []
    for r in recvs:
        for o in ops:
            if not is_na(r, o):
                out.append([r, o])
    for o in finds:
        out.append([['P'], o])
    return out


def small_trees(n):
    """All ordered tree shapes with n nodes, as nested lists of children."""
    if n == 1:
        return [[]]
    out = []
    # a tree with n nodes = root + ordered forest with n-1 nodes
    for forest in forests(n - 1):
        out.append(forest)
    return out


def forests(n):
    if n == 0:
        return [[]]
    out = []
    for k in range(1, n + 1):
        for first in small_trees(k):
            for rest in forests(n - k):
                out.append([first] + rest)
    return out


LABELS = [(t, c) for t in ('div', 'span') for c in ([], ['a'], ['b'], ['a', 'b'])]


def label_tree(shape, labels, counter):
    i = counter[0]
    counter[0] += 1
    t, c = labels[i]
    return [t, [['id', 'e%d' % i]], list(c), ['', ''], [label_tree(k, labels, counter) for k in shape]]


def count_nodes(n):
    return 1 + sum(count_nodes(k) for k in n[4])


class Check(PropCheck):
    id = 'C06'
    stream = 'C06'
    exhaustive_in = ('quick', 'thorough')
    rule = ('one document x a battery of queries (receiver: parser / parser with root= / element / TagCollection; entry point: '
            'getElementsByTagName, ByName, ByClassName (1-4 names, repeats, extra spaces), ByAttr, WithAttrValues (0-3 values), '
            'CustomFilter, getElementById, getFirstElementCustomFilter, find (0-3 keys: tagname/text/attributes, scalar or list, '
            '__contains/__icontains), filter/filterAnd/filterOr/filterAll/filterAllAnd/filterAllOr (eq, ne, contains, icontains, in)). '
            'Exhaustive: every ordered tree of <= 3 (quick) / <= 4 (thorough) elements over 2 tag names x the subsets of 2 classes '
            'with a fixed battery on every receiver; random: documents of 1-80 elements with heavy reuse of ids, names, classes, '
            'values, text. One single-root document in three is not parsed whole: it is parsed without one subtree, searched, and the '
            'subtree is then inserted at its place through insertBefore / insertAfter / appendChild. Non-trivial: >= 2 elements and at least one query with a non-empty answer; distinct by canonical JSON')
    assumptions = ['attribute values are strings; the boolean attribute names, class and style are not queried as attributes',
                   'ASCII text and values (str.lower is modelled on ASCII)']

    def __init__(self):
        self._cache = {}

    # ---- generation -------------------------------------------------------------------------
    def cases(self, tier, rng):
        top = 4 if tier == 'thorough' else 3
        for n in range(1, top + 1):
            for shape in small_trees(n):
                for labels in itertools.product(LABELS, repeat=n):
                    doc = label_tree(shape, labels, [0])
                    yield Case({'doc': doc, 'queries': battery(Flat(doc))}, 'exhaustive')
        # a sample of the next size
        shapes = small_trees(top + 1)
        for _ in range(400 if tier == 'thorough' else 150):
            shape = rng.choice(shapes)
            labels = [rng.choice(LABELS) for _ in range(top + 1)]
            doc = label_tree(shape, labels, [0])
            yield Case({'doc': doc, 'queries': battery(Flat(doc))}, 'enumerated-sample')
        n = 6000 if tier == 'thorough' else 700
        for _ in range(n):
            yield Case(self.random_case(rng, tier), 'random')
        for _ in range(5000 if tier == 'thorough' else 600):
            doc = tight_doc(rng, rng.randint(2, 7))
            yield Case({'doc': doc, 'queries': tight_queries(rng, Flat(doc), 40)}, 'random-tight-vocabulary')

    def random_case(self, rng, tier='quick'):
        r = rng.random()
        if r < 0.45:
            size = rng.randint(1, 8)
        elif r < 0.85:
            size = rng.randint(9, 30)
        else:
            size = rng.randint(31, 80)
        ids_mode = 'unique' if rng.random() < 0.75 else 'reused'
        voc = {'tags': TAGS if rng.random() < 0.6 else TAGS[:2], 'classes': CLASSES if rng.random() < 0.6 else CLASSES[:2]}
        doc = rand_doc(rng, size, ids_mode, voc)
        if size >= 2 and rng.random() < 0.12:
            # several roots: the children of the generated root become the roots (text outside the roots dropped)
            doc = [WRAPPER, [], [], ['', ''], doc[4] if len(doc[4]) >= 2 else [doc, rand_doc(rng, rng.randint(1, 3), 'none', voc)]]
            if ids_mode == 'unique':
                k = [0]

                def relabel(n):
                    n[1] = [a for a in n[1] if a[0] != 'id']
                    if n[0] != WRAPPER and rng.random() < 0.8:
                        n[1].append(['id', 'e%d' % k[0]])
                    k[0] += 1
                    for c in n[4]:
                        relabel(c)
                relabel(doc)
        flat = Flat(doc)
        qs = []
        for _ in range(rng.randint(8, 24)):
            recv = rand_recv(rng, flat.n)
            qs.append([recv, rand_op(rng, recv, flat)])
        return {'doc': doc, 'queries': qs}

    # ---- bookkeeping --------------------------------------------------------------------------
    def _expect(self, d):
        key = id(d)
        hit = self._cache.get(key)
        if hit is not None and hit[0] is d:
            return hit[1], hit[2]
        flat = Flat(d['doc'])
        exp = [expected(flat, r, o) for r, o in d['queries']]
        if len(self._cache) > 4:
            self._cache.clear()
        self._cache[key] = (d, flat, exp)
        return flat, exp

    def nontrivial(self, d):
        flat, exp = self._expect(d)
        return flat.n >= 2 and any(e is not None and e[0] in ('ok', 'one') and len(e) > 1 for e in exp)

    def features(self, d):
        flat, exp = self._expect(d)
        fs = set()
        n = flat.n
        fs.add('size:' + ('1' if n == 1 else '2-5' if n <= 5 else '6-15' if n <= 15 else '16-40' if n <= 40 else '41-80'))
        depth = 0
        for e in flat.E:
            k, j = 0, e
            while j['parent'] is not None:
                j = flat.E[j['parent']]
                k += 1
            depth = max(depth, k)
        fs.add('depth:' + ('0-1' if depth <= 1 else '2-3' if depth <= 3 else '4+'))
        if flat.E[0]['tag'] == WRAPPER:
            fs.add('several-roots')
        if any(len(set(e['classes'])) < len(e['classes']) for e in flat.E):
            fs.add('doc-repeated-class-name')
        fs.add('document:' + ('reached-by-an-insertion-after-searches' if assemble_plan(d['doc']) is not None else 'parsed-whole'))
        for (r, o), e in zip(d['queries'], exp):
            rk = 'P-root=' if (r[0] == 'P' and len(r) > 1) else r[0]
            fs.add('recv:' + rk)
            fs.add('op:' + o[0] + (':' + o[1] if o[0] == 'filter' else ''))
            fs.add('recv-op:%s/%s' % (rk, o[0]))
            if r[0] == 'C':
                fs.add('coll-members:%d' % min(len(r) - 1, 3))
                ms = r[1:]
                if any(a != b and a in flat.self_and_desc(b) for a in ms for b in ms):
                    fs.add('coll-nested-members')
            if o[0] == 'cls':
                ws = [w for w in o[1].split(' ') if w]
                fs.add('cls-names:%d' % len(ws))
                if len(set(ws)) < len(ws):
                    fs.add('cls-repeated-name')
                if o[1] != ' '.join(ws):
                    fs.add('cls-extra-spaces')
            if o[0] == 'vals':
                fs.add('vals:%d' % len(o[2]))
            if o[0] == 'find':
                fs.add('find-keys:%d' % len(o[1]))
                for a in o[1]:
                    lk = a[0].lower()
                    fs.add('find:' + ('icontains' if lk.endswith('__icontains') else 'contains' if lk.endswith('__contains') else 'eq')
                           + ('-list' if a[1] == 'many' else ''))
                    if lk.split('__')[0] in ('tagname', 'text'):
                        fs.add('find-key:' + lk.split('__')[0])
            if o[0] == 'filter':
                for c in o[2]:
                    fs.add('crit:' + c[0])
            if e is None:
                fs.add('oracle-skipped')
            elif e[0] == 'ok':
                fs.add('answer:' + ('empty' if len(e) == 1 else 'one' if len(e) == 2 else 'several'))
            elif e[0] in ('one', 'none'):
                fs.add('single:' + e[0])
        return sorted(fs)

    def shrink(self, d):
        doc, qs = d['doc'], d['queries']
        if len(qs) > 1:
            for i in range(len(qs)):
                yield {'doc': doc, 'queries': [qs[i]]}
        # drop a subtree (pre-order index i > 0), remapping the indices used by the queries
        flat = Flat(doc)
        for i in range(flat.n - 1, 0, -1):
            lo, hi = i, flat.E[i]['end']
            cnt = [0]

            def cut(n):
                j = cnt[0]
                cnt[0] += 1
                kids = []
                for k in n[4]:
                    if cnt[0] == lo:
                        cnt[0] = hi
                        continue
                    kids.append(cut(k))
                return [n[0], n[1], n[2], n[3], kids]
            nd = cut(doc)

            def remap(r):
                out = [r[0]]
                for u in r[1:]:
                    if lo <= u < hi:
                        return None
                    out.append(u if u < lo else u - (hi - lo))
                return out
            nq = []
            for r, o in qs:
                r2 = remap(r)
                if r2 is not None:
                    nq.append([r2, o])
            if nq:
                yield {'doc': nd, 'queries': nq}
        # simplify elements
        def edit(n, path, fn):
            if not path:
                return fn(n)
            ks = list(n[4])
            ks[path[0]] = edit(ks[path[0]], path[1:], fn)
            return [n[0], n[1], n[2], n[3], ks]

        def paths(n, p=()):
            yield p
            for j, k in enumerate(n[4]):
                for q in paths(k, p + (j,)):
                    yield q
        for p in paths(doc):
            node = doc
            for j in p:
                node = node[4][j]
            for a in range(len(node[1])):
                yield {'doc': edit(doc, p, lambda n: [n[0], n[1][:a] + n[1][a + 1:], n[2], n[3], n[4]]), 'queries': qs}
            for c in range(len(node[2])):
                yield {'doc': edit(doc, p, lambda n: [n[0], n[1], n[2][:c] + n[2][c + 1:], n[3], n[4]]), 'queries': qs}
            if node[3] != ['', '']:
                yield {'doc': edit(doc, p, lambda n: [n[0], n[1], n[2], ['', ''], n[4]]), 'queries': qs}

    # ---- both sides --------------------------------------------------------------------------
    def encode(self, d):
        qs = [[[r[0]] + list(r[1:]), enc_op(o)] for r, o in d['queries']]
        return sx(enc_node(d['doc'], [0]), qs)

    def _answers(self, d):
        flat = Flat(d['doc'])
        B = Built(d['doc'])
        if not B.check_shape(flat):
            return None
        return [run_query(B, r, o) for r, o in d['queries']]

    def impl(self, d):
        ans = self._answers(d)
        if ans is None:
            return '(document-not-built-as-described)'
        return sx(*ans)

    # ---- the property itself on the library ---------------------------------------------------
    def oracle(self, d):
        flat, exp = self._expect(d)
        ans = self._answers(d)
        if ans is None:
            return ('setup', 'the parsed document does not have the described shape')
        for (r, o), e, a in zip(d['queries'], exp, ans):
            if e is None:
                continue
            if a != e:
                return (o[0], '%s on %s: library %r, brute force over the pre-order %r' % (o, r, a, e))
        return None
