"""
C05 — each mutation has exactly its documented effect; failed calls change nothing.
Stream `C05`: the lock-step histories of C04; after every call the return value / exception kind, every
element's blocks, children, text and attributes, and outerHTML / innerHTML / textContent are dumped on both sides.
The oracle drives a plain list-of-blocks reference document (c04_dom.RefDoc) with the same calls and compares,
checks the frame condition and failure atomicity on snapshots of the real objects, and the serialisation laws.
"""
import json

from ..core import PropCheck, Case, sx, enc
from . import c04_dom as D


def dump_state(L, target):
    items = L.items()
    struct = []
    for i, e in items:
        struct.append([i, 1 if e.isSelfClosing else 0, [L.bid(b) for b in e.blocks], [L.eid(c) for c in e.children], enc(e.text),
                       [[enc(k), ('none' if v is None else enc(v))] for k, v in e.getAttributesList()]])
    if len(items) <= 12:
        shown = items
    else:
        holder = set()
        for _, e in items:
            for b in e.blocks:
                if isinstance(b, L.Tag):
                    holder.add(b.uid)
        shown = [(i, e) for i, e in items if i == target or e.uid not in holder]
    html = [[i, enc(e.outerHTML), enc(e.innerHTML), enc(e.textContent)] for i, e in shown]
    return [struct, html]


def snapshot(L):
    snap = {}
    for i, e in L.items():
        snap[i] = {'blocks': [L.bid(b) for b in e.blocks], 'children': [L.eid(c) for c in e.children], 'text': e.text,
                   'sc': e.isSelfClosing, 'attrs': e.getAttributesList(), 'parent': L.eid(e.parentNode),
                   'owner': L.doc_id(e.ownerDocument)}
    return snap


def relevant(L, op):
    """elements whose serialisation a call can have changed: everything in a small world; else the target, the
    element arguments, and all their ancestors"""
    items = L.items()
    if op is None or len(items) <= 15:
        return None
    out = set()
    todo = [op[1]] + el_args(op)
    for i in todo:
        e = L.els[i] if i < len(L.els) else None
        n = 0
        while e is not None and n < 200:
            if e.uid in L.idx:
                out.add(L.idx[e.uid])
            e = e.parentNode
            n += 1
    return out


def el_args(op):
    n = op[0]
    out = []
    if n in ('appendChild', 'removeChild') and op[2] is not None:
        out.append(op[2])
    if n in ('appendBlock', 'removeBlock', 'insertBefore', 'insertAfter') and not isinstance(op[2], str):
        out.append(op[2])
    if n in ('appendBlocks', 'removeBlocks', 'removeChildren'):
        out.extend(b for b in op[2] if not isinstance(b, str))
    return out


def reports_failure(op, v):
    if isinstance(v, tuple) and v[0] == 'raise':
        return True
    n = op[0]
    if n in ('removeChild', 'removeText') and v is None:
        return True
    if n == 'removeBlock' and v is None:
        return True
    if n == 'remove' and v is False:
        return True
    return False


def laws_failure(L, only=None):
    Tag = L.Tag
    for i, e in L.items():
        if only is not None and i not in only:
            continue
        o = e.outerHTML
        if o != e.getStartTag() + e.innerHTML + e.getEndTag():
            return ('law-outerHTML', 'element %d: outerHTML %r is not start tag + innerHTML + end tag' % (i, o))
        cat = ''.join(b.outerHTML if isinstance(b, Tag) else b for b in e.blocks)
        if e.innerHTML != cat:
            return ('law-innerHTML', 'element %d: innerHTML %r but the blocks give %r' % (i, e.innerHTML, cat))

        def doc_text(x):
            return ''.join(doc_text(b) if isinstance(b, Tag) else b for b in x.blocks)
        if e.textContent != doc_text(e):
            return ('law-textContent', 'element %d: textContent %r, document order text %r' % (i, e.textContent, doc_text(e)))
        views = [str(e), e.toHTML(), e.asHTML(), e.getHTML()]
        if any(v != o for v in views):
            return ('law-views', 'element %d: str/toHTML/asHTML/getHTML %r differ from outerHTML %r' % (i, views, o))
    return None


def against_reference(L, ref, only=None):
    live = dict(L.items())
    if sorted(live) != sorted(ref.nodes):
        return ('elements', 'elements %r, the reference has %r' % (sorted(live), sorted(ref.nodes)))
    for i, e in live.items():
        n = ref.nodes[i]
        got = [b if isinstance(b, str) else L.idx.get(b.uid, -1) for b in e.blocks]
        want = [b if isinstance(b, str) else b.id for b in n.blocks]
        if got != want:
            return ('blocks', 'element %d: blocks %r, documented effect gives %r' % (i, got, want))
        gc = [L.idx.get(c.uid, -1) for c in e.children]
        wc = [b.id for b in n.blocks if not isinstance(b, str)]
        if gc != wc:
            return ('children', 'element %d: children %r, documented effect gives %r' % (i, gc, wc))
        if e.text != ref.text(n):
            return ('text', 'element %d: text %r, reference %r' % (i, e.text, ref.text(n)))
        if [list(a) for a in e.getAttributesList()] != n.attrs:
            return ('attributes', 'element %d: attributes %r, reference %r' % (i, e.getAttributesList(), n.attrs))
        if only is not None and i not in only:
            continue
        if e.outerHTML != ref.outer(n):
            return ('serialisation', 'element %d: outerHTML %r, reference %r' % (i, e.outerHTML, ref.outer(n)))
        if e.innerHTML != ref.inner(n):
            return ('serialisation', 'element %d: innerHTML %r, reference %r' % (i, e.innerHTML, ref.inner(n)))
        if e.textContent != ref.text_content(n):
            return ('serialisation', 'element %d: textContent %r, reference %r' % (i, e.textContent, ref.text_content(n)))
        # navigation against the reference's lists
        body = n.blocks[1:] if (n.blocks and n.blocks[0] == '') else n.blocks
        first = body[0] if body else None
        last = body[-1] if body else None
        for name, want in (('firstChild', first), ('lastChild', last)):
            g = getattr(e, name)
            g = g if (g is None or isinstance(g, str)) else L.idx.get(g.uid, -1)
            w = want if (want is None or isinstance(want, str)) else want.id
            if g != w:
                return ('navigation', 'element %d: %s %r, reference %r' % (i, name, g, w))
    return None


def frame_failure(L, op, before, after, new_ids):
    """nothing outside the target element (and the subtrees handed in / taken out) changes"""
    t = op[1]
    moved = set(el_args(op))
    if op[0] == 'remove':
        moved = {t}
        p = before[t]['parent']
        t = p if p != 'none' else t

    def below(i, snap):
        out = []
        for b in snap[i]['blocks']:
            if isinstance(b, int):
                out.append(b)
                out.extend(below(b, snap))
        return out
    moved_desc = set()
    for m in moved:
        if m in before:
            moved_desc.update(below(m, before))
    for i, b in before.items():
        a = after.get(i)
        if a is None:
            return ('frame', 'element %d disappeared' % i)
        if i == t:
            fields = ('parent', 'owner') if op[0] != 'remove' or before[op[1]]['parent'] != 'none' else ()
        elif i in moved:
            fields = ('blocks', 'children', 'text', 'sc', 'attrs')
        elif i in moved_desc:
            fields = ('blocks', 'children', 'text', 'sc', 'attrs', 'parent')
        else:
            fields = ('blocks', 'children', 'text', 'sc', 'attrs', 'parent', 'owner')
        for f in fields:
            if a[f] != b[f]:
                return ('frame', 'call %r changed %s of element %d: %r -> %r' % (op, f, i, b[f], a[f]))
    return None


class Check(PropCheck):
    id = 'C05'
    stream = 'C05'
    exhaustive_in = ()
    rule = ('the history space of C04 (every single call of the small universe from 12 seed trees of <= 3 nodes, sampled / '
            'breadth-first continuations with state de-duplication, seeded random histories of up to 40 calls on trees of up to 60 '
            'elements; detached, parser-owned and indexed-parser-owned), each history executed in lock-step on the library, on the '
            'model and on a plain list-of-blocks reference document; includes failing calls (reference not a child, non-child '
            'removal, appendChild(None), invalid attribute name) and calls on self-closed, void and freshly parsed elements. '
            'A case is non-trivial when its history changed the tree and touched >= 2 elements; distinct by canonical JSON.')
    assumptions = ['attributes in these histories are plain names (no class / style / boolean attributes: their routing is C08-C10)',
                   'object references are modelled as containment (see C04)']

    def cases(self, tier, rng):
        if tier == 'thorough':
            for d in D.exhaustive_cases(60, rng, kinds=('det', 'doc', 'idoc')):
                yield Case(d, 'exhaustive')
            for seed in D.SEEDS3:
                for kind in ('det', 'doc'):
                    if kind != 'det' and D.adjacent_text(seed):
                        continue
                    for d in D.bfs_cases(seed, kind, 3, 2500, rng):
                        if len(d['ops']) > 1:
                            yield Case(d, 'bfs')
            n, size, ops = 3000, 60, 40
        else:
            for d in D.exhaustive_cases(12, rng):
                yield Case(d, 'exhaustive')
            n, size, ops = 240, 60, 40
        for i in range(n):
            if i % 3 == 0:
                yield Case(D.random_case(rng, 6, 12), 'random')
            elif i % 3 == 1:
                yield Case(D.random_case(rng, 20, 20), 'random')
            else:
                yield Case(D.random_case(rng, size, ops), 'random')

    def encode(self, d):
        return D.encode_case(d)

    def nontrivial(self, d):
        touched = set()
        try:
            ref = D.RefDoc(d)
            k0 = ref.state_key()
            for op in d['ops']:
                touched.add(op[1])
                touched.update(el_args(op))
                ref.apply(op)
            return ref.state_key() != k0 and len(touched) >= 2
        except Exception:
            return False

    def features(self, d):
        return D.features(d)

    def shrink(self, d):
        # candidates that were already offered are not offered again (the shrinker restarts after every success)
        tried = self.__dict__.setdefault('_tried', set())
        for c in D.shrink(d):
            k = json.dumps(c, sort_keys=True)
            if k in tried:
                continue
            tried.add(k)
            if D.valid_case(c):
                yield c

    # ---- both sides --------------------------------------------------------------------------
    def impl(self, d):
        L = D.Live(d)
        out = [['init'] + dump_state(L, 0)]
        for op in d['ops']:
            if not L.pre_ok(op):
                out.append(['precondition-violated'])
                break
            v = L.apply(op)
            out.append([D.val_sx(v)] + dump_state(L, op[1]))
        return sx(*out)

    # ---- the property itself on the library ---------------------------------------------------
    def oracle(self, d):
        L = D.Live(d)
        ref = D.RefDoc(d)
        f = against_reference(L, ref) or laws_failure(L)
        if f:
            return (f[0], 'initial tree: ' + f[1])
        for n, op in enumerate(d['ops']):
            if not L.pre_ok(op):
                return None         # the history left the domain of the property (an argument is not detached)
            before = snapshot(L)
            known = set(i for i, _ in L.items())
            got = L.apply(op)
            want = ref.apply(op)
            after = snapshot(L)
            where = 'call %d %r: ' % (n, op)
            if got != want:
                return ('return-value', where + 'returned %r, documented %r' % (got, want))
            if reports_failure(op, got) and before != after:
                ch = [i for i in before if before[i] != after.get(i)]
                return ('failed-call-changed-tree', where + 'reported %r but elements %r changed' % (got, ch))
            rel = relevant(L, op)
            f = frame_failure(L, op, before, after, set(after) - known) or against_reference(L, ref, rel) or laws_failure(L, rel)
            if f:
                return (f[0], where + f[1])
        return None
