"""
C12 — formatter layout guarantees: indentation, minification, slim tags, stability.

Stream `C12`: same documents and configurations as C11 (generator shared, see c11.py).  Per case the formatter under
test is run on the document, on its own output and on the output of that (passes 1-3), and the slim/normal counterpart
class is run on the document; every run is compared with the model on the recorded token sequence of what was fed,
including the formatter object's final counters (currentIndentLevel, inPreformatted, open elements) and the `_indent`
of every element of its tree.  The oracles restate the property on the output text alone:
  layout     an independent tokenizer pass over pretty output recomputes depth from the tags and checks that every start tag
             outside pre/code (and every end tag of such an element other than pre/code) is alone at the start of its line
             after exactly depth x indent
  mini       mini(mini(x)) = mini(x); outside pre/code/script/style content no text run starts or ends with CR/LF or has a tab
  slim       slim output = normal output with ' >' -> '>' (and ' />' -> '/>' with slimSelfClosing) at the end of start tags only
  stability  pass 3 = pass 2
"""
import re

from ..core import PropCheck, enc, sx
from . import c11
from .c11 import (PRE, RAW, VOID, WRAPPER, tokens, enc_toks, enc_cfg, run_formatter, fmt, exc_name, indent_str,
                  prepared, lexwrap_ok)

COUNTERPART = {'pretty': 'slim', 'slim': 'pretty', 'mini': 'slimmini', 'slimmini': 'mini'}


def counterpart(cfg):
    c = dict(cfg, cls=COUNTERPART[cfg['cls']])
    if cfg['cls'] in ('pretty', 'slim') and cfg.get('indent') is None:
        c['indent'] = indent_str(cfg)           # the two classes have different default indents
    return c


def offsets(text):
    starts = [0]
    for m in re.finditer('\n', text):
        starts.append(m.end())
    return lambda pos: starts[pos[0] - 1] + pos[1]


def layout_violation(out, unit):
    """C12a on the text of pretty output.  `unit` is the indent of one level."""
    toks = tokens(out, positions=True)
    off = offsets(out)
    stack = []

    def check(pos, depth, what):
        o = off(pos)
        ls = out.rfind('\n', 0, o) + 1
        if ls == 0:
            return ('layout', '%s at offset %d is not preceded by a line break' % (what, o))
        if out[ls:o] != unit * depth:
            return ('layout', '%s at depth %d is preceded on its line by %r, expected %r' % (what, depth, out[ls:o], unit * depth))
        return None
    for t in toks:
        k = t[0]
        if k in ('s', 'se'):
            name = t[1]
            if not any(n in PRE for n in stack):
                r = check(t[-1], len(stack), 'start tag <%s>' % name)
                if r:
                    return r
            if k == 's' and name not in VOID:
                stack.append(name)
        elif k == 'e':
            name = t[1]
            if not stack or stack[-1] != name:
                if name in VOID:
                    continue
                return ('layout-unbalanced', 'end tag </%s> does not close the innermost open element %r' % (name, stack[-1:]))
            stack.pop()
            if name not in PRE and not any(n in PRE for n in stack):
                r = check(t[-1], len(stack), 'end tag </%s>' % name)
                if r:
                    return r
    if stack:
        return ('layout-unbalanced', 'elements left open in the output: %r' % stack)
    return None


def mini_text_violation(out):
    """C12b on the text of mini output: outside pre/code/script/style content no text run begins or ends with a line
    break or contains a tab."""
    stack = []
    run = []

    def flush():
        s = ''.join(run)
        del run[:]
        if not s:
            return None
        if any(n in PRE for n in stack) or (stack and stack[-1] in RAW):
            return None
        if s[0] in '\r\n' or s[-1] in '\r\n':
            return ('mini-text', 'text run %r starts or ends with a line break' % s[:60])
        if '\t' in s:
            return ('mini-text', 'text run %r contains a tab' % s[:60])
        return None
    toks = tokens(out)
    if len(toks) > 1 and toks[0][0] in ('dl', 'ud') and toks[1][0] == 'd' and toks[1][1].startswith('\n'):
        toks[1] = ['d', toks[1][1][1:]]         # the line break getHTML puts after the doctype line is not document text
    for t in toks:
        k = t[0]
        if k == 'd':
            run.append(t[1])
            continue
        r = flush()
        if r:
            return r
        if k == 's' and t[1] not in VOID:
            stack.append(t[1])
        elif k == 'e' and t[1] in stack:
            while stack.pop() != t[1]:
                pass
    return flush()


def dropped_between_text(toks):
    """Is there markup the formatter drops without trace (stray end tag, processing instruction, declaration) between
    two data pieces?  Then the two pieces are squeezed separately and touch in the output (known finding)."""
    stack = []
    prev_text = gap = False
    for t in toks:
        k = t[0]
        if k == 'd':
            if prev_text and gap:
                return True
            prev_text, gap = True, False
        elif k in ('pi', 'dl', 'ud') or (k == 'e' and t[1] not in stack):
            gap = prev_text
        else:
            prev_text = gap = False
            if k == 's' and t[1] not in VOID:
                stack.append(t[1])
            elif k == 'e':
                while stack.pop() != t[1]:
                    pass
    return False


def slimmed(normal_out, ssc):
    """The slim image of normal output, computed from the text: the space before the closing '>' of each start tag goes
    (before '/>' only with slimSelfClosing)."""
    toks = tokens(normal_out, positions=True)
    off = offsets(normal_out)
    out = []
    last = 0
    for t in toks:
        if t[0] not in ('s', 'se'):
            continue
        text, o = t[3], off(t[4])
        if normal_out[o:o + len(text)] != text:
            raise AssertionError('start tag text not found at its position')
        if text.endswith(' />'):
            new = text[:-3] + '/>' if ssc else text
        elif text.endswith(' >'):
            new = text[:-2] + '>'
        else:
            new = text
        out.append(normal_out[last:o])
        out.append(new)
        last = o + len(text)
    out.append(normal_out[last:])
    return ''.join(out)


class Check(c11.Check):
    id = 'C12'
    stream = 'C12'
    rule = ('same documents and configurations as C11 (structured generator, four classes, ten indent settings, encodings, '
            'slimSelfClosing, entry points parseStr str/bytes, feed, re-used object, 0-2 formatter passes beforehand); per case '
            'passes 1-3 of the class under test and pass 1 of its slim/normal counterpart; non-trivial: at least two elements '
            'and some text; distinct by canonical JSON')
    assumptions = c11.Check.assumptions + [
        'the layout oracle reads "line break" as LF (the formatter writes LF) and, for mini text runs, CR or LF',
    ]

    def cases(self, tier, rng):
        for c in c11.gen_cases(tier, rng, n_quick=2800, n_thorough=30000):
            if c.data['via'] == 'parser':
                # the model stream formats the text; the oracle also judges parser.getFormattedHTML / getMiniHTML on it
                c.data['via'] = 'str'
                c.data['entry'] = 'parser'
            yield c

    # ---- runs of one case: (text fed, cfg, via) ------------------------------------------------
    def runs(self, d):
        """[(label, text, [cfg…], via)], computed with the real formatter's own outputs as the next pass' input."""
        p = prepared(d)
        if p.error:
            return None
        cfg = d['cfg']
        out = [('pass1', p.src, [cfg, counterpart(cfg)], d['via'])]
        try:
            o1 = run_formatter(cfg, p.src, d['via'])[1]
            out.append(('pass2', o1, [cfg], 'str'))
            if cfg['cls'] in ('pretty', 'slim'):
                o2 = fmt(cfg, o1)
                out.append(('pass3', o2, [cfg], 'str'))
        except Exception:
            pass
        return out

    def encode(self, d):
        from ..core import quiet_call
        rs = quiet_call(self.runs, d)
        if rs is None:
            return '()'
        return '(' + ' '.join('(%s %s)' % (enc_toks(tokens(text)), ' '.join(enc_cfg(c) for c in cfgs))
                              for _, text, cfgs, _ in rs) + ')'

    @staticmethod
    def observe(cfg, text, via):
        try:
            f, html = run_formatter(cfg, text, via)
        except Exception as e:
            return ['raise', exc_name(e)], False
        # the formatter object's bookkeeping (named by the property as its state); compared when it can be read —
        # a rewrite that keeps the output but stores its state differently only loses this part of the comparison
        try:
            counters = [int(f.currentIndentLevel), int(f.inPreformatted), len(f._inTag)]
        except Exception:
            counters = 'na'
        try:
            elems = []

            def walk(e):
                elems.append([enc(e.tagName), enc(e._indent)])
                for c in e.children:
                    walk(c)
            if f.root is not None:
                walk(f.root)
        except Exception:
            elems = 'na'
        try:
            wrapped = f.root is not None and f.root.tagName == WRAPPER
        except Exception:
            wrapped = True
        return ['ok', enc(html), counters, elems], wrapped

    def impl(self, d):
        rs = self.runs(d)
        if rs is None:
            return '()'
        p = prepared(d)
        if not p.strip_ie:
            return '(skip ie-conditional)'
        groups = []
        for i, (_, text, cfgs, via) in enumerate(rs):
            g = []
            for j, c in enumerate(cfgs):
                o, wrapped = self.observe(c, text, via if j == 0 else 'str')
                if wrapped and not lexwrap_ok(text):
                    return '(skip lexwrap)'
                g.append(o)
            groups.append(g)
        return sx(*groups)

    def compare(self, model_out, impl_out, d):
        if impl_out.startswith('(skip'):
            return None
        if model_out == impl_out:
            return None
        if ' na' in impl_out:
            try:
                from ..core import parse_sx
                m, i = parse_sx(model_out), parse_sx(impl_out)
                if len(m) == len(i) and all(len(a) == len(b) for a, b in zip(m, i)):
                    for ga, gb in zip(m, i):
                        for ra, rb in zip(ga, gb):
                            if isinstance(ra, list) and isinstance(rb, list) and len(ra) == len(rb) == 4:
                                for k in (2, 3):
                                    if rb[k] == 'na':
                                        ra[k] = 'na'
                    if m == i:
                        return None
            except Exception:
                pass
        return PropCheck.compare(self, model_out, impl_out, d)

    # ---- the property itself -----------------------------------------------------------------
    def oracle(self, d):
        p = prepared(d)
        if p.error:
            return None
        cfg = d['cfg']
        cls = cfg['cls']
        src = p.src
        if not tokens(src) or c11.plain_parse(src)[1] == []:
            return None
        try:
            o1 = run_formatter(cfg, src, d['via'])[1]
            o2 = fmt(cfg, o1)
            other = fmt(counterpart(cfg), src)
        except Exception as e:
            return ('raises', 'formatting raised %s: %s' % (type(e).__name__, e))
        unit = indent_str(cfg)
        if unit is not None:
            for label, o in (('pass 1', o1), ('pass 2', o2)):
                r = layout_violation(o, unit)
                if r:
                    return (r[0], '%s: %s' % (label, r[1]))
            o3 = fmt(cfg, o2)
            if o3 != o2:
                return ('stability', 'pass 3 differs from pass 2: %r vs %r' % _first_diff(o2, o3))
        else:
            if o2 != o1:
                kind = 'mini-fixed-point'
                if dropped_between_text(tokens(src)):
                    kind = 'mini-fixed-point-dropped-markup'
                return (kind, 'mini output is not a fixed point: %r vs %r' % _first_diff(o1, o2))
            r = mini_text_violation(o1)
            if r:
                return r
            if '\n' in o1 or '\t' in o1:
                # no indentation at all: every line break / tab of the output is one the input's preserved content,
                # attribute values, comments or interior of a text run had (cheap necessary condition: none appears
                # directly before a tag outside preserved content — covered by mini_text_violation — nor after the doctype)
                pass
        if d.get('entry') == 'parser' and cls in ('pretty', 'mini'):
            # the same laws on the parser's own entry points (same documents and configurations as C11)
            import AdvancedHTMLParser
            try:
                ps = AdvancedHTMLParser.AdvancedHTMLParser()
                ps.parseStr(p.doc1)
                if cls == 'mini':
                    po = ps.getMiniHTML()
                elif cfg.get('indent') is None:
                    po = ps.getFormattedHTML()
                else:
                    po = ps.getFormattedHTML(cfg['indent'])
            except Exception as e:
                return ('raises', 'the parser entry point raised %s: %s' % (type(e).__name__, e))
            if unit is not None:
                r = layout_violation(po, unit)
                if r:
                    return (r[0], 'parser.getFormattedHTML(%r): %s' % (cfg.get('indent'), r[1]))
            else:
                r = mini_text_violation(po)
                if r:
                    return (r[0], 'parser.getMiniHTML(): %s' % (r[1],))
        normal, slim = (o1, other) if cls in ('pretty', 'mini') else (other, o1)
        expect = slimmed(normal, bool(cfg.get('ssc')))
        if slim != expect:
            return ('slim', 'slim output differs from the normal output with start-tag spaces removed: %r vs %r' % _first_diff(expect, slim))
        return None


def _first_diff(a, b):
    i = 0
    while i < len(a) and i < len(b) and a[i] == b[i]:
        i += 1
    lo = max(0, i - 20)
    return (a[lo:i + 30], b[lo:i + 30])
