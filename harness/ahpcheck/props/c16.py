"""
C16 — reading never writes: queries, serialisers and copies leave documents untouched.

Stream `C16`: a document (detached tree, or held by a plain / indexed / validating parser) and a second, unrelated
document; a sequence of 1-30 observers drawn from the whole public read API (parser, element, collection, style object,
formatter, XPath, pickling, cloning).  After each observer the full snapshot of *both* documents (serialisation,
per-element identity / uid / parent / owner / attribute list / text / children / blocks, index maps, reset hook) is
compared with the one taken before; finally every parser is re-used.  Results that are fresh containers are scribbled
on (append / clear), so an accessor that hands out a live list shows up as a write.
"""
import copy
import pickle

from ..core import PropCheck, Case, sx, enc, opt, _sx1
from . import c17
from .c17 import (E, T, walk, n_elements, build_holder, is_tag, is_parser, root_of, elems, Canon, seed, holder_sx, attrs_sx,
                  lib, ORD, VOID, WRAPPER)

NAMES = ['div', 'span', 'p', 'b', 'a', 'br', 'li', 'input', 'nosuch', 'em', 'td', 'col', 'textarea', 'form']
ATTRS = ['id', 'class', 'style', 'title', 'name', 'href', 'checked', 'data-k', 'data-x', 'nosuch', 'CLASS', 'spellcheck',
         'colspan', 'rowspan', 'span', 'maxlength', 'tabindex', 'cols', 'size', 'method']     # read through converting dot names
VALUES = ['x', 'a', 'a b', 'main', 'e1', 'k1', '1', '', 'color: red', 'nosuch', 'two', '-3', '7']
STYLE_PROPS = ['color', 'fontWeight', 'font-weight', 'paddingTop', 'float', 'nosuch']
# class queries: one name, several names, names in another order, and names that occur nowhere (a lookup of a missing
# name must not leave a trace in an index)
CLASS_QUERIES = ['a', 'a b', 'k', 'b a', 'a zz', 'k nosuch', 'a b c nosuch', 'x y', 'nosuch a', 'k2 k', 'lead zz', 'a  b']


def clsq(s, b):
    return CLASS_QUERIES[(b + len(s or '')) % len(CLASS_QUERIES)]

XPATHS = ['//div/*', '/*/*', '//*/child::*', '//div/*/*', '//div', '//*', '//p/b', '//*[@id="x"]', '//*[@class="a"]', '//a[1]', '//div[last()]', 'span', '/div', '//li/..',
          '//*[@title]', '//div//span', '//br', '//*[@name="n"]', 'descendant::p', '//*[@data-k="k1"]', '//input[@checked]',
          '//*[text()="x"]', '//*[contains(@class, "a")]', '//p | //b']


# ------------------------------------------------------------------------------------------------
# observers

class Ctx(object):
    def __init__(self, docs, d):
        self.docs = docs
        self.h = docs[d]
        self.other = docs[1 - d]
        self.els = elems(root_of(self.h))

    def E(self, i):
        return self.els[i % len(self.els)]


def scribble(r):
    """write on a result that claims to be a fresh container / copy"""
    AHP = lib()
    try:
        if isinstance(r, AHP.Tags.TagCollection):
            r.append(AHP.AdvancedTag('zz'))
            if len(r) > 1:
                r.remove(r[0])
        elif isinstance(r, dict):
            r['zz'] = 'scribble'
            for k in list(r):
                r[k] = 'scribble'
            r.clear()
        elif isinstance(r, list):
            r.append('zz')
            r.reverse()
            del r[:]
        elif isinstance(r, set):
            r.add('zz')
            r.clear()
    except Exception:
        pass


def scribble_el(c):
    """edit an element that claims to be an independent copy"""
    try:
        c.setAttribute('data-scribble', '1')
        c.addClass('scribble')
        c.style.color = 'pink'
        c.appendText('scribble')
        c.appendChild(lib().AdvancedTag('zz'))
        c.removeAttribute('id')
        c.className = ''
    except Exception:
        pass


def attr_lambda(k, v):
    return lambda e: e.getAttribute(k) == v


OBS = {}      # name -> (function(ctx, a, b, s) , model(a, b) -> op for the driver)


def obs(name, model):
    def deco(f):
        OBS[name] = (f, model)
        return f
    return deco


NONE = lambda a, b: ['read', 'none']
ONE = lambda a, b: ['read', 'one', a]
TWO = lambda a, b: ['read', 'two', a, b]
SUB = lambda a, b: ['read', 'sub', a]
HTML = lambda a, b: ['read', 'html', a]
ALL = lambda a, b: ['read', 'all']
DOCHTML = lambda a, b: ['read', 'dochtml']


def simple(name, model, f, scr=False):
    def g(c, a, b, s):
        r = f(c, a, b, s)
        if scr:
            scribble(r)
        return r
    OBS[name] = (g, model)


# --- element: pure reads ---------------------------------------------------------------------
for _n in ('nodeName', 'nodeValue', 'nodeType', 'tagName', 'uid', 'firstChild', 'firstElementChild', 'lastChild', 'lastElementChild',
           'nextSibling', 'nextElementSibling', 'previousSibling', 'previousElementSibling', 'innerText', 'text', 'textContent',
           'peers', 'childBlocks', 'childElementCount', 'parentElement', 'parentNode', 'ownerDocument', 'className',
           'isSelfClosing', 'nosuchattribute', 'previousSiblingElement', 'nextSiblingElement'):
    simple('el.' + _n, NONE, (lambda n: lambda c, a, b, s: getattr(c.E(a), n))(_n))
for _n in ('tagBlocks', 'textBlocks', 'childNodes', 'classList', 'classNames'):
    simple('el.' + _n, NONE, (lambda n: lambda c, a, b, s: getattr(c.E(a), n))(_n), scr=True)
for _n in ('getTagName', 'getUid', 'hasChildNodes', 'getPeers', 'getChildBlocks', 'getEndTag'):
    simple('el.' + _n + '()', NONE, (lambda n: lambda c, a, b, s: getattr(c.E(a), n)())(_n))
for _n in ('getBlocksTags', 'getBlocksText', 'getChildren', 'getAllChildNodes', 'getAllNodes', 'getAllChildNodeUids', 'getAllNodeUids'):
    simple('el.' + _n + '()', NONE, (lambda n: lambda c, a, b, s: getattr(c.E(a), n)())(_n), scr=True)
simple('el.hasChild', NONE, lambda c, a, b, s: c.E(a).hasChild(c.E(b)))
simple('el.contains', NONE, lambda c, a, b, s: c.E(a).contains(c.E(b)))
simple('el.containsUid', NONE, lambda c, a, b, s: c.E(a).containsUid(c.E(b).uid))
simple('el.hasClass', NONE, lambda c, a, b, s: c.E(a).hasClass(s))
simple('el.hasAttribute', NONE, lambda c, a, b, s: c.E(a).hasAttribute(s))
simple('el[k]', NONE, lambda c, a, b, s: c.E(a)[b % 3])
simple('el==', NONE, lambda c, a, b, s: (c.E(a) == c.E(b), c.E(a) != c.E(b), hash(c.E(a)), c.E(a).isEqualNode(c.E(b))))
simple('el.children[:]', NONE, lambda c, a, b, s: list(c.E(a).children), scr=True)
simple('el.blocks[:]', NONE, lambda c, a, b, s: list(c.E(a).blocks), scr=True)
simple('el.getStyle', NONE, lambda c, a, b, s: c.E(a).getStyle(s))
simple('el.getStyleDict', NONE, lambda c, a, b, s: c.E(a).getStyleDict(), scr=True)
simple('el.getElementsByClassName', NONE, lambda c, a, b, s: c.E(a).getElementsByClassName(clsq(s, b)), scr=True)
simple('el.in-attributes', NONE, lambda c, a, b, s: s in c.E(a).attributes)
simple('el.attributes[k]', NONE, lambda c, a, b, s: c.E(a).attributes[s])
simple('el.attributesDOM.getNamedItem', NONE, lambda c, a, b, s: c.E(a).attributesDOM.getNamedItem(s))
simple('el.attributesDOM[k]', NONE, lambda c, a, b, s: c.E(a).attributesDOM[s])

# --- style object ------------------------------------------------------------------------------
simple('style.str', NONE, lambda c, a, b, s: (str(c.E(a).style), repr(c.E(a).style), c.E(a).style.isEmpty()))
simple('style.prop', NONE, lambda c, a, b, s: getattr(c.E(a).style, s))
simple('style.==', NONE, lambda c, a, b, s: (c.E(a).style == s, c.E(a).style != c.E(b).style, c.E(a).style == c.E(b).style))


def _style_copy(c, a, b, s):
    st = c.E(a).style
    out = []
    for cp in (copy.copy(st), copy.deepcopy(st), lib().SpecialAttributes.StyleAttribute(st) if hasattr(lib(), 'SpecialAttributes') else copy.copy(st)):
        cp.color = 'pink'
        cp.fontWeight = 'bold'
        out.append(str(cp))
    return out
simple('style.copy', NONE, _style_copy)

# --- element: attribute views (one element's store is synchronised) -------------------------------
simple('el.getAttribute', ONE, lambda c, a, b, s: c.E(a).getAttribute(s))
simple('el.getAttributesDict', ONE, lambda c, a, b, s: c.E(a).getAttributesDict(), scr=True)
simple('el.attributesList', ONE, lambda c, a, b, s: c.E(a).attributesList, scr=True)
simple('el.attributes.items', ONE, lambda c, a, b, s: list(c.E(a).attributes.items()), scr=True)
simple('el.attributes.keys', ONE, lambda c, a, b, s: list(c.E(a).attributes.keys()), scr=True)
simple('el.attributes.iter', ONE, lambda c, a, b, s: [k for k in c.E(a).attributes], scr=True)
simple('el.attributes.repr', ONE, lambda c, a, b, s: (repr(c.E(a).attributes), str(c.E(a).attributes)))
simple('el.attributes.get', ONE, lambda c, a, b, s: c.E(a).attributes.get(s, 'dflt'))
simple('el.attributesDOM.iter', ONE, lambda c, a, b, s: ([k for k in c.E(a).attributesDOM], str(c.E(a).attributesDOM)))
simple('el.repr', ONE, lambda c, a, b, s: repr(c.E(a)))
simple('el.dot', ONE, lambda c, a, b, s: [getattr(c.E(a), n) for n in ('id', 'name', 'title', 'checked', 'tabIndex', 'href', 'onclick', 'hidden', 'spellcheck', 'style', 'dir', 'lang')])


def _dot_special(c, a, b, s):
    # every dot name with a converting getter (constants.TAG_ITEM_ATTRIBUTES_SPECIAL_VALUES), whatever the element is
    from AdvancedHTMLParser import constants as K
    out = []
    for n in sorted(set(K.TAG_ITEM_ATTRIBUTES_SPECIAL_VALUES) | {'colSpan', 'rowSpan', 'span', 'maxLength', 'cols', 'rows', 'size', 'method'}):
        try:
            out.append((n, getattr(c.E(a), n)))
        except Exception as ex:
            out.append((n, 'raised ' + type(ex).__name__))
    return out


simple('el.dot-special', ONE, _dot_special)
simple('el.isTagEqual', TWO, lambda c, a, b, s: c.E(a).isTagEqual(c.E(b)))
simple('el.isTagEqual-other-doc', ONE, lambda c, a, b, s: c.E(a).isTagEqual(elems(root_of(c.other))[0]))

# --- element: serialisers and attribute list with modelled results ---------------------------------
OBS['el.outerHTML'] = (lambda c, a, b, s: ('str', c.E(a).outerHTML), lambda a, b: ['outer', a])
OBS['el.str'] = (lambda c, a, b, s: ('str', str(c.E(a))), lambda a, b: ['outer', a])
OBS['el.toHTML'] = (lambda c, a, b, s: ('str', c.E(a).toHTML()), lambda a, b: ['outer', a])
OBS['el.asHTML'] = (lambda c, a, b, s: ('str', c.E(a).asHTML()), lambda a, b: ['outer', a])
OBS['el.innerHTML'] = (lambda c, a, b, s: ('str', c.E(a).innerHTML), lambda a, b: ['inner', a])
OBS['el.getStartTag'] = (lambda c, a, b, s: ('str', c.E(a).getStartTag()), lambda a, b: ['starttag', a])


def _attrs_list(c, a, b, s):
    r = c.E(a).getAttributesList()
    out = ('attrs', list(r))
    scribble(r)
    return out
OBS['el.getAttributesList'] = (_attrs_list, lambda a, b: ['attrs', a])

# --- element: searches below an element --------------------------------------------------------------
simple('el.getElementById', SUB, lambda c, a, b, s: c.E(a).getElementById(s))
simple('el.getElementsByAttr', SUB, lambda c, a, b, s: c.E(a).getElementsByAttr(ATTRS[b % len(ATTRS)], s), scr=True)
simple('el.getElementsByName', SUB, lambda c, a, b, s: c.E(a).getElementsByName(s), scr=True)
simple('el.getElementsWithAttrValues', SUB, lambda c, a, b, s: c.E(a).getElementsWithAttrValues(ATTRS[b % len(ATTRS)], [s, 'x']), scr=True)
simple('el.getElementsCustomFilter', SUB, lambda c, a, b, s: c.E(a).getElementsCustomFilter(attr_lambda(ATTRS[b % len(ATTRS)], s)), scr=True)
simple('el.getFirstElementCustomFilter', SUB, lambda c, a, b, s: c.E(a).getFirstElementCustomFilter(attr_lambda(ATTRS[b % len(ATTRS)], s)))
simple('el.getParentElementCustomFilter', SUB, lambda c, a, b, s: c.E(a).getParentElementCustomFilter(attr_lambda(ATTRS[b % len(ATTRS)], s)))
simple('el.getPeersCustomFilter', ALL, lambda c, a, b, s: c.E(a).getPeersCustomFilter(attr_lambda(ATTRS[b % len(ATTRS)], s)), scr=True)
simple('el.getPeersByAttr', ALL, lambda c, a, b, s: c.E(a).getPeersByAttr(ATTRS[b % len(ATTRS)], s), scr=True)
simple('el.getPeersWithAttrValues', ALL, lambda c, a, b, s: c.E(a).getPeersWithAttrValues(ATTRS[b % len(ATTRS)], [s]), scr=True)
simple('el.getPeersByName', ALL, lambda c, a, b, s: c.E(a).getPeersByName(s), scr=True)
simple('el.getPeersByClassName', NONE, lambda c, a, b, s: c.E(a).getPeersByClassName(s), scr=True)
simple('el.getElementsByXPath', SUB, lambda c, a, b, s: c.E(a).getElementsByXPathExpression(XPATHS[b % len(XPATHS)]), scr=True)
simple('el.filter', SUB, lambda c, a, b, s: c.E(a).filter(tagname=NAMES[b % len(NAMES)]), scr=True)
simple('el.filterOr', SUB, lambda c, a, b, s: c.E(a).filterOr(id=s, tagname=NAMES[b % len(NAMES)]), scr=True)
simple('el.filter-attr', SUB, lambda c, a, b, s: c.E(a).filter(**{ATTRS[b % 9].replace('-', '_'): s}), scr=True)

# --- cloning and pickling ------------------------------------------------------------------------------

def _clone_with(f):
    def g(c, a, b, s):
        k = f(c.E(a))
        scribble_el(k)
        return None
    return g
OBS['el.cloneNode'] = (_clone_with(lambda e: e.cloneNode()), lambda a, b: ['clone', a])
OBS['el.copy'] = (_clone_with(copy.copy), lambda a, b: ['clone', a])
OBS['el.deepcopy'] = (_clone_with(copy.deepcopy), lambda a, b: ['clone', a])


def _pickle_holder(c, a, b, s):
    proto = b % 6
    h = c.h
    y = pickle.loads(pickle.dumps(h, proto))
    # the copy is somebody else's now: write all over it
    for e in elems(root_of(y))[:3]:
        scribble_el(e)
    if is_parser(y):
        y.parseStr('<q>other</q>')
    return None
OBS['pickle'] = (_pickle_holder, lambda a, b: ['pickle'])


def _copy_holder(c, a, b, s):
    """copy.copy / copy.deepcopy of the holder (a parser goes through the pickling hooks with a shallow / deep state): the copy is
    somebody else's, the original keeps every element, owner link and index entry"""
    h = c.h
    y = copy.copy(h) if b % 2 == 0 else copy.deepcopy(h)
    if is_parser(y) and b % 2 == 1:
        y.parseStr('<q>other</q>')          # a deep copy shares nothing: it may be overwritten
    return None
OBS['holder.copy'] = (_copy_holder, lambda a, b: ['pickle'])


def _dumps_only(c, a, b, s):
    return len(pickle.dumps(c.h, b % 6))
OBS['pickle.dumps'] = (_dumps_only, lambda a, b: ['pickle'])

# --- parser level ----------------------------------------------------------------------------------------

def P(f, scr=False):
    """a parser-level observer; on a detached holder the element-level namesake of the root (or nothing)"""
    def g(c, a, b, s):
        if not is_parser(c.h):
            return None
        r = f(c.h, c, a, b, s)
        if scr:
            scribble(r)
        return r
    return g


PARSER_ONLY = set(['p.getHTML', 'p.toHTML', 'p.asHTML'])


def ponly(name, model, f, scr=False):
    PARSER_ONLY.add(name)
    OBS[name] = (P(f, scr), lambda a, b, m=model: m(a, b))

PNONE = NONE
ponly('p.getRoot', PNONE, lambda p, c, a, b, s: p.getRoot())
ponly('p.getRootNodes', PNONE, lambda p, c, a, b, s: p.getRootNodes(), scr=True)
ponly('p.getAllNodes', PNONE, lambda p, c, a, b, s: p.getAllNodes(), scr=True)
ponly('p.body-head-forms', PNONE, lambda p, c, a, b, s: (p.body, p.head, p.forms))
ponly('p.contains', PNONE, lambda p, c, a, b, s: (p.contains(c.E(a)), p.containsUid(c.E(a).uid), c.E(a) in p,
                                                  p.contains(elems(root_of(c.other))[0])))
ponly('p.getElementsByTagName', PNONE, lambda p, c, a, b, s: p.getElementsByTagName(NAMES[b % len(NAMES)]), scr=True)
ponly('p.getElementsByTagName-root', PNONE, lambda p, c, a, b, s: p.getElementsByTagName(NAMES[b % len(NAMES)], root=c.E(a)), scr=True)
ponly('p.getElementsByName', ALL, lambda p, c, a, b, s: p.getElementsByName(s), scr=True)
ponly('p.getElementById', ALL, lambda p, c, a, b, s: p.getElementById(s))
ponly('p.getElementById-root', SUB, lambda p, c, a, b, s: p.getElementById(s, root=c.E(a)))
ponly('p.getElementsByClassName', PNONE, lambda p, c, a, b, s: p.getElementsByClassName(clsq(s, b)), scr=True)
ponly('p.getElementsByAttr', ALL, lambda p, c, a, b, s: p.getElementsByAttr(ATTRS[b % len(ATTRS)], s), scr=True)
ponly('p.getElementsWithAttrValues', ALL, lambda p, c, a, b, s: p.getElementsWithAttrValues(ATTRS[b % len(ATTRS)], [s, 'x']), scr=True)
def _all_values(p, k):
    return sorted(set(e.getAttribute(k) for e in p.getAllNodes() if e.hasAttribute(k) and isinstance(e.getAttribute(k), str)))


ponly('p.getElementsWithAttrValues-present', ALL,
      lambda p, c, a, b, s: (p.getElementsWithAttrValues(ATTRS[b % len(ATTRS)], _all_values(p, ATTRS[b % len(ATTRS)]) + [s]),
                             p.getElementsWithAttrValues(ATTRS[b % len(ATTRS)], iter(_all_values(p, ATTRS[b % len(ATTRS)])))))
ponly('p.getElementsCustomFilter', ALL, lambda p, c, a, b, s: p.getElementsCustomFilter(attr_lambda(ATTRS[b % len(ATTRS)], s)), scr=True)
ponly('p.getFirstElementCustomFilter', ALL, lambda p, c, a, b, s: p.getFirstElementCustomFilter(attr_lambda(ATTRS[b % len(ATTRS)], s)))
ponly('p.getElementsByXPath', ALL, lambda p, c, a, b, s: p.getElementsByXPathExpression(XPATHS[b % len(XPATHS)]), scr=True)
ponly('p.filter', ALL, lambda p, c, a, b, s: p.filter(tagname=NAMES[b % len(NAMES)]), scr=True)
ponly('p.filterOr', ALL, lambda p, c, a, b, s: p.filterOr(id=s, tagname=NAMES[b % len(NAMES)]), scr=True)
ponly('p.find', ALL, lambda p, c, a, b, s: p.find(tagname=NAMES[b % len(NAMES)]), scr=True)
ponly('p.find-attr', ALL, lambda p, c, a, b, s: p.find(**{'id': s}), scr=True)
ponly('p.find-contains', ALL, lambda p, c, a, b, s: p.find(**{'id__contains': s or 'x'}), scr=True)
ponly('p.evaluate', ALL, lambda p, c, a, b, s: (p.evaluate(XPATHS[b % len(XPATHS)]), p.getElementsByXPath(XPATHS[a % len(XPATHS)])))
ponly('p.containsUid', PNONE, lambda p, c, a, b, s: p.containsUid(c.E(a).uid))
ponly('p.createElement', PNONE, lambda p, c, a, b, s: scribble_el(p.createElement(NAMES[b % len(NAMES)])))


def _factories(p, c, a, b, s):
    """class-level factories build their own temporary parsers: nothing of this document may move"""
    cls = type(p)
    html = c.E(a).outerHTML
    out = []
    for f in (cls.createElementFromHTML, cls.createElementsFromHTML, cls.createBlocksFromHTML):
        try:
            r = f(html)
            for x in (r if isinstance(r, list) else [r]):
                if is_tag(x):
                    scribble_el(x)
            scribble(r)
            out.append('ok')
        except Exception as e:
            out.append(type(e).__name__)
    return out
ponly('p.factories', HTML, _factories)


def _collection_views(p, c, a, b, s):
    col = p.getAllNodes()
    r = (len(col), [e.tagName for e in col], col[:2], list(reversed(col)), c.E(a) in col, col.index(c.E(a)) if c.E(a) in col else -1,
         str(col)[:10], bool(col), col == col, col.count(c.E(a)))
    scribble(col)
    return r
ponly('collection-views', PNONE, _collection_views)
ponly('p.noindex-searches', ALL, lambda p, c, a, b, s: _noindex(p, c, a, b, s))
OBS['p.getHTML'] = (P(lambda p, c, a, b, s: ('str', p.getHTML())), lambda a, b: ['dochtml'])
OBS['p.toHTML'] = (P(lambda p, c, a, b, s: ('str', p.toHTML())), lambda a, b: ['dochtml'])
OBS['p.asHTML'] = (P(lambda p, c, a, b, s: ('str', p.asHTML())), lambda a, b: ['dochtml'])
ponly('p.getFormattedHTML', DOCHTML, lambda p, c, a, b, s: p.getFormattedHTML(('  ', '\t', '    ', '')[b % 4]))
ponly('p.getMiniHTML', DOCHTML, lambda p, c, a, b, s: p.getMiniHTML())


def _noindex(p, c, a, b, s):
    """the indexed parser's lookups with the index bypassed, and rooted at an element"""
    if not hasattr(p, '_idMap'):
        return None
    return (p.getElementsByTagName(NAMES[b % len(NAMES)], useIndex=False), p.getElementsByName(s, useIndex=False),
            p.getElementById(s, useIndex=False), p.getElementsByClassName(clsq(s, b), useIndex=False),
            p.getElementsByAttr(ATTRS[b % len(ATTRS)], s, useIndex=False),
            p.getElementsByName(s, root=c.E(a)), p.getElementsByClassName(clsq(s, b), root=c.E(a)),
            p.getElementsByAttr(ATTRS[b % len(ATTRS)], s, root=c.E(a)))


def _formatters(p, c, a, b, s):
    """running a formatter over the output"""
    F = lib().Formatter
    html = p.getHTML()
    out = []
    for cls, args in ((F.AdvancedHTMLFormatter, ('  ',)), (F.AdvancedHTMLMiniFormatter, ()), (F.AdvancedHTMLSlimTagFormatter, ('  ',)),
                      (F.AdvancedHTMLSlimTagMiniFormatter, ())):
        try:
            f = cls(*args)
            f.parseStr(html)
            out.append(f.getHTML())
        except Exception as e:
            out.append(type(e).__name__)
    return out
ponly('formatters', DOCHTML, _formatters)


def _collection(p, c, a, b, s):
    col = p.getAllNodes() if b % 2 else p.getElementsByTagName(NAMES[b % len(NAMES)])
    k = ATTRS[b % len(ATTRS)]
    out = []
    for f in (lambda: col.getElementsByTagName(NAMES[a % len(NAMES)]), lambda: col.getElementsByName(s), lambda: col.getElementsByClassName(clsq(s, b)),
              lambda: col.getElementById(s), lambda: col.getElementsByAttr(k, s), lambda: col.getElementsWithAttrValues(k, [s]),
              lambda: col.getElementsCustomFilter(attr_lambda(k, s)), lambda: col.getAllNodes(), lambda: col.getAllNodeUids(),
              lambda: col.contains(c.E(a)), lambda: col.containsUid(c.E(a).uid), lambda: col.filterAll(tagname=NAMES[a % len(NAMES)]),
              lambda: col.filterAllOr(id=s), lambda: col.filter(tagname=NAMES[a % len(NAMES)]), lambda: col.filterOr(id=s), lambda: col.all(),
              lambda: repr(col), lambda: col + [c.E(a)], lambda: col - [c.E(a)], lambda: col.filterCollection(attr_lambda(k, s)),
              lambda: col.getElementsByXPathExpression(XPATHS[a % len(XPATHS)])):
        try:
            r = f()
            scribble(r)
            out.append(type(r).__name__)
        except Exception as e:
            out.append(type(e).__name__)
    scribble(col)
    return out
ponly('collection', ALL, _collection)

OBS_NAMES = sorted(OBS)


def doc_ids(tree):
    """the id values of the case's tree, root first"""
    out = []

    def walk(n):
        if isinstance(n, (list, tuple)) and len(n) >= 5 and n[0] == 'e':
            for k, v in n[2]:
                if k == 'id' and v:
                    out.append(v)
            for c in n[4]:
                walk(c)
    walk(tree)
    return out


def world_sx(docs):
    c = Canon()
    for h in docs:
        seed(c, h)
    return _sx1([holder_sx(c, h) for h in docs])


def run_obs(docs, op):
    d, name, a, b, s = op
    f, _ = OBS[name]
    ctx = Ctx(docs, d)
    if not ctx.els:
        return None
    try:
        return f(ctx, a, b, s)
    except RecursionError:
        raise
    except Exception as e:
        return ('raised', type(e).__name__)


def out_sx(r):
    if isinstance(r, tuple) and len(r) == 2 and r[0] == 'str':
        return ['str', opt(r[1])]
    if isinstance(r, tuple) and len(r) == 2 and r[0] == 'attrs':
        return ['attrs', attrs_sx(r[1])]
    return '-'


def modelled(name):
    return OBS[name][1](0, 0)[0] in ('dochtml', 'outer', 'inner', 'starttag', 'attrs')


def reuse_ok(h):
    if not is_parser(h):
        return True
    try:
        h.parseStr('<i>z</i>')
        if h.getHTML() != '<i >z</i>':
            return False
        if len(h.getElementsByTagName('i')) != 1:
            return False
        return True
    except Exception:
        return False


def ident_snapshot(docs):
    """everything the property names, with object identities as they are (the documents keep the objects alive)"""
    out = []
    for h in docs:
        r = root_of(h)
        rows = []
        for e in elems(r):
            rows.append((id(e), e.uid, e.tagName, tuple(e.getAttributesList()), bool(e.isSelfClosing),
                         id(e.parentNode) if e.parentNode is not None else None,
                         id(e.ownerDocument) if e.ownerDocument is not None else None,
                         e.text, tuple(id(x) for x in e.children),
                         tuple(('e', id(b)) if is_tag(b) else ('t', b) for b in e.blocks),
                         tuple(e.classList), str(e.style), id(e.style), id(e._attributes)))
        if is_tag(h):
            out.append(('tree', h.outerHTML, tuple(rows)))
        else:
            try:
                html = h.getHTML()
            except ValueError:
                html = None
            idx = None
            if hasattr(h, '_idMap'):
                m = lambda mm: tuple((k, tuple(id(x) for x in v)) for k, v in mm.items())
                idx = (tuple((k, id(v)) for k, v in h._idMap.items()), m(h._nameMap), m(h._classNameMap), m(h._tagNameMap),
                       tuple((k, m(v)) for k, v in h._otherAttributeIndexes.items()),
                       (h.indexIDs, h.indexNames, h.indexClassNames, h.indexTagNames), tuple(sorted(h.otherAttributeIndexFunctions)))
            out.append(('parser', id(h), html, h.doctype, 'reset' in h.__dict__, h.encoding, id(h.root) if h.root is not None else None,
                        idx, tuple(rows)))
    return tuple(out)


def snap_diff(a, b):
    for i, (x, y) in enumerate(zip(a, b)):
        if x == y:
            continue
        if x[:-1] != y[:-1]:
            for j, (p, q) in enumerate(zip(x[:-1], y[:-1])):
                if p != q:
                    return 'document %d: field %d: %r -> %r' % (i, j, p, q)
        ra, rb = x[-1], y[-1]
        if len(ra) != len(rb):
            return 'document %d: %d -> %d elements' % (i, len(ra), len(rb))
        names = ('object', 'uid', 'tagName', 'attributes', 'isSelfClosing', 'parentNode', 'ownerDocument', 'text', 'children', 'blocks',
                 'classList', 'style', 'style object', 'attribute store')
        for k, (p, q) in enumerate(zip(ra, rb)):
            for n, u, v in zip(names, p, q):
                if u != v:
                    return 'document %d element %d: %s %r -> %r' % (i, k, n, u, v)
    return 'differ'


class Check(PropCheck):
    id = 'C16'
    stream = 'C16'
    exhaustive_in = ()
    rule = ('sequences of 1-30 observers drawn from %d named observers of the public read API (element navigation / text / '
            'identity / attribute views / serialisers / searches / filter / XPath, style object, parser searches with and without '
            'index and root=, getHTML / getFormattedHTML / getMiniHTML, the four formatters over the output, TagCollection '
            'methods and operators, cloneNode / copy / deepcopy, pickle with every protocol; fresh containers are scribbled on) '
            'on a random C01 tree held detached or by a plain / indexed (16 configurations + attribute indexes) / validating '
            'parser, interleaved with observers on a second unrelated document; every single observer is also run alone on '
            'fixed documents. A case is non-trivial when it runs >= 2 observers or one that synchronises an attribute store.'
            % len(OBS))
    assumptions = ['purity of the observers the model renders as pure is established by the correspondence stream only',
                   'the process-wide XPath expression cache is not part of any document and is not observed here (C15)']

    def __init__(self):
        self.gen = c17.Check()

    # ---- generation -------------------------------------------------------------------------
    def fixed_docs(self):
        rich = E('div', [('id', 'x'), ('class', 'a b'), ('style', 'color: red')], False, [
            T('t'), E('p', [('name', 'n'), ('title', 'main'), ('class', 'a')], False, [T('x'), E('b', [('data-k', 'k1')], False, [T('u')]), T('&amp;')]),
            E('br', [], True, []), E('input', [('checked', None), ('name', 'n')], False, []),
            E('span', [('style', 'font-weight: bold'), ('id', 'e1')], True, []),
            E('a', [('href', 'x'), ('class', 'k')], False, [T('<!--c-->'), E('li', [], False, [])])])
        multi = E(WRAPPER, [], False, [E('p', [('class', 'a')], False, [T('x')]), T('mid'), E('div', [('id', 'x')], False, [E('em', [], False, [])])])
        # several elements per value and several values per attribute under the attributes that get an index (a query answered
        # from an index must not touch the lists the index holds)
        many = E('div', [('id', 'm'), ('title', 't1'), ('data-k', 'k1')], False, [
            E('p', [('data-k', 'k1'), ('title', 't2'), ('name', 'n1')], False, [T('a')]),
            E('p', [('data-k', 'k2'), ('title', 't1'), ('name', 'n2')], False, [E('b', [('data-k', 'k2'), ('title', 't3')], False, [T('b')])]),
            E('span', [('data-k', 'k3'), ('title', 't2'), ('name', 'n1')], False, [T('c')])])
        return [('plain', rich), ('indexed', rich), ('validating', rich), ('detached', rich), ('indexed', multi), ('plain', multi),
                ('indexed', many)]

    def cases(self, tier, rng):
        second = E('section', [('id', 'other'), ('class', 'o'), ('style', 'float: left')], False, [T('o'), E('b', [('class', 'a')], False, [T('x')])])
        k = 0
        for holder, tree in self.fixed_docs():
            for name in OBS_NAMES:
                k += 1
                ops = [[0, name, k % 7, (k // 7) % 11, VALUES[k % len(VALUES)]]]
                if k % 3 == 0:
                    ops.append([1, name, 1, k % 5, 'o'])
                if 'ById' in name:
                    # the ids that occur, the root element's own first (asked twice: a lookup that repairs or forgets an
                    # entry shows at the second)
                    ops = [[0, name, k % 7, (k // 7) % 11, i] for i in ('x', 'x', 'e1', 'm', 'nosuch')]
                if tree[1] == 'div' and tree[2][:1] == [['id', 'm']] and 'AttrValues' in name:
                    # the document with several values per indexed attribute: the attribute asked about is an indexed one
                    ops = [[0, name, k % 4, (ATTRS.index('data-k'), ATTRS.index('title'))[k % 2], ('k1', 't1')[k % 2]]]
                yield Case({'holder': holder, 'idx': [1, 1, 1, 1], 'attr_idx': (['data-k', 'title'] if tree[2][:1] == [['id', 'm']] else ['data-k']) if holder == 'indexed' else [],
                            'doctype': 'DOCTYPE html' if k % 2 else None, 'tree': tree, 'tree2': second, 'ops': ops}, 'exhaustive')
        # converting dot names (colSpan, span, maxLength, tabIndex, size, cols, ...) read on elements whose attribute text is
        # not what the conversion expects: a read returns a converted value, it does not repair the attribute
        odd = E('form', [('method', 'Two'), ('autocomplete', 'maybe')], False, [
            E('td', [('colspan', 'two'), ('rowspan', '')], False, [T('a')]), E('td', [('colspan', '-3'), ('rowspan', '99999')], False, []),
            E('col', [('span', 'two')], False, []), E('col', [('span', None)], False, []),
            E('textarea', [('maxlength', 'x'), ('cols', ''), ('rows', '-1'), ('tabindex', 'q')], False, [T('t')]),
            E('input', [('maxlength', '-9'), ('size', 'big'), ('tabindex', ''), ('spellcheck', 'maybe')], False, [])])
        for holder in ('plain', 'indexed', 'validating', 'detached'):
            for i in range(7):
                for name in ('el.dot-special', 'el.dot'):
                    yield Case({'holder': holder, 'idx': [1, 1, 1, 1], 'attr_idx': [], 'doctype': None, 'tree': odd, 'tree2': second,
                                'ops': [[0, name, i, 0, 'x']]}, 'exhaustive')
        n = 6000 if tier == 'thorough' else 1400
        for i in range(n):
            yield Case(self.random_case(rng, big=(tier == 'thorough' and i % 5 == 0)), 'random')

    def random_case(self, rng, big=False):
        holder = rng.choice(('detached', 'plain', 'indexed', 'indexed', 'validating'))
        parsed = holder != 'detached'
        g = self.gen
        budget = [rng.choice((2, 3, 5, 8, 12)) if not big else rng.choice((15, 25))]
        tree = g.gen_tree(rng, parsed, 0, budget)
        doctype = None
        if parsed:
            if rng.random() < 0.25:
                roots = [tree]
                for _ in range(rng.choice((1, 2))):
                    if rng.random() < 0.3:
                        roots.append(T(rng.choice(['x', ' mid ', '&amp;'])))
                    roots.append(g.gen_tree(rng, parsed, 1, [3]))
                tree = E(WRAPPER, [], False, roots)
            if rng.random() < 0.4:
                doctype = rng.choice(('DOCTYPE html', 'doctype html'))
        tree2 = g.gen_tree(rng, True, 0, [rng.choice((1, 3, 5))])
        tail = None
        if parsed and tree[1] != WRAPPER and rng.random() < 0.2:
            tail = rng.choice(['&Jerry', '<', '<span class=', '<!-- open', '&#12', '</'])
        attr_idx = []
        if holder == 'indexed' and rng.random() < 0.4:
            attr_idx = rng.sample(c17.ATTR_INDEXABLE, rng.choice((1, 2)))
        n = n_elements(tree)
        ops = []
        for _ in range(rng.choice((1, 2, 3, 5, 8, 12, 20, 30))):
            name = rng.choice(OBS_NAMES)
            d = 1 if rng.random() < 0.2 else 0
            s = rng.choice(VALUES + ATTRS + STYLE_PROPS)
            if name in ('el.getAttribute', 'el.hasAttribute', 'el.attributes.get', 'el.attributes[k]', 'el.in-attributes',
                        'el.attributesDOM.getNamedItem', 'el.attributesDOM[k]'):
                s = rng.choice(ATTRS)
            elif name in ('style.prop', 'el.getStyle'):
                s = rng.choice(STYLE_PROPS)
            elif 'ById' in name and rng.random() < 0.7:
                ids = doc_ids(tree)
                if ids:
                    s = ids[0] if rng.random() < 0.4 else rng.choice(ids)       # the root's own id often
            ops.append([d, name, rng.randrange(max(n, 1)), rng.randrange(40), s])
        pre = []
        if rng.random() < 0.4:
            for _ in range(rng.choice((1, 1, 2, 3))):
                k = rng.choice(('appendText', 'appendChild', 'setAttribute', 'setAttribute', 'removeAttribute', 'addClass', 'removeChild'))
                if k == 'appendText':
                    e = [k, rng.choice(('Z', '', '&amp;'))]
                elif k == 'appendChild':
                    e = [k, rng.choice(('em', 'br', 'div'))]
                elif k == 'setAttribute':
                    kk = rng.choice(('title', 'id', 'class', 'style', 'data-k', 'name', 'spellcheck'))
                    e = [k, kk, rng.choice(c17.CLASS_VALUES if kk == 'class' else c17.STYLE_VALUES + c17.ODD_STYLE if kk == 'style' else c17.PLAIN_VALUES)]
                elif k == 'removeAttribute':
                    e = [k, rng.choice(('class', 'style', 'id', 'title'))]
                elif k == 'addClass':
                    e = [k, rng.choice(('zz', 'a', 'b'))]
                else:
                    e = [k, rng.choice((0, 0, 1))]
                pre.append([rng.randrange(max(n, 1)), e])
        return {'holder': holder, 'idx': [rng.randint(0, 1) for _ in range(4)] if holder == 'indexed' else [1, 1, 1, 1],
                'attr_idx': attr_idx, 'doctype': doctype, 'tree': tree, 'tree2': tree2, 'pre': pre, 'ops': ops, 'tail': tail}

    def nontrivial(self, d):
        return len(d['ops']) >= 2 or any(OBS[o[1]][1](0, 0) != ['read', 'none'] for o in d['ops'])

    def features(self, d):
        fs = ['holder:' + d['holder'], 'ops:' + ('1' if len(d['ops']) == 1 else '2-5' if len(d['ops']) <= 5 else '6-15' if len(d['ops']) <= 15 else '16-30')]
        if d['holder'] == 'indexed':
            fs.append('attr-indexes:%d' % len(d.get('attr_idx', [])))
        for o in d['ops']:
            fs.append('obs:' + o[1])
            fs.append('on-doc:%d' % o[0])
            fs.append('foot:' + ' '.join(str(x) for x in OBS[o[1]][1](0, 0)[:2] if not isinstance(x, int)))
        for e in walk(d['tree']):
            if e[1] == WRAPPER:
                fs.append('multi-root')
            for k, v in e[2]:
                if k.lower() in ('class', 'style'):
                    fs.append('attr:' + k.lower())
        if d.get('doctype'):
            fs.append('doctype')
        fs.append('history:%d' % len(d.get('pre', [])))
        for at, op in d.get('pre', []):
            fs.append('history:' + op[0])
        return sorted(set(fs))

    def shrink(self, d):
        ops = d['ops']
        pre = d.get('pre', [])
        for i in range(len(pre)):
            n = dict(d)
            n['pre'] = pre[:i] + pre[i + 1:]
            yield n
        for i in range(len(ops)):
            if len(ops) > 1:
                n = dict(d)
                n['ops'] = ops[:i] + ops[i + 1:]
                yield n
        for v in c17.Check.shrink(self.gen, {'tree': d['tree'], 'holder': d['holder'], 'doctype': d.get('doctype'), 'attr_idx': d.get('attr_idx', []),
                                             'edit': {'side': 'orig', 'at': 0, 'op': ['appendText', 'Z']}}):
            if 'edit' in v and v['edit']['op'] == ['appendText', 'Z'] and v['edit']['at'] == 0:
                n = dict(d)
                n['tree'] = v['tree']
                n['holder'] = v['holder']
                n['doctype'] = v.get('doctype')
                n['attr_idx'] = v.get('attr_idx', [])
                yield n
        if d['tree2'][4] or d['tree2'][2]:
            n = dict(d)
            n['tree2'] = E('i')
            yield n
            for v in c17.Check.shrink(self.gen, {'tree': d['tree2'], 'holder': 'plain', 'doctype': None, 'attr_idx': [],
                                                 'edit': {'side': 'orig', 'at': 0, 'op': ['appendText', 'Z']}}):
                if v['holder'] == 'plain' and v['tree'] is not d['tree2'] and v['edit']['at'] == 0:
                    n = dict(d)
                    n['tree2'] = v['tree']
                    yield n

    # ---- both sides --------------------------------------------------------------------------
    def encode(self, d):
        g = self.gen
        ops = []
        for dd, name, a, b, s in d['ops']:
            if name in PARSER_ONLY and dd == 0 and d['holder'] == 'detached':
                ops.append([dd, 'read', 'none'])        # no parser to ask: the observer is skipped
            else:
                ops.append([dd] + list(OBS[name][1](a, b)))
        pre = []
        for at, op in d.get('pre', []):
            pre.append([at, op[0]] + [str(x) if isinstance(x, int) else enc(x) for x in op[1:]])
        return sx(d['holder'], [1 if x else 0 for x in d['idx']], [enc(a) for a in d.get('attr_idx', [])], opt(d.get('doctype')),
                  g.enc_tree(d['tree']), g.enc_tree(d['tree2']), pre, ops)

    def build(self, d):
        """both documents; document 0 then gets its history: one full read, then the `pre` edits (no reindex)"""
        h0 = build_holder(d)
        h1 = build_holder({'holder': 'plain', 'tree': d['tree2'], 'doctype': None, 'idx': [1, 1, 1, 1]})
        docs = [h0, h1]
        if d.get('pre'):
            world_sx(docs)
            for at, op in d['pre']:
                c17.apply_edit(h0, at, op, reindex=False)
        return docs

    def impl(self, d):
        try:
            docs = self.build(d)
        except AttributeError:
            return sx('build-raised')
        s0 = world_sx(docs)
        out = ['ok', s0]
        prev = s0
        for op in d['ops']:
            r = run_obs(docs, op)
            s = world_sx(docs)
            o = out_sx(r) if modelled(op[1]) else '-'
            out.append(['=' if s == prev else s, o])
            prev = s
        out.append(['reuse'] + ['ok' if reuse_ok(h) else 'broken' for h in docs])
        return sx(*out)

    # ---- the property itself on the library ---------------------------------------------------
    def oracle(self, d):
        try:
            docs = self.build(d)
        except AttributeError:
            return None
        # (A) step by step, identities included
        s0 = ident_snapshot(docs)
        for n, op in enumerate(d['ops']):
            try:
                r = run_obs(docs, op)
            except RecursionError:
                return ('observer-recursion', 'observer %d %r' % (n, op[1]))
            s = ident_snapshot(docs)
            if s != s0:
                return ('writes', 'observer %d %s(%r, %r, %r) on document %d: %s' % (n, op[1], op[2], op[3], op[4], op[0], snap_diff(s0, s)))
        for i, h in enumerate(docs):
            lp = c17.link_problems(h, h if is_parser(h) else None)
            if lp:
                return ('writes', 'after the observers, document %d: %s' % (i, lp))
        # (C) the parsers can parse again
        for i, h in enumerate(docs):
            if not reuse_ok(h):
                return ('not-reusable', 'document %d: the parser cannot parse another document after %r' % (i, [o[1] for o in d['ops']]))
        # (B) the same observers with nobody looking in between, compared with a document nobody has observed
        docs2 = self.build(d)
        for op in d['ops']:
            run_obs(docs2, op)
        fresh = self.build(d)
        a, b = world_sx(docs2), world_sx(fresh)
        if a != b:
            return ('writes', 'after the whole sequence (no snapshots in between) the documents differ from freshly built ones: %s'
                    % self._text_diff(b, a))
        return None

    @staticmethod
    def _text_diff(a, b):
        i = next((k for k in range(min(len(a), len(b))) if a[k] != b[k]), min(len(a), len(b)))
        return '...%s  vs  ...%s' % (a[max(0, i - 60):i + 60], b[max(0, i - 60):i + 60])
