"""
C15 — XPath results do not depend on evaluation history, caching or threads.

Stream `C15`: histories of compile / evaluate events over a pool of expressions (valid, invalid, failing at run
time) and a few trees, run on the real process-wide cache (module constants patched from the harness to 3/1 for the
exhaustive part, shipped bound otherwise) and on the Lean model of `_cache.py` + `XPathExpression.__init__`.
After *every* event both sides show: the outcome, the recency list (as expression indices), the key set of the map.
A second case kind runs 2–16 threads (labelled support run: C15c is the theorem, this watches its assumptions).
"""
import hashlib
import itertools
import signal
import sys
import threading

from ..core import PropCheck, Case, sx, enc

# ------------------------------------------------------------------------------------------------
# fixed material for the exhaustive part: 5 expressions (3 valid, 1 failing at run time, 1 invalid), 2 trees

TREES_SMALL = [
    '<html><body><div n="1" id="a"><span n="2">x</span><span n="3">y</span></div><div n="4"><p n="5">z</p></div></body></html>',
    '<div n="1"><p n="2"><span n="3">q</span></p><span n="4"></span></div>',
]
EXPRS_SMALL = ['//span', '//div[@n < 4]', '//p/parent::*', '//span[@zz < 3]', '//div[@]']

NAMES = ['div', 'span', 'p', 'b', '*']


class SelfDeadlock(BaseException):
    pass


class ProbeLock(object):
    """Stand-in for the cache lock in single-threaded histories: an `acquire` while the lock is held can never
    succeed there, so it raises instead of hanging the check."""

    def __init__(self):
        self._l = threading.Lock()

    def acquire(self, blocking=True, timeout=-1):
        if not self._l.acquire(False):
            raise SelfDeadlock()
        return True

    def release(self):
        self._l.release()

    def locked(self):
        return self._l.locked()

    def __enter__(self):
        self.acquire()
        return self

    def __exit__(self, *a):
        self.release()


class Hang(BaseException):
    pass


class time_limit(object):
    """Safety net: a blocking call that never returns (a lock left held, say) becomes a `Hang` instead of a hung check.
    Lock.acquire in the main thread is interruptible by signals."""

    def __init__(self, seconds):
        self.seconds = seconds

    def _fire(self, *a):
        raise Hang()

    def __enter__(self):
        self.usable = threading.current_thread() is threading.main_thread()
        if self.usable:
            self.old = signal.signal(signal.SIGALRM, self._fire)
            signal.alarm(self.seconds)

    def __exit__(self, *a):
        if self.usable:
            signal.alarm(0)
            signal.signal(signal.SIGALRM, self.old)


def sha(text):
    return hashlib.sha1(text.encode('utf-8')).hexdigest()


class Lib(object):
    """Access to the real library: parsed trees (cached per text), the cache singleton, canonical results."""
    _trees = {}

    def __init__(self):
        import AdvancedHTMLParser
        from AdvancedHTMLParser.xpath import _cache, XPathExpression
        self.AHP = AdvancedHTMLParser
        self.mod = _cache
        self.cache = _cache.XPathExpressionCache
        self.XPathExpression = XPathExpression

    def tree(self, html):
        t = Lib._trees.get(html)
        if t is None:
            p = self.AHP.AdvancedHTMLParser()
            p.parseStr(html)
            order = {}
            for r in p.getRootNodes():
                for e in [r] + list(r.getAllChildNodes()):
                    order.setdefault(e.uid, len(order))
            t = (p, order)
            Lib._trees[html] = t
        return t

    def clear(self, lock=None):
        self.cache.cachedCompiledExpressions = {}
        self.cache.recentCachedExpressionStrs = []
        self.cache.cacheLock = lock if lock is not None else threading.Lock()

    def canon(self, tree, fn):
        """Run fn() -> TagCollection; canonical outcome string."""
        try:
            res = fn()
        except SelfDeadlock:
            raise
        except Exception as e:
            return 'e' + type(e).__name__
        order = tree[1]
        return 'r' + '.'.join(str(order.get(x.uid, 'x')) for x in res)


_fresh_memo = {}


def fresh_tables(lib, exprs, trees):
    """oks[e], cerr[e] (class of the compile error), results[e][t]: every expression compiled with an empty cache
    and evaluated once per tree by a compiled object of its own. Computed twice — the second time with the expressions
    in reverse order — and required to agree: an outcome that depends on what was compiled before (state kept outside the
    expression cache) is the property failing, and would otherwise poison the reference."""
    k = (tuple(exprs), tuple(trees))
    got = _fresh_memo.get(k)
    if got is not None:
        return got
    first = _fresh_tables_once(lib, list(exprs), trees)
    rev = _fresh_tables_once(lib, list(exprs)[::-1], trees)
    second = tuple(x[::-1] for x in rev)
    got = first
    if first != second:
        for i, e in enumerate(exprs):
            if (first[1][i], first[2][i]) != (second[1][i], second[2][i]):
                _unstable[k] = ('expression %r compiled alone on an emptied cache: first %r, later %r'
                                % (e, first[2][i] or first[1][i], second[2][i] or second[1][i]))
                break
    if len(_fresh_memo) > 64:
        _fresh_memo.clear()
    _fresh_memo[k] = got
    return got


_unstable = {}


def solo_unstable(exprs, trees):
    return _unstable.get((tuple(exprs), tuple(trees)))


def _fresh_tables_once(lib, exprs, trees):
    saved = (lib.cache.cachedCompiledExpressions, lib.cache.recentCachedExpressionStrs, lib.cache.cacheLock)
    oks, cerr, results = [], [], []
    try:
        for e in exprs:
            row = []
            ok, ce = 1, None
            for th in trees:
                t = lib.tree(th)
                lib.clear(ProbeLock())
                try:
                    x = lib.XPathExpression(e)
                except (Exception, SelfDeadlock) as ex:
                    ok, ce = 0, type(ex).__name__
                    row.append('c' + ce)
                    continue
                try:
                    row.append(lib.canon(t, lambda: x.evaluate(t[0])))
                except SelfDeadlock:
                    row.append('deadlock')
            if not trees:
                lib.clear(ProbeLock())
                try:
                    lib.XPathExpression(e)
                except (Exception, SelfDeadlock) as ex:
                    ok, ce = 0, type(ex).__name__
            oks.append(ok)
            cerr.append(ce)
            results.append(row)
    finally:
        lib.cache.cachedCompiledExpressions, lib.cache.recentCachedExpressionStrs, lib.cache.cacheLock = saved
    return (oks, cerr, results)


class Patched(object):
    """Patch the module constants (read at call time by the library) and install a lock; restore on exit."""

    def __init__(self, lib, bound, lock):
        self.lib, self.bound, self.lock = lib, bound, lock

    def __enter__(self):
        m = self.lib.mod
        self.saved = (m.MAX_CACHED_EXPRESSIONS, m.CLEAR_AT_ONE_TIME)
        if self.bound is not None:
            m.MAX_CACHED_EXPRESSIONS, m.CLEAR_AT_ONE_TIME = self.bound
        self.lib.clear(self.lock)
        return (m.MAX_CACHED_EXPRESSIONS, m.CLEAR_AT_ONE_TIME)

    def __exit__(self, *a):
        m = self.lib.mod
        m.MAX_CACHED_EXPRESSIONS, m.CLEAR_AT_ONE_TIME = self.saved
        self.lib.clear()


def do_event(lib, d, cerr, slots, ev):
    """One event on the real library -> outcome string ('ok', 'cerr', 'cerr!X', 'noslot', 'r…', 'e…')."""
    kind = ev[0]
    if kind == 'ev':
        if ev[1] >= len(slots):
            return 'noslot'
        t = lib.tree(d['trees'][ev[2]])
        x = slots[ev[1]]
        return lib.canon(t, lambda: x.evaluate(t[0]))
    e = ev[1]
    text = d['exprs'][e]
    if kind == 'new':
        try:
            x = lib.XPathExpression(text)
        except SelfDeadlock:
            raise
        except Exception as ex:
            return 'cerr' if type(ex).__name__ == cerr[e] else 'cerr!' + type(ex).__name__
        slots.append(x)
        return 'ok'
    # 'q': what every entry point does — construct from the text, evaluate
    t = lib.tree(d['trees'][ev[2]])
    p = t[0]
    via = ev[3] if len(ev) > 3 else 0
    if via == 1:
        # Parser.getElementsByXPathExpression: one call; an exception is the constructor's exactly when the expression
        # does not compile on its own (table `cerr`)
        out = lib.canon(t, lambda: p.getElementsByXPathExpression(text))
        if cerr[e] is not None and out.startswith('e'):
            return 'cerr' if out[1:] == cerr[e] else 'cerr!' + out[1:]
        return out
    try:
        x = lib.XPathExpression(text)
    except SelfDeadlock:
        raise
    except Exception as ex:
        return 'cerr' if type(ex).__name__ == cerr[e] else 'cerr!' + type(ex).__name__
    return lib.canon(t, lambda: x.evaluate(p))


def cache_view(lib, keymap):
    c = lib.cache
    recent = [keymap.get(k, 999) for k in c.recentCachedExpressionStrs]
    keys = sorted(keymap.get(k, 999) for k in c.cachedCompiledExpressions)
    return recent, keys


def simulate(d, valid=None):
    """Reference recency simulation, used only for the input-distribution histogram (features)."""
    bound = d.get('bound') or (10, 3)
    mx, cl = bound
    recent = []
    hits = misses = evictions = 0
    evs = d['events'] if d['kind'] == 'hist' else [e for th in d['threads'] for e in th]
    for ev in evs:
        if ev[0] == 'ev':
            continue
        e = ev[1]
        if e in recent:
            hits += 1
            recent.remove(e)
            recent.append(e)
        else:
            misses += 1
            if valid is None or valid[e]:
                recent.append(e)
                if len(recent) > mx:
                    evictions += 1
                    recent = recent[-(mx - cl):] if mx - cl > 0 else recent
    return hits, misses, evictions


class Check(PropCheck):
    id = 'C15'
    stream = 'C15'
    extra_modules = ('AHP.Props.XPathEndToEnd',       # C14 + C15 composed: text, any cache history, denotation
                     'AHP.Props.C15Code')             # the methods of xpath/_cache.py themselves, interpreted in Lean, = Cache.get / Cache.set
    exhaustive_in = ('thorough',)
    rule = ('histories of compile / evaluate / reuse events on the process-wide compiled-expression cache: every sequence of '
            '6 query events (all prefixes observed) over 5 expressions (3 valid, 1 failing at run time, 1 invalid) with the '
            'bound patched to 3/1 (thorough; quick: every sequence of 5 and a seeded 1/6 slice of length 6), seeded random '
            'histories of 2000 events over 40 generated expressions x 5 trees with the shipped bound, shorter random '
            'histories with bounds 3/1, 4/2, 5/4 and shipped, and labelled thread runs (2-16 threads, switch interval 1 us); '
            'a case is non-trivial when it has a cache hit and an eviction (or, for the short exhaustive ones, a repeat)')
    assumptions = [
        'sha1 keys are collision-free on the expressions in play (the model keys the cache by the expression itself)',
        'the critical sections of _cache.py are atomic (threading.Lock) and evaluation never writes to compiled operations: '
        'not exhibited by the model, watched by the labelled thread runs and by reuse events',
        'solo results (fresh compile on an emptied cache) are taken from the library itself; what they should be is C14',
    ]

    def __init__(self):
        self._lib = None

    @property
    def lib(self):
        if self._lib is None:
            self._lib = Lib()
        return self._lib

    # ---- generation ---------------------------------------------------------------------------
    def cases(self, tier, rng):
        # 1. exhaustive: bound 3/1, 5 expressions, query events on tree 0
        n = 6 if tier == 'thorough' else 5
        for combo in itertools.product(range(5), repeat=n):
            yield Case({'kind': 'hist', 'bound': [3, 1], 'exprs': EXPRS_SMALL, 'trees': TREES_SMALL,
                        'events': [['q', e, 0] for e in combo]}, 'exhaustive')
        if tier != 'thorough':
            all6 = list(itertools.product(range(5), repeat=6))
            for combo in rng.sample(all6, len(all6) // 6):
                yield Case({'kind': 'hist', 'bound': [3, 1], 'exprs': EXPRS_SMALL, 'trees': TREES_SMALL,
                            'events': [['q', e, 0] for e in combo]}, 'exhaustive-slice')
        # 2. mixed event kinds on the small universe (new / ev / q via both entry points), bound 3/1
        for _ in range(3000 if tier == 'thorough' else 300):
            evs = []
            for _ in range(rng.randint(1, 10)):
                evs.append(self.rand_event(rng, 5, 2))
            yield Case({'kind': 'hist', 'bound': [3, 1], 'exprs': EXPRS_SMALL, 'trees': TREES_SMALL, 'events': evs}, 'random-small')
        # 3. long random histories, shipped bound
        for _ in range(40 if tier == 'thorough' else 4):
            yield Case(self.rand_history(rng, 2000, None), 'random-long')
        # 4. medium histories with assorted bounds
        for _ in range(600 if tier == 'thorough' else 60):
            b = rng.choice([[3, 1], [4, 2], [5, 4], [2, 1], None, None])
            yield Case(self.rand_history(rng, rng.randint(20, 150), b), 'random-medium')
        # 5. thread runs
        for i in range(24 if tier == 'thorough' else 6):
            nt = rng.choice([2, 3, 4, 8, 16]) if i else 16
            b = rng.choice([[3, 1], None])
            pool = self.rand_pool(rng, 12)
            trees = [self.rand_tree(rng) for _ in range(2)]
            ths = []
            for _ in range(nt):
                ths.append([self.rand_event(rng, len(pool), 2, slots=False) for _ in range(rng.randint(20, 60))])
            sched = [i for i, th in enumerate(ths) for _ in range(2 * len(th))]
            rng.shuffle(sched)
            yield Case({'kind': 'threads', 'bound': b, 'exprs': pool, 'trees': trees, 'threads': ths, 'sched': sched}, 'threads')
        for i in range(8 if tier == 'thorough' else 3):
            yield Case(self.hot_threads(rng, 8, 400 if tier == 'thorough' else 300), 'threads-hot')

    HOT = ['//p[last()]', '//p[position() = last()]', '//span[last() - 1]', '//*[last() > 2]', '//p[position() < last()]',
           '//div/p[last()]', '//span[contains(@title, "v-" || @rel)]', '//p[@n = last()]', '//span[position() = 2]',
           '//div[last()]/span[last()]']

    def fan_tree(self, rng):
        """parents with *different* numbers of same-named children: element-dependent values (last(), position(), attribute
        concatenations) differ from parent to parent and from tree to tree"""
        out = []
        for k in range(rng.randint(3, 6)):
            kids = []
            for j in range(rng.randint(1, 7)):
                nm = rng.choice(['p', 'p', 'span'])
                rel = rng.choice('abc')
                kids.append('<%s n="%d" rel="%s" title="v-%s">%s</%s>' % (nm, rng.randint(1, 7), rel, rng.choice('abc'), rng.choice(['', 't']), nm))
            out.append('<div n="%d">%s</div>' % (k, ''.join(kids)))
        return '<div n="0">%s</div>' % ''.join(out)

    def hot_threads(self, rng, nt, per_thread):
        """a thread run in which every thread evaluates the same few element-dependent expressions (compiled operations
        shared through the cache) many times, each thread mostly on its own tree"""
        trees = [self.fan_tree(rng) for _ in range(4)]
        ths = []
        for i in range(nt):
            ths.append([['q', rng.randrange(len(self.HOT)), i % 4 if rng.random() < 0.9 else rng.randrange(4), rng.randrange(2)]
                        for _ in range(per_thread)])
        sched = [i for i, th in enumerate(ths) for _ in range(2 * len(th))]
        rng.shuffle(sched)
        return {'kind': 'threads', 'bound': None, 'exprs': list(self.HOT), 'trees': trees, 'threads': ths, 'sched': sched}

    def rand_event(self, rng, ne, nt, recent=None, slots=True):
        r = rng.random()
        if recent and rng.random() < 0.5:
            e = rng.choice(recent[-12:])
        else:
            e = rng.randrange(ne)
        if r < 0.55:
            return ['q', e, rng.randrange(nt), rng.randrange(2)]
        if r < 0.75 or not slots:
            return ['new', e]
        return ['ev', rng.randrange(6) if rng.random() < 0.8 else rng.randrange(40), rng.randrange(nt)]

    def rand_history(self, rng, n, bound):
        pool = self.rand_pool(rng, 40)
        trees = [self.rand_tree(rng) for _ in range(5)]
        evs = []
        used = []
        for _ in range(n):
            ev = self.rand_event(rng, len(pool), len(trees), used)
            if ev[0] != 'ev':
                used.append(ev[1])
            evs.append(ev)
        return {'kind': 'hist', 'bound': bound, 'exprs': pool, 'trees': trees, 'events': evs}

    def rand_tree(self, rng):
        n = rng.randint(3, 14)
        kids = {i: [] for i in range(n)}
        for i in range(1, n):
            kids[rng.randrange(max(0, i - 4), i)].append(i)
        names = ['div', 'span', 'p', 'b']

        def mk(i):
            nm = 'div' if i == 0 else rng.choice(names)
            attrs = ' n="%d"' % rng.randint(0, 6)
            if rng.random() < 0.4:
                attrs += ' id="%s"' % rng.choice('abc')
            if rng.random() < 0.3:
                attrs += ' class="%s"' % rng.choice(['x', 'x y', 'y'])
            if rng.random() < 0.5:
                rel = rng.choice('abc')
                attrs += ' rel="%s" title="%s"' % (rel, rng.choice(['v-' + rel, 'v-' + rel, 'v-a', 'v-b', rel, 'a  b', 'a b', 'a\tb']))
            txt = rng.choice(['', 't', ' u ', 'hi'])
            return '<%s%s>%s%s</%s>' % (nm, attrs, txt, ''.join(mk(k) for k in kids[i]), nm)
        return mk(0)

    def rand_pool(self, rng, n):
        pool = []
        seen = set()
        if rng.random() < 0.6 and n >= 6:
            # twins that differ only in a white-space *run inside a string literal* (a key that folds white space confuses them)
            name = rng.choice(['*', 'p', 'span', 'div'])
            for lit in rng.sample(['a  b', 'a b', 'a\tb'], 2):
                e = '//%s[@title = "%s"]' % (name, lit)
                seen.add(e)
                pool.append(e)
        if rng.random() < 0.6 and n >= 8:
            # a constant the compiler folds (2 * 3, 1 + 1) as the LEFT operand of an operator whose right side is known per element
            # only: the folded constant lives in the compiled form that the cache shares — evaluating must not change it
            name = rng.choice(['*', 'p', 'span', 'div', 'b'])
            for e in rng.sample(['//%s[2 * 3 - @n = 4]', '//%s[1 + 1 + @n = 4]', '//%s[(1 + 1) * @n = 4]', '//%s[2 * 3 - @n > 1]',
                                 '//%s[10 div 5 + @n = 5]'], 2):
                e = e % name
                if e not in seen:
                    seen.add(e)
                    pool.append(e)
        while len(pool) < n:
            r = rng.random()
            if r < 0.7:
                e = self.rand_valid(rng)
            elif r < 0.85:
                e = rng.choice(['//div[', 'div', '//div[@]', '//p[(@n = 1]', '/', '//span[concat(@n)]', '//b[contains(@n)]',
                                '//*[1 < "a"]', '//div[@n = ]]', '//1', '//div/[1]']) + ' ' * rng.randint(0, 3)
            else:
                e = '//%s[%s]' % (rng.choice(NAMES), rng.choice(['@zz < 3', '"a" and 1', '@n +', '@id * 2 = 4', '@n and @n',
                                                                 '@n || "a" = "1"', 'text()', '@n = 1 or 2']))
            if e not in seen:
                seen.add(e)
                pool.append(e)
                # twins that differ only in letter case / white space *inside a string literal*, or in a later character:
                # distinct expressions with distinct results that a sloppy cache key (lower-cased, stripped, truncated) confuses
                if r < 0.7 and len(pool) < n and rng.random() < 0.35:
                    twin = None
                    if '"x"' in e:
                        twin = e.replace('"x"', rng.choice(['"X"', '" x"']), 1)
                    elif '= "' in e:
                        twin = e.replace('= "', '= " ', 1)
                    elif e[-1].isdigit():
                        twin = e[:-1] + str((int(e[-1]) + 1) % 10)
                    if twin and twin not in seen:
                        seen.add(twin)
                        pool.append(twin)
        return pool

    def rand_valid(self, rng):
        steps = []
        for i in range(rng.randint(1, 3)):
            lead = rng.choice(['/', '//', '//'])
            axis = rng.choice(['', '', '', 'parent::', 'ancestor::', 'descendant::', 'child::', 'ancestor-or-self::'])
            name = rng.choice(NAMES)
            pred = ''
            r = rng.random()
            if r < 0.2:
                pred = '[%d]' % rng.randint(1, 3)
            elif r < 0.5:
                pred = '[@n %s %d]' % (rng.choice(['=', '!=', '<', '>']), rng.randint(0, 6))
            elif r < 0.6:
                pred = '[@id = "%s"]' % rng.choice('abc')
            elif r < 0.7:
                pred = '[contains(@class, "%s")]' % rng.choice('xy')
            elif r < 0.75:
                pred = '[@n + %d = %d and @n != %d]' % (rng.randint(0, 3), rng.randint(0, 6), rng.randint(0, 6))
            elif r < 0.87:
                # operands / function arguments that depend on the element under test: a compiled form that remembers a
                # value computed for one element or tree answers wrongly on the next
                pred = rng.choice(['[contains(@title, "v-" || @rel)]', '[@title = concat("v-", @rel)]', '[@title = "v-" || @rel]',
                                   '[contains(concat(@title, "!"), @rel || "!")]', '[normalize-space(@title) = "v-" || @rel]',
                                   '[@n + @n = %d]' % rng.randint(0, 8), '[contains(text(), @id)]',
                                   '[contains("v-a v-b", @title)]'])
            steps.append(lead + axis + name + pred)
        return ''.join(steps)

    def _tables(self, d):
        return fresh_tables(self.lib, d['exprs'], d['trees'])

    def nontrivial(self, d):
        h, m, ev = simulate(d, self._tables(d)[0])
        if d['kind'] == 'hist' and len(d['events']) <= 6:
            return h > 0 or ev > 0
        return h > 0 and ev > 0

    def features(self, d):
        fs = ['kind:' + d['kind'], 'bound:' + ('shipped' if d['bound'] is None else '%d/%d' % tuple(d['bound']))]
        h, m, ev = simulate(d, self._tables(d)[0])
        if h:
            fs.append('has-hit')
        if ev:
            fs.append('has-eviction')
        if ev > 1:
            fs.append('many-evictions')
        evs = d['events'] if d['kind'] == 'hist' else [e for th in d['threads'] for e in th]
        for k in set(e[0] for e in evs):
            fs.append('event:' + k)
        if any(e[0] == 'q' and len(e) > 3 and e[3] == 1 for e in evs):
            fs.append('via:parser-entry-point')
        if d['kind'] == 'threads':
            fs.append('threads=%d' % len(d['threads']))
        else:
            n = len(evs)
            fs.append('events:' + ('<=6' if n <= 6 else '<=20' if n <= 20 else '<=200' if n <= 200 else '>200'))
        try:
            oks, cerr, results = self._tables(d)
            used = set(e[1] for e in evs if e[0] != 'ev')
            if any(not oks[e] for e in used):
                fs.append('expr:invalid')
            if any(oks[e] and any(r.startswith('e') for r in results[e]) for e in used):
                fs.append('expr:fails-at-run-time')
        except Exception:
            pass
        return fs

    @staticmethod
    def _compress(d):
        """Drop the expressions and trees no event uses (renumbering)."""
        evs = d['events'] if d['kind'] == 'hist' else [e for th in d['threads'] for e in th]
        ue = sorted(set(e[1] for e in evs if e[0] != 'ev'))
        ut = sorted(set(e[2] for e in evs if e[0] != 'new'))
        if len(ue) == len(d['exprs']) and len(ut) == len(d['trees']):
            return None
        me = {e: i for i, e in enumerate(ue)}
        mt = {t: i for i, t in enumerate(ut)}

        def ren(e):
            if e[0] == 'new':
                return ['new', me[e[1]]]
            if e[0] == 'ev':
                return ['ev', e[1], mt[e[2]]]
            return ['q', me[e[1]], mt[e[2]]] + list(e[3:])
        out = dict(d, exprs=[d['exprs'][e] for e in ue], trees=[d['trees'][t] for t in ut])
        if d['kind'] == 'hist':
            out['events'] = [ren(e) for e in d['events']]
        else:
            out['threads'] = [[ren(e) for e in th] for th in d['threads']]
        return out

    def shrink(self, d):
        c = self._compress(d)
        if c is not None and len(d['events'] if d['kind'] == 'hist' else d['threads']) <= 12:
            yield c
        if d['kind'] == 'hist':
            evs = d['events']
            n = len(evs)
            if n > 8:
                for k in (n // 2, n // 4):
                    for i in range(0, n, k):
                        yield dict(d, events=evs[:i] + evs[i + k:])
            for i in range(len(evs)):
                yield dict(d, events=evs[:i] + evs[i + 1:])
        else:
            ths = d['threads']
            for i in range(len(ths)):
                if len(ths) > 2:
                    yield dict(d, threads=ths[:i] + ths[i + 1:], sched=[])
            for i, th in enumerate(ths):
                if len(th) > 1:
                    yield dict(d, threads=ths[:i] + [th[:len(th) // 2]] + ths[i + 1:])

    # ---- both sides ---------------------------------------------------------------------------
    def encode(self, d):
        oks, cerr, results = self._tables(d)
        b = 'shipped' if d['bound'] is None else list(d['bound'])
        rs = [[enc(r) for r in row] for row in results]

        def ev(e):
            return [e[0]] + list(e[1:3])
        if d['kind'] == 'hist':
            return sx('hist', b, oks, rs, [ev(e) for e in d['events']])
        return sx('threads', b, oks, rs, [[ev(e) for e in th] for th in d['threads']], list(d.get('sched', [])))

    def _keymap(self, d):
        return {sha(t): i for i, t in enumerate(d['exprs'])}

    def run_hist(self, d, on_event=None):
        """Run a history on the real cache; returns rows (outcome, recent, keys, flags)."""
        lib = self.lib
        oks, cerr, results = self._tables(d)
        keymap = self._keymap(d)
        rows = []
        with Patched(lib, d['bound'], ProbeLock()) as bound:
            slots = []
            for ev in d['events']:
                flags = ''
                try:
                    with time_limit(20):
                        out = do_event(lib, d, cerr, slots, ev)
                except (SelfDeadlock, Hang):
                    out = 'deadlock'
                    lib.cache.cacheLock = ProbeLock()
                if lib.cache.cacheLock.locked():
                    flags = 'L'
                    lib.cache.cacheLock = ProbeLock()
                recent, keys = cache_view(lib, keymap)
                rows.append((out, recent, keys, flags, len(lib.cache.recentCachedExpressionStrs),
                             len(lib.cache.cachedCompiledExpressions)))
        return rows, bound

    _thread_memo = (None, None)

    def run_threads(self, d):
        """One concurrent run per case (shared by `impl` and `oracle`: the run is not deterministic)."""
        import json
        k = json.dumps(d, sort_keys=True)
        if Check._thread_memo[0] == k:
            return Check._thread_memo[1]
        r = self._run_threads(d)
        Check._thread_memo = (k, r)
        return r

    def _run_threads(self, d):
        import time
        lib = self.lib
        oks, cerr, results = self._tables(d)
        outs = [[] for _ in d['threads']]
        errors = []
        bad_points = []          # invariant violations seen between events (checked under the lock)
        with Patched(lib, d['bound'], threading.Lock()) as bound:
            barrier = threading.Barrier(len(d['threads']))
            c = lib.cache
            lock = c.cacheLock

            def check_point(i, n):
                if not lock.acquire(timeout=5):
                    return
                try:
                    recent = list(c.recentCachedExpressionStrs)
                    keys = list(c.cachedCompiledExpressions)
                finally:
                    lock.release()
                if len(recent) > bound[0] or len(keys) > bound[0]:
                    bad_points.append(('bound', i, n, len(recent), len(keys)))
                elif len(set(recent)) != len(recent) or set(recent) != set(keys):
                    bad_points.append(('inv', i, n, len(recent), len(keys)))

            def work(i, evs):
                slots = []
                try:
                    barrier.wait(10)
                    for n, ev in enumerate(evs):
                        outs[i].append(do_event(lib, d, cerr, slots, ev))
                        check_point(i, n)
                except BaseException as e:      # noqa
                    errors.append('%d:%s' % (i, type(e).__name__))
            old = sys.getswitchinterval()
            sys.setswitchinterval(1e-6)
            try:
                ths = [threading.Thread(target=work, args=(i, evs), daemon=True) for i, evs in enumerate(d['threads'])]
                for t in ths:
                    t.start()
                # a deadlock is "no thread finished an event for 6 s" (a loaded machine is slow, not hung), 120 s at most
                start = last_change = time.time()
                done = -1
                while any(t.is_alive() for t in ths):
                    for t in ths:
                        t.join(0.05)
                    now = time.time()
                    n_done = sum(len(o) for o in outs)
                    if n_done != done:
                        done, last_change = n_done, now
                    if now - last_change > 6 or now - start > 120:
                        break
                hung = [i for i, t in enumerate(ths) if t.is_alive()]
            finally:
                sys.setswitchinterval(old)
            recent = list(c.recentCachedExpressionStrs)
            keys = list(c.cachedCompiledExpressions)
            inv = [len(recent) <= bound[0] and not any(b[0] == 'bound' for b in bad_points), len(keys) <= bound[0],
                   len(set(recent)) == len(recent) and not any(b[0] == 'inv' for b in bad_points),
                   set(recent) == set(keys), not lock.locked()]
        return outs, inv, hung, errors, bound

    def impl(self, d):
        if d['kind'] == 'hist':
            rows, _ = self.run_hist(d)
            return sx(*[[self._atom(o + ('+' + f if f else '')), r, k] for (o, r, k, f, _, _) in rows])
        outs, inv, hung, errors, _ = self.run_threads(d)
        if hung or errors:
            return '(threads-failed hung=%s errors=%s)' % (hung, errors)
        return sx(*([[self._atom(o) for o in th] for th in outs] + [['inv'] + [1 if b else 0 for b in inv]]))

    @staticmethod
    def _atom(o):
        return o if o in ('ok', 'cerr', 'noslot') else enc(o)

    # ---- the property itself on the library ----------------------------------------------------
    def expected(self, d, tables, slots_e, ev):
        oks, cerr, results = tables
        if ev[0] == 'ev':
            if ev[1] >= len(slots_e):
                return 'noslot'
            return results[slots_e[ev[1]]][ev[2]]
        e = ev[1]
        if not oks[e]:
            return 'cerr'
        if ev[0] == 'new':
            slots_e.append(e)
            return 'ok'
        return results[e][ev[2]]

    def oracle(self, d):
        tables = self._tables(d)
        if solo_unstable(d['exprs'], d['trees']):
            return ('result-differs', solo_unstable(d['exprs'], d['trees']))
        if d['kind'] == 'hist':
            rows, bound = self.run_hist(d)
            slots_e = []
            for n, (ev, (out, recent, keys, flags, nrecent, nkeys)) in enumerate(zip(d['events'], rows)):
                exp = self.expected(d, tables, slots_e, ev)
                if out == 'deadlock':
                    return ('deadlock', 'event %d %r: the cache lock was acquired while still held (a single thread would hang)' % (n, ev))
                if out != exp:
                    return ('result-differs', 'event %d %r: through this history %r, alone (fresh compile, empty cache) %r'
                            % (n, ev, out, exp))
                if flags:
                    return ('lock-held', 'event %d %r left the cache lock held' % (n, ev))
                if nrecent > bound[0] or nkeys > bound[0]:
                    return ('bound', 'after event %d %r the cache holds %d keys / %d recency entries, bound %d'
                            % (n, ev, nkeys, nrecent, bound[0]))
            return None
        outs, inv, hung, errors, bound = self.run_threads(d)
        if hung:
            return ('deadlock', 'threads %r did not finish within the timeout' % (hung,))
        if errors:
            return ('thread-raised', 'threads raised outside an event: %r' % (errors,))
        for i, (evs, got) in enumerate(zip(d['threads'], outs)):
            slots_e = []
            for n, ev in enumerate(evs):
                exp = self.expected(d, tables, slots_e, ev)
                if n >= len(got) or got[n] != exp:
                    return ('thread-result', 'thread %d event %d %r: concurrently %r, alone %r'
                            % (i, n, ev, got[n] if n < len(got) else None, exp))
        if not (inv[0] and inv[1]):
            return ('bound', 'after the thread run the cache exceeds its bound %d' % bound[0])
        if not inv[4]:
            return ('lock-held', 'after the thread run the cache lock is still held')
        return None
