"""
C01 — serialise -> parse round trip preserves the document tree.
Stream `C01`: documents built through the public constructor / append API (or obtained from a parse), serialised,
parsed back, serialised again; plus the strict lexer against the real tokenizer on every string met on the way.
"""
import itertools

from ..core import PropCheck, Case, sx, enc, opt, parse_sx
from .. import parsing
from ..parsing import VOID, WRAPPER

ORDINARY = ['div', 'span', 'p', 'a', 'ul', 'li', 'b', 'table', 'td', 'h1', 'section']
PRE = ['pre', 'code']
RAW = ['script', 'style']
PLAIN_ATTRS = ['id', 'title', 'href', 'name', 'lang', 'x_y', 'onclick']
BOOL_ATTRS = ['checked', 'disabled', 'hidden', 'selected']
DATA_ATTRS = ['data-x', 'data-long-name']
VALUES = ['v', '', 'a b', 'x"y', "it's", 'a<b', 'a>b', '1', 'é☃', 'k  l', ' pad ', 'a=b', 'a & b', 'x&', '"', "'\"", '<>', 'tab\there', 'v1\r\nv2', 'a\rb']
# + white space of `str.isspace()` beyond ASCII / C's isspace (U+00A0, U+3000, U+2003, U+0085, \x1c): leading, trailing, inner
CLASS_VALUES = ['k', 'k l', ' k  l ', 'A b-c', '', 'a\tb', None, '\xa0k', 'k\u3000', 'k\xa0l', '\u2003k l\x1c', '\x85', ' \xa0 k']
STYLE_VALUES = ['color: red', 'color:red;float:left', ' padding-top : 5px ; ', 'display: none;;', '', 'Color: RED', 'a:b;a:c', None,
                '\xa0color: red', 'color\u3000:\u2003red', 'color: red;\x1c', 'a:\x85b\xa0;c:d', 'top: 1\xa0px']
PLAIN_TEXT = ['x', ' ', '\n', 'hello world', '  two  ', 'a > b', 'é☃', '\t', 'x\ny', '1 < 2', 'a & b', '"q"', "it's", '\n  ', '>',
              '\xa0', '\u3000', 'x\xa0y', '\x1c', '\x85\n', '\u2003x', 'l1\r\nl2', 'x\ry', '\r\n']
ATOMS = ['&amp;', '&nbsp;', '&lt;', '&#65;', '&#x41;', '&#8364;', '<!--c-->', '<!-- spaced -->', '<!---->', '<!--a-b-->',
         '<!--x > y-->', '<!--multi\nline-->', '<!--cr\r\nlf-->',
         # comments that are nearly, but not, IE conditionals (those are stripped from every input before it is parsed)
         '<!-- if the user is logged in -->', '<!--if-->', '<!--iframe x-->', '<!--x [if y]>z-->', '<!-- IF x-->', '<!--[IF x]-->']
RAW_TEXT = ['x', 'if (a<b && c) {}', 'a { color: red }', '\n  var s = "</div>";\n', '<!-- x -->', 'a &amp; b', '']
DOCTYPES = ['DOCTYPE html', 'doctype html', 'DOCTYPE html PUBLIC "-//W3C//DTD XHTML 1.0//EN"']


def blocks_sx(blocks):
    out = []
    for b in blocks:
        if b[0] == 't':
            out.append(sx('t', enc(b[1])))
        else:
            out.append(sx('e', enc(b[1]), [[enc(k), opt(v)] for k, v in b[2]], 1 if b[3] else 0, *_raw(blocks_sx(b[4]))))
    return out


class _Raw(str):
    pass


def _raw(items):
    return items


_doc_for_create = []


def build_block(AHP, b, via_create=False):
    if b[0] == 't':
        return b[1]
    if via_create and not b[2] and bool(b[3]) == (b[1].lower() in c02_void()):
        # `document.createElement(NAME)` in another letter case: a detached, lower-cased, empty element — void names self-closing
        if not _doc_for_create:
            _doc_for_create.append(AHP.AdvancedHTMLParser())
        el = _doc_for_create[0].createElement(b[1].upper() if len(b[1]) % 2 else b[1].capitalize())
        for k in b[4]:
            el.appendBlock(build_block(AHP, k, via_create))
        return el
    # with `create`, the public constructor gets the name in upper case too (same element as with the lower-case name)
    el = AHP.AdvancedTag(b[1].upper() if via_create else b[1], [tuple(a) for a in b[2]], bool(b[3]))
    for k in b[4]:
        el.appendBlock(build_block(AHP, k, via_create))
    return el


def c02_void():
    from ..parsing import VOID
    return VOID


def build_block_late(AHP, b, late_edits):
    """`build_block` for the `late` variant: the last plain attribute (valid, not duplicated, not class/style/boolean) of an
    element is left out at construction and recorded in `late_edits`; it is set after the document was serialised once."""
    if b[0] == 't':
        return b[1]
    from .c02 import BOOLEAN
    attrs = [tuple(a) for a in b[2]]
    keys = [a[0].lower() for a in attrs]
    pick = None
    for j in range(len(attrs) - 1, -1, -1):
        k, v = attrs[j]
        kl = k.lower()
        if (keys.count(kl) == 1 and isinstance(v, str) and v != '' and kl not in BOOLEAN and kl not in ('class', 'style', 'spellcheck')
                and kl.replace('-', '').isalnum() and kl[:1].isalpha()):
            pick = j
            break
    el = AHP.AdvancedTag(b[1], [a for j, a in enumerate(attrs) if j != pick], bool(b[3]))
    if pick is not None:
        late_edits.append((el, attrs[pick][0], attrs[pick][1]))
    for k in b[4]:
        el.appendBlock(build_block_late(AHP, k, late_edits))
    return el


def build_block_edited(AHP, b, later):
    """`build_block` for the `edited` variant: plain attributes, class and style start with *other* values; `later`
    collects the in-place edits (setAttribute, removeClass, style.setProperty) that lead to the values of `b`. The edits
    run after the whole document has been serialised once, so the tree under test is one that was looked at and then
    changed through the DOM API (a serialiser that keeps anything from an earlier look shows here)."""
    if b[0] == 't':
        return b[1]
    from .c02 import BOOLEAN
    keys = [a[0].lower() for a in b[2]]
    attrs = []
    edits = []
    for k, v in b[2]:
        kl = k.lower()
        if keys.count(kl) > 1 or v is None or v == '' or kl in BOOLEAN or kl == 'spellcheck' or not kl.replace('-', '').isalnum():
            attrs.append((k, v))
        elif kl == 'class':
            # the route `zz v` + removeClass('zz') must lead to the names of `v`: not when `v` has white space other than
            # U+0020 at an end (`str.strip()` removes it from the ends of the whole value only; behind `zz ` it stays
            # in the name — also for a tab)
            words = lambda s: [w for w in s.strip().split(' ') if w]
            if v.strip() and 'zz' not in v.split() and words('zz ' + v) == ['zz'] + words(v):
                attrs.append((k, 'zz ' + v))
                edits.append(('class', None))
            else:
                attrs.append((k, v))
        elif kl == 'style':
            rendered = str(AHP.AdvancedTag('div', [('style', v)]).style)
            pairs = [tuple(x.split(': ', 1)) for x in rendered.split('; ')] if rendered else []
            if pairs and all(len(x) == 2 and x[1].strip() for x in pairs):
                attrs.append((k, '; '.join('%s: zz' % n for n, _ in pairs)))
                edits.append(('style', pairs))
            else:
                attrs.append((k, v))
        else:
            attrs.append((k, 'zz'))
            edits.append((kl, v))
    el = AHP.AdvancedTag(b[1], attrs, bool(b[3]))
    if edits:
        later.append((el, edits))
    for k in b[4]:
        el.appendBlock(build_block_edited(AHP, k, later))
    return el


def build_doc(d):
    """Build the document through the public API; returns the parser."""
    import AdvancedHTMLParser as AHP
    # `encoding` says how *bytes* given to the parser are decoded; serialising returns the tree's own characters whatever it is
    p = AHP.AdvancedHTMLParser(encoding=d['enc']) if d.get('enc') else AHP.AdvancedHTMLParser()
    blocks = d['blocks']
    later = []
    mk = (lambda b: build_block_edited(AHP, b, later)) if d.get('via') == 'edited' else (lambda b: build_block(AHP, b, bool(d.get('create'))))
    late_edits = []
    if d.get('late'):
        mk = lambda b: build_block_late(AHP, b, late_edits)
    if len(blocks) == 1 and blocks[0][0] == 'e':
        root = mk(blocks[0])
    else:
        root = AHP.AdvancedTag(WRAPPER)
        for b in blocks:
            root.appendBlock(mk(b))
    p.setRoot(root)
    if d.get('doctype'):
        p.setDoctype(d['doctype'])
    if d.get('late'):
        # an attribute is ADDED after the document was looked at: every element with a class and another plain attribute
        # was built without its last plain attribute; the look materialises what it materialises, then the attribute arrives
        p.getHTML()
        for el, k, v in late_edits:
            el.setAttribute(k, v)
    if d.get('via') == 'edited':
        p.getHTML()
        for el in all_elements(root):
            el.outerHTML
        for el, edits in later:
            for k, v in edits:
                if k == 'class':
                    el.removeClass('zz')
                elif k == 'style':
                    for n, val in v:
                        el.style.setProperty(n, val)
                else:
                    el.setAttribute(k, v)
    return p


def reparser(d):
    import AdvancedHTMLParser as AHP
    cls = AHP.IndexedAdvancedHTMLParser if d.get('rekind') == 'indexed' else AHP.AdvancedHTMLParser
    p2 = cls(encoding=d['enc']) if d.get('enc') else cls()
    if d.get('reuse'):
        # what the object parsed before: a whole other document / inputs that leave no element behind but are not nothing
        # (a doctype alone, an input cut inside its first tag, a stray end tag, blank text)
        before = {True: '<!DOCTYPE html PUBLIC "old"><section class="old"><i>junk<b>', 'doctype': '<!DOCTYPE old>',
                  'cut': '<section class="old" title="', 'stray': '</i>', 'blank': ' \n'}[d['reuse']]
        try:
            p2.parseStr(before)
        except Exception:       # noqa
            pass
    prov = d.get('reprov')
    if prov:
        # the parser object is a copy: unpickled, copy.copy, copy.deepcopy of a new (or used) parser
        import copy
        import pickle
        p2 = {'pickle': lambda x: pickle.loads(pickle.dumps(x)), 'copy': copy.copy, 'deepcopy': copy.deepcopy}[prov](p2)
    return p2


_tmp = []


def reparse(d, p2, html):
    """parse the serialisation back: parseStr, or — `refile` — the same characters written to a file (UTF-8, byte for byte)
    and read through parseFile(path)"""
    if not d.get('refile') or d.get('enc') not in (None, 'utf-8'):
        p2.parseStr(html)
        return
    import atexit
    import os
    import shutil
    import tempfile
    if not _tmp:
        _tmp.append(tempfile.mkdtemp(prefix='ahp-c01-'))
        atexit.register(shutil.rmtree, _tmp[0], True)
    path = os.path.join(_tmp[0], 'doc.html')
    with open(path, 'wb') as fh:
        fh.write(html.encode('utf-8', 'surrogatepass'))
    p2.parseFile(path)


def all_elements(root):
    out = [root]
    for c in root.children:
        out.extend(all_elements(c))
    return out


def class_before_other(toks):
    """Recognised on the first serialisation alone: some start tag lists `class` before another attribute."""
    for t in toks:
        if t[0] in ('start', 'startend'):
            names = [a[0] for a in t[2]]
            if 'class' in names and names.index('class') != len(names) - 1:
                return True
    return False


def class_last(t):
    """py_tree with the class attribute of every element moved to the end of its list (nothing else touched)."""
    if t[0] == 't':
        return t
    attrs = [a for a in t[2] if a[0] != 'class'] + [a for a in t[2] if a[0] == 'class']
    return (t[0], t[1], attrs, t[3], [class_last(k) for k in t[4]])


def same_tokens_up_to_class_position(a, b):
    if len(a) != len(b):
        return False
    for x, y in zip(a, b):
        if x[0] in ('start', 'startend') and y[0] == x[0]:
            mv = lambda l: [list(p) for p in l if p[0] != 'class'] + [list(p) for p in l if p[0] == 'class']
            if x[1] != y[1] or mv(x[2]) != mv(y[2]):
                return False
        elif list(x) != list(y):
            return False
    return True


def same_tree(a, b):
    """py_tree equality with '' == None on boolean attributes."""
    from .c02 import BOOLEAN
    if a[0] != b[0]:
        return False
    if a[0] == 't':
        return a[1] == b[1]
    if a[1] != b[1] or a[3] != b[3] or len(a[4]) != len(b[4]) or len(a[2]) != len(b[2]):
        return False
    for (k1, v1), (k2, v2) in zip(a[2], b[2]):
        if k1 != k2:
            return False
        if v1 != v2 and not (k1 in BOOLEAN and (v1 or None) == (v2 or None)):
            return False
    return all(same_tree(x, y) for x, y in zip(a[4], b[4]))


def strip_lead(t):
    kids = list(t[4])
    if kids and kids[0][0] == 't':
        rest = kids[0][1].lstrip()
        kids = ([('t', rest)] if rest else []) + kids[1:]
    return (t[0], t[1], t[2], t[3], kids)


def strip_after_doctype(html):
    if html.startswith('<!'):
        i = html.find('>')
        return html[:i + 1] + html[i + 1:].lstrip()
    return html


class Check(PropCheck):
    id = 'C01'
    stream = 'C01'
    extra_modules = ('AHP.Props.C01Code',)       # AdvancedTag.getStartTag itself, interpreted in Lean, = the hand model's startTagI
    exhaustive_in = ('quick', 'thorough')
    rule = ('documents over ordinary, void, preformatted and raw-text element names with 0-4 attributes (plain, boolean, value-less, '
            'class, style, data-*; values with spaces, both quotes, angle brackets, non-ASCII), text made of plain runs, entity / '
            'character references and comments, depth <= 6, single- and multi-root, with and without doctype; built through the '
            'constructor/append API and also obtained from a parse. ALL trees of at most 3 nodes (quick) / 4 nodes (thorough) on a '
            'reduced alphabet, seeded random beyond. Non-trivial: at least one attribute or nested element or reference; distinct '
            'by canonical JSON. Outside the domain (not generated): children of script/style, "<" followed by a name character in '
            'text, attribute values in which "&" starts a reference, white space after the doctype of a multi-root document.')
    assumptions = ['the stdlib tokenizer is modelled on the strict sub-language only (lexStrict); agreement with the real tokenizer is '
                   'checked on every string of the stream on which lexStrict answers',
                   'html.unescape is modelled on &quot; only']

    # ---- generation ------------------------------------------------------------------------------------------------
    def small_trees(self, n):
        """all forests of exactly n nodes over a reduced alphabet: nodes are elements div / br / (div with id) or text x"""
        if n == 0:
            yield []
            return
        for first in range(1, n + 1):
            for head in self.small_node(first):
                for rest in self.small_trees(n - first):
                    yield [head] + rest

    def small_node(self, n):
        if n == 1:
            yield ['t', 'x']
            yield ['t', '&amp;']
            yield ['e', 'br', [], True, []]
            yield ['e', 'div', [], False, []]
            yield ['e', 'div', [['id', 'a"b']], False, []]
            yield ['e', 'span', [['checked', None]], True, []]
        if n >= 2:
            for kids in self.small_trees(n - 1):
                yield ['e', 'div', [], False, kids]
                yield ['e', 'p', [['class', 'k l']], False, kids]

    def cases(self, tier, rng):
        maxn = 4 if tier == 'thorough' else 3
        for n in range(1, maxn + 1):
            for forest in self.small_trees(n):
                forest = self.merge_adjacent_ok(forest)
                if not any(b[0] == 'e' for b in forest):
                    continue
                for dt in (None, 'DOCTYPE html'):
                    yield Case({'doctype': dt, 'blocks': forest, 'via': 'api'}, 'exhaustive')
        n = 30000 if tier == 'thorough' else 3000
        for i in range(n):
            d = self.random_doc(rng)
            d['via'] = ('api', 'parse', 'edited')[i % 3] if i % 6 != 4 else 'api'
            if i % 4 == 1:
                d['reuse'] = True       # the serialisation is parsed by a parser object that parsed another document before
                if i % 8 == 5:
                    d['reuse'] = ('doctype', 'cut', 'stray', 'blank')[(i // 8) % 4]
            if i % 9 == 7:
                d['reprov'] = ('pickle', 'copy', 'deepcopy')[(i // 9) % 3]     # ... by a copied / unpickled parser object
            if i % 5 == 2:
                d['refile'] = True      # the serialisation goes through a file and parseFile(path)
            if i % 6 == 1:
                d['rekind'] = 'indexed'     # ... is parsed by the indexed parser
            if i % 4 == 3 and d['via'] == 'api':
                d['create'] = True      # attribute-less elements come from document.createElement(NAME)
            if i % 7 == 3:
                d['enc'] = ('ascii', 'iso-8859-1', 'utf-16')[(i // 7) % 3]      # a parser constructed for another byte encoding
            if i % 8 == 5 and d['via'] == 'api' and not d.get('create'):
                d['late'] = True        # the last plain attribute of every element is set after the document was serialised once
            yield Case(d, 'random')
        # the strict lexer against the real tokenizer on richly rendered token sequences (C02's renderer) and on
        # corrupted variants (on which lexStrict may answer none, never a different token list)
        from . import c02
        gen = c02.Check()
        for i in range(n // 2):
            text = c02.render(gen.random_tokens(rng), rng.randrange(1, 1 << 30))
            if i % 3 == 0 and text:
                chars = list(text)
                for _ in range(rng.randint(1, 3)):
                    j = rng.randrange(len(chars))
                    if rng.random() < 0.5:
                        del chars[j]
                    else:
                        # incl. white space that `\s` matches but the explicit sets of html.parser do not
                        chars.insert(j, rng.choice('<>&"\'=/;#! -\xa0\x0b\x1c\u3000\x85'))
                    if not chars:
                        break
                text = ''.join(chars)
            if 'xxxblank' in text.lower() or '<![' in text:
                continue
            yield Case({'via': 'lex', 'text': text}, 'random-lex')

    def merge_adjacent_ok(self, forest):
        return forest

    def random_attrs(self, rng):
        attrs = []
        used = set()
        for _ in range(rng.choice((0, 0, 1, 1, 2, 3, 4))):
            q = rng.random()
            if q < 0.15:
                k, v = 'class', rng.choice(CLASS_VALUES)
            elif q < 0.28:
                k, v = 'style', rng.choice(STYLE_VALUES)
            elif q < 0.42:
                k, v = rng.choice(BOOL_ATTRS), rng.choice(['', None, 'checked', 'x'])
            elif q < 0.52:
                k, v = rng.choice(DATA_ATTRS), rng.choice(VALUES)
            elif q < 0.62:
                k, v = rng.choice(PLAIN_ATTRS), None
            else:
                k, v = rng.choice(PLAIN_ATTRS), rng.choice(VALUES)
            if k in used and rng.random() < 0.8:
                continue
            used.add(k)
            if rng.random() < 0.05:
                k = k.upper()
            attrs.append([k, v])
        return attrs

    def random_text_blocks(self, rng, out):
        for _ in range(rng.choice((1, 1, 2, 3))):
            if rng.random() < 0.65:
                out.append(['t', rng.choice(PLAIN_TEXT)])
            else:
                out.append(['t', rng.choice(ATOMS)])

    def random_blocks(self, rng, depth, budget):
        out = []
        for _ in range(rng.choice((0, 1, 1, 2, 3, 4))):
            if budget[0] <= 0:
                break
            r = rng.random()
            if r < 0.4:
                self.random_text_blocks(rng, out)
                continue
            budget[0] -= 1
            r = rng.random()
            if r < 0.15:
                out.append(['e', rng.choice(VOID), self.random_attrs(rng), True, []])
            elif r < 0.22:
                out.append(['e', rng.choice(ORDINARY), self.random_attrs(rng), True, []])      # self-closed non-void
            elif r < 0.30:
                raw = rng.choice(RAW_TEXT)
                out.append(['e', rng.choice(RAW), self.random_attrs(rng), False, [['t', raw]] if raw else []])
            else:
                name = rng.choice(ORDINARY + PRE)
                kids = self.random_blocks(rng, depth + 1, budget) if depth < 6 else []
                out.append(['e', name, self.random_attrs(rng), False, kids])
        return out

    def random_doc(self, rng):
        budget = [rng.randint(1, 25)]
        multi = rng.random() < 0.35
        if multi:
            blocks = self.random_blocks(rng, 1, budget)
            if not any(b[0] == 'e' for b in blocks):
                blocks.append(['e', 'div', [], False, []])
            # a multi-root document has at least two top-level nodes that are not blank text
            if sum(1 for b in blocks if b[0] == 'e' or b[1].strip()) < 2:
                blocks.append(['e', 'span', [], False, [['t', 'y']]])
        else:
            kids = self.random_blocks(rng, 1, budget)
            blocks = [['e', rng.choice(ORDINARY + ['html']), self.random_attrs(rng), False, kids]]
        dt = rng.choice(DOCTYPES) if rng.random() < 0.4 else None
        if dt and (len(blocks) != 1 or blocks[0][0] != 'e'):
            # outside the domain: white space directly after the doctype of a multi-root document
            while blocks and blocks[0][0] == 't' and not blocks[0][1].strip():
                blocks = blocks[1:]
            if blocks and blocks[0][0] == 't' and blocks[0][1][:1].isspace():
                blocks[0] = ['t', blocks[0][1].lstrip() or 'x']
        return {'doctype': dt, 'blocks': blocks}

    def nontrivial(self, d):
        if d['via'] == 'lex':
            return '<' in d['text']

        def nt(b):
            return b[0] == 'e' and (b[2] or any(k[0] == 'e' for k in b[4]) or any(nt(k) for k in b[4])) or (b[0] == 't' and '&' in b[1])
        return any(nt(b) for b in d['blocks'])

    def features(self, d):
        if d['via'] == 'lex':
            return ['via:lex']
        fs = set((['reused-parser' + ('' if d.get('reuse') is True else ':' + str(d.get('reuse')))] if d.get('reuse') else []) + (['reparse-object:' + d['reprov']] if d.get('reprov') else []) + [f for f in ('refile', 'create') if d.get(f)] + (['reparse:indexed'] if d.get('rekind') else []) + (['encoding:' + d['enc']] if d.get('enc') else []) + ['via:' + d['via'], 'doctype' if d['doctype'] else 'no-doctype',
                  'single-root' if (len(d['blocks']) == 1 and d['blocks'][0][0] == 'e') else 'multi-root'])

        def walk(b, depth):
            if b[0] == 't':
                if b[1].startswith('<!--'):
                    fs.add('comment')
                elif b[1].startswith('&#'):
                    fs.add('charref')
                elif b[1].startswith('&') and b[1].endswith(';'):
                    fs.add('entity')
                return
            fs.add('depth>=%d' % min(depth, 6))
            if b[1] in VOID:
                fs.add('void')
            elif b[3]:
                fs.add('self-closed-nonvoid')
            if b[1] in RAW:
                fs.add('raw-text')
            if b[1] in PRE:
                fs.add('preformatted')
            for k, v in b[2]:
                if v is None:
                    fs.add('attr:valueless')
                elif k.lower() == 'class':
                    fs.add('attr:class')
                elif k.lower() == 'style':
                    fs.add('attr:style')
                elif k.lower() in BOOL_ATTRS:
                    fs.add('attr:boolean')
                elif '"' in v:
                    fs.add('attr:dquote')
                elif '<' in v or '>' in v:
                    fs.add('attr:angle')
                elif not v.isascii():
                    fs.add('attr:nonascii')
            for k in b[4]:
                walk(k, depth + 1)
        for b in d['blocks']:
            walk(b, 1)
        return sorted(fs)

    def shrink(self, d):
        if d['via'] == 'lex':
            t = d['text']
            for i in range(len(t)):
                yield dict(d, text=t[:i] + t[i + 1:])
            return
        blocks = d['blocks']

        def variants(bs):
            for i in range(len(bs)):
                yield bs[:i] + bs[i + 1:]
                b = bs[i]
                if b[0] == 'e':
                    if b[4]:
                        yield bs[:i] + b[4] + bs[i + 1:]
                    for j in range(len(b[2])):
                        yield bs[:i] + [[b[0], b[1], b[2][:j] + b[2][j + 1:], b[3], b[4]]] + bs[i + 1:]
                    for sub in variants(b[4]):
                        yield bs[:i] + [[b[0], b[1], b[2], b[3], sub]] + bs[i + 1:]
        for v in variants(blocks):
            if any(b[0] == 'e' for b in v):
                yield dict(d, blocks=v)
        if d['doctype']:
            yield dict(d, doctype=None)
        if d['via'] != 'api':
            yield dict(d, via='api')
        if d.get('reuse'):
            yield dict(d, reuse=False)
        if d.get('enc'):
            yield {k: v for k, v in d.items() if k != 'enc'}
        for flag in ('refile', 'rekind', 'create', 'reprov', 'late'):
            if d.get(flag):
                yield {k: v for k, v in d.items() if k != flag}

    # ---- both sides ------------------------------------------------------------------------------------------------
    def doc_of(self, d):
        """the document under test: built through the API, or the result of parsing that document's serialisation"""
        p = build_doc(d)
        if d['via'] == 'parse':
            import AdvancedHTMLParser as AHP
            html = p.getHTML()
            p = AHP.AdvancedHTMLParser()
            p.parseStr(html)
        return p

    def encode(self, d):
        if d['via'] == 'lex':
            return sx('lex', enc(d['text']))
        dd = d
        if d['via'] == 'parse' or d.get('late'):
            # the model is given the tree the library obtained from the parse (its own check of that parse is the
            # `api` variant of the same document) / the tree the history left (attribute order as the library lists it)
            p = self.doc_of(d)
            root = p.getRoot()
            t = parsing.py_tree(root)
            blocks = t[4] if t[1] == WRAPPER else [t]
            dd = {'doctype': p.doctype, 'blocks': self._from_py(blocks)}
        return sx('doc', opt(dd['doctype'] or None), *blocks_sx(dd['blocks']))

    def _from_py(self, blocks):
        return [['t', b[1]] if b[0] == 't' else ['e', b[1], [list(a) for a in b[2]], b[3], self._from_py(b[4])] for b in blocks]

    def impl(self, d):
        import AdvancedHTMLParser as AHP
        if d['via'] == 'lex':
            return self._toks(parsing.tokenize(d['text']))
        p = self.doc_of(d)
        html = p.getHTML()
        toks = parsing.tokenize(html)
        p2 = reparser(d)
        reparse(d, p2, html)
        root2 = p2.getRoot()
        second = root2 is not None and root2.tagName == WRAPPER
        back = sx('second' if second else 'first', parsing.doc_sx(p2))
        return sx(enc(html), parsing.canon_tree(p.getRoot()), self._toks(toks), back)

    def _toks(self, toks):
        return '(toks' + ''.join(' ' + parsing.tok_sx(t) for t in toks) + ')'

    def compare(self, model_out, impl_out, d):
        if model_out == impl_out:
            if d['via'] == 'lex':
                self.lexed = getattr(self, 'lexed', 0) + 1
            return None
        if d['via'] == 'lex':
            if model_out == 'nolex':
                self.lex_none = getattr(self, 'lex_none', 0) + 1
                return None
            return 'lexStrict %s, html.parser %s' % (model_out[:300], impl_out[:300])
        try:
            m, i = parse_sx(model_out), parse_sx(impl_out)
        except Exception:
            return 'unparsable output: model=%s impl=%s' % (model_out[:300], impl_out[:300])
        if d.get('late') and m[0] != i[0] and class_before_other(parsing.tokenize(self.doc_of(d).getHTML())):
            # the history left `class` before a later attribute: the model's trees keep class where the constructor puts it
            # (last), so it is given the normal form of this tree and only what the re-parse builds is compared — the
            # position itself is what the oracle judges (recorded finding C01-class-position-after-look)
            if m[3] != i[3]:
                return 're-parse (tree with class before another attribute): model %s impl %s' % (str(m[3])[:300], str(i[3])[:300])
            return None
        if m[0] != i[0]:
            return 'getHTML: model %s impl %s' % (m[0][:300], i[0][:300])
        if m[1] != i[1]:
            return 'tree: model %s impl %s' % (str(m[1])[:300], str(i[1])[:300])
        if m[2] == 'nolex':
            self.nolex = getattr(self, 'nolex', 0) + 1
            return None          # outside the strict sub-language: nothing to compare
        if m[2] != i[2]:
            return 'tokens of getHTML(): lexStrict %s, html.parser %s' % (str(m[2])[:300], str(i[2])[:300])
        if m[3] != i[3]:
            return 're-parse: model %s impl %s' % (str(m[3])[:300], str(i[3])[:300])
        return None

    def extra_evidence(self):
        return {'serialisations_outside_strict_lexer': getattr(self, 'nolex', 0),
                'lexer_stream_agreed': getattr(self, 'lexed', 0), 'lexer_stream_outside_sublanguage': getattr(self, 'lex_none', 0)}

    # ---- the property itself on the library ----------------------------------------------------------------------------
    def oracle(self, d):
        import AdvancedHTMLParser as AHP
        if d['via'] == 'lex':
            return None
        p = self.doc_of(d)
        root = p.getRoot()
        try:
            html = p.getHTML()
        except Exception as e:     # noqa
            return ('serialise-raises', 'getHTML raised %s: %s' % (type(e).__name__, e))
        if not isinstance(html, str):
            return ('not-a-string', 'getHTML returned %s' % type(html).__name__)
        for e in all_elements(root):
            for name in ('outerHTML', 'innerHTML'):
                try:
                    v = getattr(e, name)
                except Exception as ex:     # noqa
                    return ('serialise-raises', '%s of <%s> raised %s: %s' % (name, e.tagName, type(ex).__name__, ex))
                if not isinstance(v, str):
                    return ('not-a-string', '%s of <%s> is %s' % (name, e.tagName, type(v).__name__))
        p2 = reparser(d)
        try:
            reparse(d, p2, html)
        except Exception as e:     # noqa
            return ('reparse-raises', 'parseStr(getHTML()) raised %s: %s (html=%r)' % (type(e).__name__, e, html))
        r2 = p2.getRoot()
        if r2 is None:
            return ('tree', 'parseStr(getHTML()) parsed nothing (html=%r)' % html)
        t1, t2 = parsing.py_tree(root), parsing.py_tree(r2)
        if t1[1] == WRAPPER and t2[1] != WRAPPER and len(t1[4]) == 1:
            t1 = t1[4][0]
        multi_dt = bool(p.doctype) and t2[1] == WRAPPER
        if multi_dt:
            # outside the domain (property text): the white space that follows the doctype of a multi-root document
            t1, t2 = strip_lead(t1), strip_lead(t2)
        if not same_tree(t1, t2):
            if class_before_other(parsing.tokenize(html)) and same_tree(class_last(t1), class_last(t2)):
                return ('class-position', 'the first serialisation lists class before another attribute, the re-parsed tree lists '
                        'class last: %r -> %r' % (html, p2.getHTML()))
            return ('tree', 'round trip changed the tree: %r -> %r (html=%r)' % (t1, t2, html))
        if (p.doctype or None) != (p2.doctype or None):
            return ('doctype', 'doctype %r -> %r' % (p.doctype, p2.doctype))
        # anchor outside the library: the attributes of the re-parsed tree are those the case asked for (independent intake
        # reference of C02: lower-case names, invalid names dropped, last duplicate wins, class as a word list, style as a
        # name -> value mapping) — a round trip that is merely self-consistent (both trees wrong alike) shows here
        from . import c02

        def wanted(blocks):
            for b in blocks:
                if b[0] == 'e':
                    yield b
                    for x in wanted(b[4]):
                        yield x
        want_els = list(wanted(d['blocks']))
        got_els = [e for e in all_elements(r2) if e.tagName != WRAPPER]
        if len(want_els) == len(got_els):
            for w, e in zip(want_els, got_els):
                if not c02.attrs_match(c02.spec_attrs([tuple(a) for a in w[2]]), e.getAttributesList(), loose_bool=True):
                    return ('attributes', 'after the round trip <%s> lists %r, the document was built with %r'
                            % (e.tagName, e.getAttributesList(), w[2]))
        html2 = p2.getHTML()
        if multi_dt:
            html, html2 = strip_after_doctype(html), strip_after_doctype(html2)
        if html2 != html:
            if class_before_other(parsing.tokenize(html)) and same_tokens_up_to_class_position(parsing.tokenize(html), parsing.tokenize(html2)):
                return ('class-position', 'the first serialisation lists class before another attribute, the second lists it '
                        'last: %r -> %r' % (html, html2))
            return ('second-serialisation', 'getHTML() of the re-parsed tree differs: %r -> %r' % (html, html2))
        # element level: outerHTML of every element parses back to that element
        for e in all_elements(root)[:12]:
            if e.tagName == WRAPPER:
                continue
            oh = e.outerHTML
            p3 = AHP.AdvancedHTMLParser()
            try:
                p3.parseStr(oh)
            except Exception as ex:     # noqa
                return ('reparse-raises', 'parseStr(outerHTML) raised %s for %r' % (type(ex).__name__, oh))
            r3 = p3.getRoot()
            if r3 is None or not same_tree(parsing.py_tree(e), parsing.py_tree(r3)) or r3.outerHTML != oh:
                return ('element-round-trip', 'outerHTML %r parses back to %r' % (oh, None if r3 is None else r3.outerHTML))
        return None
