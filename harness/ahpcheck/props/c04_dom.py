"""
Shared machinery of the DOM-mutation checks C04 / C05 (and the fragment check C20):

  * the case format (seed tree, spare detached trees, history of calls) and its wire encoding;
  * `RefDoc`: a plain list-of-blocks reference document (no cached fields) driven by the documented effect of
    each call — used by the generators to keep the precondition of C04 and as C05's direct oracle;
  * `Live`: the same history executed on the real library, with uid <-> creation-index bookkeeping;
  * generators (small exhaustive universe, random histories).

Case data (JSON):
    {"kind": "det"|"doc"|"idoc", "seed": fn, "spares": [fn...], "ops": [op...]}
    fn     := "text" | [name, [[k, v|null]...], 0|1, kid...]
    op     := [opname, target, arg...]        element arguments are creation indices
    blk    := "text" | int          ref := null | blk          parsed := ["single", fn] | ["multi", fn...]
"""
import itertools

from ..core import enc, sx

VOID = ('br', 'hr', 'img', 'input', 'link', 'meta')
WRAPPER = 'xxxblank'

# ------------------------------------------------------------------------------------------------
# wire encoding


def fn_sx(f):
    if isinstance(f, str):
        return enc(f)
    name, attrs, sc = f[0], f[1], f[2]
    return [enc(name), [[enc(k), ('none' if v is None else enc(v))] for k, v in attrs], int(sc)] + [fn_sx(k) for k in f[3:]]


def blk_sx(b):
    return enc(b) if isinstance(b, str) else int(b)


def ref_sx(r):
    return 'none' if r is None else blk_sx(r)


def parsed_sx(p):
    return [p[0]] + [fn_sx(f) for f in p[1:]]


def op_sx(op):
    n = op[0]
    t = int(op[1])
    if n in ('appendText', 'removeText', 'removeTextAll'):
        return [n, t, enc(op[2])]
    if n == 'appendChild':
        return [n, t, 'none' if op[2] is None else int(op[2])]
    if n in ('appendBlock', 'removeBlock'):
        return [n, t, blk_sx(op[2])]
    if n in ('appendBlocks', 'removeBlocks'):
        return [n, t, [blk_sx(b) for b in op[2]]]
    if n == 'appendInnerHTML':
        return [n, t, parsed_sx(op[2])]
    if n in ('insertBefore', 'insertAfter'):
        return [n, t, blk_sx(op[2]), ref_sx(op[3])]
    if n == 'remove':
        return [n, t]
    if n == 'removeChild':
        return [n, t, int(op[2])]
    if n == 'removeChildren':
        return [n, t, [int(c) for c in op[2]]]
    if n == 'setAttribute':
        return [n, t, enc(op[2]), enc(op[3])]
    raise ValueError(n)


def encode_case(d):
    kind = 'det' if d['kind'] == 'det' else 'doc'
    return sx(kind, fn_sx(d['seed']), [fn_sx(s) for s in d['spares']], [op_sx(o) for o in d['ops']])


def fn_count(f):
    if isinstance(f, str):
        return 0
    return 1 + sum(fn_count(k) for k in f[3:])


def render_fn(f):
    """HTML text of a parsed node (plain attributes, text free of markup characters)."""
    if isinstance(f, str):
        return f
    name, attrs, sc = f[0], f[1], f[2]
    a = ''.join(' %s' % k if v is None else ' %s="%s"' % (k, v.replace('"', '&quot;')) for k, v in attrs)
    if sc:
        return '<%s%s />' % (name, a)
    if name in VOID:
        return '<%s%s>' % (name, a)
    return '<%s%s>%s</%s>' % (name, a, ''.join(render_fn(k) for k in f[3:]), name)


def render_parsed(p):
    return ''.join(render_fn(f) for f in p[1:])


# ------------------------------------------------------------------------------------------------
# values (return values / exceptions), canonical form shared with the driver


def val_none():
    return 'none'


def val_sx(v):
    """v: None | bool | ('el', i) | str | list | ('raise', kind)"""
    if v is None:
        return 'none'
    if v is True:
        return 'true'
    if v is False:
        return 'false'
    if isinstance(v, str):
        return enc(v)
    if isinstance(v, tuple):
        return [v[0], v[1] if isinstance(v[1], int) else v[1]]
    if isinstance(v, list):
        return ['list'] + [val_sx(x) for x in v]
    if isinstance(v, int):
        return v
    raise TypeError(repr(v))


# ------------------------------------------------------------------------------------------------
# the reference document: trees of plain blocks, no cached fields


class RNode(object):
    __slots__ = ('id', 'name', 'attrs', 'sc', 'blocks')

    def __init__(self, id, name, attrs, sc):
        self.id = id
        self.name = name
        self.attrs = [list(a) for a in attrs]
        self.sc = sc
        self.blocks = ['']          # an element starts with one empty text block


def is_valid_attr_name(n):
    if not n or not (n[0].isalpha() or n[0] == '_'):
        return False
    return all(c.isalnum() or c in '-_' for c in n)


class RefDoc(object):
    """Specification side: every call has exactly its documented effect on the block list of its target."""

    def __init__(self, d):
        self.nodes = {}
        self.next = 0
        self.roots = []
        self.doc_root = None
        r = self.build(d['seed'])
        self.roots.append(r)
        if d['kind'] != 'det':
            self.doc_root = r
        for s in d['spares']:
            self.roots.append(self.build(s))

    def build(self, f):
        name, attrs, sc = f[0], f[1], f[2]
        kids = f[3:]
        n = RNode(self.next, name.lower(), [(k.lower(), v) for k, v in attrs], (bool(sc) or name in VOID) and not kids)
        self.nodes[n.id] = n
        self.next += 1
        for k in kids:
            n.blocks.append(k if isinstance(k, str) else self.build(k))
        return n

    # ---- queries
    def parent_of(self, n):
        for p in self.nodes.values():
            for b in p.blocks:
                if b is n:
                    return p
        return None

    def is_root(self, n):
        return any(r is n for r in self.roots)

    def subtree_ids(self, n):
        out = [n.id]
        for b in n.blocks:
            if not isinstance(b, str):
                out.extend(self.subtree_ids(b))
        return out

    def root_of(self, n):
        while True:
            p = self.parent_of(n)
            if p is None:
                return n
            n = p

    def detached_for(self, target):
        """elements that may be handed to an append/insert on `target` (C04's precondition)"""
        troot = self.root_of(self.nodes[target])
        return [r.id for r in self.roots if r is not troot and r is not self.doc_root]

    def children(self, n):
        return [b for b in n.blocks if not isinstance(b, str)]

    def text(self, n):
        return ''.join(b for b in n.blocks if isinstance(b, str))

    def text_content(self, n):
        return ''.join(b if isinstance(b, str) else self.text_content(b) for b in n.blocks)

    def start_tag(self, n):
        a = ''.join(' %s' % k if v is None else ' %s="%s"' % (k, v.replace('"', '&quot;')) for k, v in n.attrs)
        return '<%s%s %s>' % (n.name, a, '/' if n.sc else '')

    def inner(self, n):
        if n.sc:
            return ''
        return ''.join(b if isinstance(b, str) else self.outer(b) for b in n.blocks)

    def outer(self, n):
        return self.start_tag(n) + self.inner(n) + ('' if n.sc else '</%s>' % n.name)

    def index_of(self, n, ref):
        for i, b in enumerate(n.blocks):
            if isinstance(ref, str):
                if isinstance(b, str) and b == ref:
                    return i
            elif not isinstance(b, str) and b.id == ref:
                return i
        return None

    # ---- the documented effect of each call; returns the documented return value
    def _take(self, c):
        n = self.nodes[c]
        assert self.is_root(n) and n is not self.doc_root, 'precondition: detached element'
        self.roots = [r for r in self.roots if r is not n]
        return n

    def _put(self, n, i, blk):
        if not isinstance(blk, str):
            blk = self._take(blk)
            assert n.id not in self.subtree_ids(blk), 'precondition: not an ancestor'
        n.blocks.insert(i, blk)
        n.sc = False

    def apply(self, op):
        name = op[0]
        n = self.nodes[op[1]]
        if name == 'appendText':
            self._put(n, len(n.blocks), op[2])
            return None
        if name == 'appendChild':
            if op[2] is None:
                return ('raise', 'KeyError')
            self._put(n, len(n.blocks), op[2])
            return ('el', op[2])
        if name == 'appendBlock':
            self._put(n, len(n.blocks), op[2])
            return self._blkval(op[2])
        if name == 'appendBlocks':
            for b in op[2]:
                self._put(n, len(n.blocks), b)
            return [self._blkval(b) for b in op[2]]
        if name == 'appendInnerHTML':
            for f in self.fragment_blocks(op[2]):
                if isinstance(f, str):
                    self._put(n, len(n.blocks), f)
                else:
                    self.roots.append(f)
                    self._put(n, len(n.blocks), f.id)
            return None
        if name in ('insertBefore', 'insertAfter'):
            blk, ref = op[2], op[3]
            if ref is None:
                self._put(n, len(n.blocks), blk)
                return self._blkval(blk)
            i = self.index_of(n, ref)
            if i is None:
                return ('raise', 'ValueError')
            self._put(n, i + (1 if name == 'insertAfter' else 0), blk)
            return self._blkval(blk)
        if name == 'removeText':
            return self._remove_text(n, op[2])
        if name == 'removeTextAll':
            out = []
            for i, b in enumerate(n.blocks):
                if isinstance(b, str) and op[2] in b:
                    out.append(b)
                    n.blocks[i] = b.replace(op[2], '')
            return out
        if name == 'remove':
            p = self.parent_of(n)
            if p is None:
                return False
            self._remove_child(p, n.id)
            return True
        if name == 'removeChild':
            return self._remove_child(n, op[2])
        if name == 'removeChildren':
            return [self._remove_child(n, c) for c in op[2]]
        if name == 'removeBlock':
            return self._remove_block(n, op[2])
        if name == 'removeBlocks':
            return [self._remove_block(n, b) for b in op[2]]
        if name == 'setAttribute':
            k, v = op[2], op[3]
            if not is_valid_attr_name(k):
                return ('raise', 'KeyError')
            k = k.lower()
            for a in n.attrs:
                if a[0] == k:
                    a[1] = v
                    break
            else:
                n.attrs.append([k, v])
            return None
        raise ValueError(name)

    def _blkval(self, b):
        return b if isinstance(b, str) else ('el', b)

    def _remove_text(self, n, s):
        for i, b in enumerate(n.blocks):
            if isinstance(b, str) and s in b:
                n.blocks[i] = b.replace(s, '')
                return b
        return None

    def _remove_child(self, n, c):
        i = self.index_of(n, c)
        if i is None:
            return None
        ch = n.blocks.pop(i)
        self.roots.append(ch)
        return ('el', c)

    def _remove_block(self, n, b):
        if isinstance(b, str):
            return self._remove_text(n, b)
        return self._remove_child(n, b)

    def fragment_blocks(self, parsed):
        """the top-level nodes the document parser produces for the fragment (new elements, uids in pre-order)"""
        if parsed[0] == 'single':
            return [self.build(parsed[1])]
        self.next += 1          # the invisible wrapper element is created first
        return [''] + [f if isinstance(f, str) else self.build(f) for f in parsed[1:]]

    # ---- canonical state (for de-duplication)
    def state_key(self):
        def k(n):
            return (n.id, n.sc, tuple(tuple(a) for a in n.attrs), tuple(b if isinstance(b, str) else k(b) for b in n.blocks))
        return tuple(sorted(k(r) for r in self.roots))


# ------------------------------------------------------------------------------------------------
# the same history on the real library


def exc_kind(e):
    return type(e).__name__


class Live(object):
    def __init__(self, d):
        import AdvancedHTMLParser as AHP
        self.AHP = AHP
        self.Tag = AHP.AdvancedTag
        self.els = []               # creation index -> element
        self.idx = {}               # uid -> creation index
        self.parser = None
        self.kind = d['kind']
        if d['kind'] == 'det':
            self.build(d['seed'])
        else:
            cls = AHP.IndexedAdvancedHTMLParser if d['kind'] == 'idoc' else AHP.AdvancedHTMLParser
            self.parser = cls()
            self.parser.parseStr(render_fn(d['seed']))
            self.discover(self.parser.getRoot())
        for s in d['spares']:
            self.build(s)

    def items(self):
        """(creation index, element) of every element (index of a wrapper element: skipped)"""
        return [(i, e) for i, e in enumerate(self.els) if e is not None]

    def reg(self, e):
        self.idx[e.uid] = len(self.els)
        self.els.append(e)

    def build(self, f):
        e = self.Tag(f[0], [(k, v) for k, v in f[1]], bool(f[2]))
        self.reg(e)
        for k in f[3:]:
            if isinstance(k, str):
                e.appendText(k)
            else:
                e.appendChild(self.build(k))
        return e

    def discover(self, e):
        """register unknown elements below (and including) e, in document order"""
        if e.uid not in self.idx:
            self.reg(e)
        for b in e.blocks:
            if isinstance(b, self.Tag):
                self.discover(b)

    def blk(self, b):
        return b if isinstance(b, str) else self.els[b]

    def val(self, v):
        if v is None or v is True or v is False or isinstance(v, str):
            return v
        if isinstance(v, self.Tag):
            return ('el', self.idx.get(v.uid, -1))
        if isinstance(v, (list, tuple)):
            return [self.val(x) for x in v]
        return ('other', type(v).__name__)

    def apply(self, op):
        """run one call; returns the canonical value (or ('raise', kind))"""
        name = op[0]
        e = self.els[op[1]]
        try:
            if name in ('appendText', 'removeText', 'removeTextAll'):
                r = getattr(e, name)(op[2])
            elif name == 'appendChild':
                r = e.appendChild(None if op[2] is None else self.els[op[2]])
            elif name in ('appendBlock', 'removeBlock'):
                r = getattr(e, name)(self.blk(op[2]))
            elif name in ('appendBlocks', 'removeBlocks'):
                arg = [self.blk(b) for b in op[2]]
                self.ncalls = getattr(self, 'ncalls', 0) + 1
                # the argument is "a list of blocks" in the documentation; any iterable works on the unchanged library: every
                # other call gets a one-shot iterator / a tuple (an implementation that walks the argument twice shows here)
                given = iter(arg) if self.ncalls % 3 == 1 else tuple(arg) if self.ncalls % 3 == 2 else arg
                r = getattr(e, name)(given)
                if r is given:
                    r = arg         # appendBlocks hands its argument back: "the blocks", whatever container they came in
            elif name == 'appendInnerHTML':
                if op[2][0] == 'multi':
                    self.els.append(None)       # the invisible wrapper element is created first
                r = e.appendInnerHTML(render_parsed(op[2]))
                self.discover(e)
            elif name in ('insertBefore', 'insertAfter'):
                r = getattr(e, name)(self.blk(op[2]), None if op[3] is None else self.blk(op[3]))
            elif name == 'remove':
                r = e.remove()
            elif name == 'removeChild':
                r = e.removeChild(self.els[op[2]])
            elif name == 'removeChildren':
                arg = [self.els[c] for c in op[2]]
                self.ncalls = getattr(self, 'ncalls', 0) + 1
                r = e.removeChildren(iter(arg) if self.ncalls % 3 == 1 else tuple(arg) if self.ncalls % 3 == 2 else arg)
            elif name == 'setAttribute':
                r = e.setAttribute(op[2], op[3])
            else:
                raise ValueError(name)
        except (KeyError, ValueError, TypeError, IndexError, AttributeError) as ex:
            return ('raise', exc_kind(ex))
        return self.val(r)

    def pre_ok(self, op):
        """C04's precondition on the real objects: every element handed to an append/insert call is currently
        detached (no parentNode, in no block list, not the parser's root) and does not contain the target."""
        name = op[0]
        args = []
        if name == 'appendChild' and op[2] is not None:
            args = [op[2]]
        elif name in ('appendBlock', 'insertBefore', 'insertAfter') and not isinstance(op[2], str):
            args = [op[2]]
        elif name == 'appendBlocks':
            args = [b for b in op[2] if not isinstance(b, str)]
        if not args:
            return True
        if len(set(args)) != len(args):
            return False
        target = self.els[op[1]]
        held = set()
        for _, e in self.items():
            for b in e.blocks:
                if isinstance(b, self.Tag):
                    held.add(b.uid)
        for a in args:
            c = self.els[a]
            if c is None or c.parentNode is not None or c.uid in held:
                return False
            if self.parser is not None and c is self.parser.getRoot():
                return False
            seen = set()
            stack = [c]
            while stack:
                x = stack.pop()
                if x.uid in seen:
                    return False
                seen.add(x.uid)
                if x is target:
                    return False
                stack.extend(b for b in x.blocks if isinstance(b, self.Tag))
        return True

    # ---- dumping fields
    def bid(self, b):
        if isinstance(b, str):
            return enc(b)
        return self.idx.get(b.uid, '?')

    def eid(self, e):
        if e is None:
            return 'none'
        return self.idx.get(e.uid, '?')

    def doc_id(self, p):
        if p is None:
            return 'none'
        if p is self.parser:
            return 0
        return 'tmp'


# ------------------------------------------------------------------------------------------------
# generators

TEXTS = ('a', 'ab')
NAMES = ('div', 'span', 'p', 'b', 'i', 'ul', 'li')


def E(name, *kids, **kw):
    return [name, kw.get('attrs', []), int(kw.get('sc', 0))] + list(kids)


SEEDS3 = [
    E('div'),
    E('br'),
    E('div', sc=1),
    E('div', 'a'),
    E('div', E('b')),
    E('div', E('br')),
    E('div', 'a', E('b')),
    E('div', E('b'), 'a'),
    E('div', E('b', 'a')),
    E('div', E('b'), E('i')),
    E('div', E('b', E('i'))),
    E('div', 'a', 'ab'),
]
SPARES3 = [E('span'), E('p', 'a'), E('img')]

FRAGS = [
    ['single', E('i', 'a')],
    ['multi', 'a', E('i')],
    ['multi', E('i'), E('u', 'ab')],
    ['single', E('i', 'a', '&amp;', 'b')],      # the tokenizer reports a reference apart from the text around it: three text blocks
]


def adjacent_text(f):
    if isinstance(f, str):
        return False
    kids = f[3:]
    for a, b in zip(kids, kids[1:]):
        if isinstance(a, str) and isinstance(b, str):
            return True
    return any(adjacent_text(k) for k in kids)


def all_ops(ref, small=True):
    """every call of the small universe that is inside the model in the state `ref`"""
    ids = sorted(ref.nodes)
    for t in ids:
        n = ref.nodes[t]
        det = ref.detached_for(t)
        blks = list(TEXTS) + det
        for s in TEXTS:
            yield ['appendText', t, s]
        yield ['appendText', t, '']
        yield ['appendChild', t, None]
        for c in det:
            yield ['appendChild', t, c]
        for b in blks:
            yield ['appendBlock', t, b]
        if det:
            yield ['appendBlocks', t, [TEXTS[0], det[0]]]
            yield ['appendBlocks', t, [det[0], TEXTS[1]]]
            if len(det) > 1:
                yield ['appendBlocks', t, [det[1], det[0]]]
        yield ['appendBlocks', t, []]
        for fr in FRAGS:
            yield ['appendInnerHTML', t, fr]
        # references: None, every distinct block of t, one absent text, elements that are not children
        refs = [None]
        seen = set()
        for b in n.blocks:
            k = b if isinstance(b, str) else b.id
            if (type(k), k) not in seen:
                seen.add((type(k), k))
                refs.append(k)
        refs.append('zz')
        kid_ids = set(b.id for b in n.blocks if not isinstance(b, str))
        non_kids = [i for i in ids if i not in kid_ids]
        refs.extend(non_kids[:2])
        for o in ('insertBefore', 'insertAfter'):
            for b in blks + ['']:
                for r in refs:
                    if r is not None and not isinstance(r, str) and r == b:
                        pass        # inserting next to itself: the reference is not a child -> ValueError; kept
                    yield [o, t, b, r]
        for s in TEXTS + ('b', ''):
            yield ['removeText', t, s]
            yield ['removeTextAll', t, s]
        yield ['remove', t]
        for c in ids:
            yield ['removeChild', t, c]
        kids = sorted(kid_ids)
        if kids:
            yield ['removeChildren', t, kids[::-1]]
            yield ['removeChildren', t, [kids[0], kids[0]]]
            yield ['removeBlocks', t, [kids[0], 'a']]
        yield ['removeChildren', t, non_kids[:1]]
        for b in list(TEXTS) + ids[:3]:
            yield ['removeBlock', t, b]
        yield ['removeBlocks', t, ['a', 'a']]
        yield ['setAttribute', t, 'title', 'x"y']
        yield ['setAttribute', t, 'ID', 'v']
        for bad in ('', '1a', 'a b', 'a$', 'a\n'):
            yield ['setAttribute', t, bad, 'v']


def exhaustive_cases(depth2_sample, rng, kinds=('det', 'doc')):
    """all single calls from every seed (both kinds); `depth2_sample` random two-call continuations per seed"""
    for kind in kinds:
        for seed in SEEDS3:
            if kind != 'det' and adjacent_text(seed):
                continue
            base = {'kind': kind, 'seed': seed, 'spares': SPARES3, 'ops': []}
            ops1 = list(all_ops(RefDoc(base)))
            for op in ops1:
                yield dict(base, ops=[op])
            # every two-call history made of insertions only (where an inserted element lands among `children` depends on
            # what an earlier insertion put in front of the leading block)
            ins1 = [o for o in ops1 if o[0] in ('insertBefore', 'insertAfter')]
            if kind == 'det' and seed in SEEDS3[:3]:
                for op1 in ins1[::9]:
                    ref = RefDoc(base)
                    try:
                        ref.apply(op1)
                    except Exception:
                        continue
                    for op2 in all_ops(ref):
                        if op2[0] in ('insertBefore', 'insertAfter'):
                            yield dict(base, ops=[op1, op2])
            for _ in range(depth2_sample):
                op1 = rng.choice(ops1)
                ref = RefDoc(base)
                ref.apply(op1)
                ops2 = list(all_ops(ref))
                op2 = rng.choice(ops2)
                ref.apply(op2)
                op3 = rng.choice(list(all_ops(ref)))
                yield dict(base, ops=[op1, op2, op3])


def bfs_cases(seed, kind, depth, cap, rng):
    """histories to `depth` calls with state de-duplication (breadth first, at most `cap` histories)"""
    base = {'kind': kind, 'seed': seed, 'spares': SPARES3, 'ops': []}
    seen = {RefDoc(base).state_key()}
    frontier = [[]]
    n = 0
    for _ in range(depth):
        nxt = []
        for hist in frontier:
            ref0 = RefDoc(base)
            for op in hist:
                ref0.apply(op)
            for op in all_ops(ref0):
                ref = RefDoc(base)
                for o in hist:
                    ref.apply(o)
                ref.apply(op)
                n += 1
                yield dict(base, ops=hist + [op])
                if n >= cap:
                    return
                k = ref.state_key()
                if k not in seen:
                    seen.add(k)
                    nxt.append(hist + [op])
        rng.shuffle(nxt)
        frontier = nxt


def random_fn(rng, size, depth=0, top=True):
    """a random parsed node with about `size` elements; no adjacent / empty text (so the parser builds the same)"""
    name = rng.choice(NAMES) if top or rng.random() < 0.85 else rng.choice(VOID)
    attrs = []
    if rng.random() < 0.3:
        attrs.append(['id', 'e%d' % rng.randrange(100)])
    if rng.random() < 0.15:
        attrs.append(['title', rng.choice(['t', 'x"y', 'a b'])])
    if name in VOID:
        return [name, attrs, 0]
    if not top and rng.random() < 0.07:
        return [name, attrs, 1]
    kids = []
    budget = size - 1
    last_text = False
    while budget > 0 or (not kids and rng.random() < 0.5):
        if not last_text and rng.random() < 0.4:
            kids.append(rng.choice(['a', 'ab', 'x y', 'abab', ' ', 'b']))
            last_text = True
        elif rng.random() < 0.12:
            # a character / entity reference: always a text block of its own, also right next to other text
            kids.append(rng.choice(['&amp;', '&#65;', '&nbsp;', '&lt;']))
            last_text = False
        elif budget > 0:
            s = rng.randint(1, budget)
            kids.append(random_fn(rng, s, depth + 1, False))
            budget -= s
            last_text = False
        else:
            break
    if not last_text and rng.random() < 0.3:
        kids.append(rng.choice(['a', 'ab', 'ba']))
    return [name, attrs, 0] + kids


def is_multi(tops):
    """the document parser needs the wrapper: two elements, or text that is not blank, at top level"""
    return sum(1 for t in tops if not isinstance(t, str)) >= 2 or any(isinstance(t, str) and t.strip() for t in tops) \
        or not any(not isinstance(t, str) for t in tops)


def random_frag(rng):
    r = rng.random()
    if r < 0.35:
        return ['single', random_fn(rng, rng.randint(1, 3))]
    if r < 0.42:
        return ['multi', rng.choice(['a', 'ab', 'x y'])]
    tops = []
    last_text = False
    for _ in range(rng.randint(2, 4)):
        if not last_text and rng.random() < 0.4:
            tops.append(rng.choice(['a', 'ab', 'x y', ' ']))
            last_text = True
        else:
            tops.append(random_fn(rng, rng.randint(1, 2), 1, False))
            last_text = False
    if not is_multi(tops):
        tops.append(random_fn(rng, 1, 1, False))
    return ['multi'] + tops


def random_op(rng, ref):
    ids = sorted(ref.nodes)
    t = rng.choice(ids)
    n = ref.nodes[t]
    det = ref.detached_for(t)
    texts = ['a', 'ab', 'b', '', 'x y', 'abab']
    kid_ids = [b.id for b in n.blocks if not isinstance(b, str)]

    def blk():
        if det and rng.random() < 0.55:
            return rng.choice(det)
        return rng.choice(texts)

    def ref_blk():
        r = rng.random()
        if r < 0.12:
            return None
        if r < 0.82 and n.blocks:
            b = rng.choice(n.blocks)
            return b if isinstance(b, str) else b.id
        if r < 0.9:
            return rng.choice(['zz', 'q'])
        return rng.choice(ids)
    o = rng.choice(['appendText', 'appendChild', 'appendChild', 'appendBlock', 'appendBlocks', 'appendInnerHTML',
                    'insertBefore', 'insertBefore', 'insertAfter', 'insertAfter', 'removeText', 'removeTextAll', 'remove',
                    'removeChild', 'removeChild', 'removeChildren', 'removeBlock', 'removeBlocks', 'setAttribute'])
    if o == 'appendText':
        return [o, t, rng.choice(texts)]
    if o == 'appendChild':
        if rng.random() < 0.06:
            return [o, t, None]
        if not det:
            return ['appendText', t, rng.choice(texts)]
        return [o, t, rng.choice(det)]
    if o == 'appendBlock':
        return [o, t, blk()]
    if o == 'appendBlocks':
        k = rng.randint(0, 3)
        pool = list(det)
        out = []
        for _ in range(k):
            if pool and rng.random() < 0.5:
                c = rng.choice(pool)
                pool.remove(c)
                out.append(c)
            else:
                out.append(rng.choice(texts))
        return [o, t, out]
    if o == 'appendInnerHTML':
        return [o, t, random_frag(rng)]
    if o in ('insertBefore', 'insertAfter'):
        b = blk()
        r = ref_blk()
        return [o, t, b, r]
    if o in ('removeText', 'removeTextAll'):
        return [o, t, rng.choice(['a', 'b', 'ab', '', 'x', ' '])]
    if o == 'remove':
        return [o, t]
    if o == 'removeChild':
        if kid_ids and rng.random() < 0.75:
            return [o, t, rng.choice(kid_ids)]
        return [o, t, rng.choice(ids)]
    if o == 'removeChildren':
        pool = kid_ids + [rng.choice(ids)]
        return [o, t, [rng.choice(pool) for _ in range(rng.randint(0, 3))]]
    if o == 'removeBlock':
        if kid_ids and rng.random() < 0.5:
            return [o, t, rng.choice(kid_ids)]
        return [o, t, rng.choice(texts + ids[:2])]
    if o == 'removeBlocks':
        pool = kid_ids + texts
        return [o, t, [rng.choice(pool) for _ in range(rng.randint(0, 3))]]
    if o == 'setAttribute':
        if rng.random() < 0.35:
            return [o, t, rng.choice(['', '1a', 'a b', 'a$', '-x', 'a"', 'title\n', 'data-x\n', '_y\n']), 'v']
        return [o, t, rng.choice(['title', 'ID', 'data-x', '_y', 'id']), rng.choice(['v', 'x"y', '', 'a b'])]
    raise ValueError(o)


def random_case(rng, max_size, max_ops):
    kind = rng.choice(['det', 'doc', 'idoc'])
    seed = random_fn(rng, rng.randint(1, max_size))
    spares = [random_fn(rng, rng.randint(1, 3)) for _ in range(rng.randint(0, 4))]
    d = {'kind': kind, 'seed': seed, 'spares': spares, 'ops': []}
    ref = RefDoc(d)
    ops = []
    for _ in range(rng.randint(1, max_ops)):
        op = random_op(rng, ref)
        ref.apply(op)
        ops.append(op)
    d['ops'] = ops
    return d


def features(d):
    fs = set()
    fs.add('kind:' + d['kind'])
    n = fn_count(d['seed']) + sum(fn_count(s) for s in d['spares'])
    fs.add('elements<=%d' % (5 if n <= 5 else 10 if n <= 10 else 20 if n <= 20 else 40 if n <= 40 else 80))
    fs.add('ops<=%d' % (1 if len(d['ops']) <= 1 else 3 if len(d['ops']) <= 3 else 10 if len(d['ops']) <= 10 else 20 if len(d['ops']) <= 20 else 40))
    try:
        ref = RefDoc(d)
        for op in d['ops']:
            fs.add('op:' + op[0])
            n = ref.nodes.get(op[1])
            if n is not None and n.sc:
                fs.add('target-self-closing')
            if op[0] in ('insertBefore', 'insertAfter'):
                fs.add('insert-ref:' + ('none' if op[3] is None else 'text' if isinstance(op[3], str) else 'element'))
                fs.add('insert-blk:' + ('text' if isinstance(op[2], str) else 'element'))
            r = ref.apply(op)
            if isinstance(r, tuple) and r[0] == 'raise':
                fs.add('raises:' + r[1])
            if r is None and op[0] in ('removeChild', 'removeText', 'removeBlock'):
                fs.add('reports-failure')
            if op[0] == 'appendInnerHTML':
                fs.add('fragment:' + op[2][0])
    except Exception:
        fs.add('reference-rejects-case')
    return sorted(fs)


def _remap_blk(b, lo, size):
    if isinstance(b, str) or b is None:
        return b
    if lo <= b < lo + size:
        raise KeyError(b)
    return b - size if b >= lo + size else b


def _remap_op(op, lo, size):
    """renumber the creation indices of a call after the elements lo .. lo+size-1 were dropped (KeyError: it used one)"""
    n = op[0]
    out = [n, _remap_blk(op[1], lo, size)]
    for a in op[2:]:
        if isinstance(a, list) and n in ('appendBlocks', 'removeBlocks', 'removeChildren'):
            out.append([_remap_blk(x, lo, size) for x in a])
        elif isinstance(a, int) and not isinstance(a, bool) and n != 'setAttribute':
            out.append(_remap_blk(a, lo, size))
        else:
            out.append(a)
    return out


def _drop_subtree(f, k, counter):
    """remove the element with pre-order index k from the parsed node f (counter: [next index]); returns (f', size) or None"""
    me = counter[0]
    counter[0] += 1
    kids = []
    found = None
    for x in f[3:]:
        if isinstance(x, str) or found is not None:
            if not isinstance(x, str):
                counter[0] += fn_count(x)
            kids.append(x)
            continue
        if counter[0] == k:
            found = fn_count(x)
            counter[0] += found
            continue
        if counter[0] < k < counter[0] + fn_count(x):
            r = _drop_subtree(x, k, counter)
            if r is not None:
                kids.append(r[0])
                found = r[1]
                continue
        counter[0] += fn_count(x)
        kids.append(x)
    if found is None:
        return None
    # merge text blocks that became adjacent (the parser would build one block)
    merged = []
    for x in kids:
        if isinstance(x, str) and merged and isinstance(merged[-1], str):
            merged[-1] = merged[-1] + x
        else:
            merged.append(x)
    return (f[:3] + merged, found)


def drop_element(d, k):
    """the case without the subtree of element k (k > 0; seed root kept), calls renumbered; None if impossible"""
    base = 0
    trees = [d['seed']] + list(d['spares'])
    for ti, t in enumerate(trees):
        n = fn_count(t)
        if base <= k < base + n:
            if k == base:
                if ti == 0:
                    return None
                size = n
                new_trees = trees[:ti] + trees[ti + 1:]
            else:
                r = _drop_subtree(t, k, [base])
                if r is None:
                    return None
                size = r[1]
                new_trees = trees[:ti] + [r[0]] + trees[ti + 1:]
            ops = []
            for op in d['ops']:
                try:
                    ops.append(_remap_op(op, k, size))
                except KeyError:
                    continue
            return dict(d, seed=new_trees[0], spares=new_trees[1:], ops=ops)
        base += n
    return None


def shrink(d):
    ops = d['ops']
    for i in range(len(ops) - 1, -1, -1):
        yield dict(d, ops=ops[:i] + ops[i + 1:])
    for i in range(len(ops)):
        yield dict(d, ops=ops[:i + 1])
    total = fn_count(d['seed']) + sum(fn_count(s) for s in d['spares'])
    cands = []
    for k in range(total - 1, 0, -1):
        c = drop_element(d, k)
        if c is not None:
            cands.append((fn_count(c['seed']) + sum(fn_count(s) for s in c['spares']), len(cands), c))
    for _, _, c in sorted(cands, key=lambda x: x[:2]):      # biggest subtree first
        yield c

    def strip_attrs(f):
        if isinstance(f, str):
            return f
        return [f[0], [], f[2]] + [strip_attrs(x) for x in f[3:]]
    c = dict(d, seed=strip_attrs(d['seed']), spares=[strip_attrs(x) for x in d['spares']])
    if c != d:
        yield c
    if d['kind'] == 'idoc':
        yield dict(d, kind='doc')
    if d['kind'] == 'doc':
        yield dict(d, kind='det')


def valid_case(d):
    """the reference accepts the history (preconditions kept, uids known)"""
    try:
        ref = RefDoc(d)
        for op in d['ops']:
            ref.apply(op)
        return True
    except Exception:
        return False
