"""
C19 — the *documented* rules of the typed DOM properties, restated independently of the code.

Sources: the property text (properties.jsonl C19), README.md ("General Attributes": the same names as in the
javascript DOM; `tagEm.id = "Hello"` sets the "id" attribute), ChangeLog 7.4.0/8.0.0/8.0.1 (spellcheck, tabIndex
invalid -> 0, colSpan 1..1000, rowSpan 0..65534, col.span 1..1000, cols/rows of textarea vs frameset, crossOrigin,
autocomplete of input vs form, track.kind, maxLength raises on an invalid value when assigned), the docstrings of
conversions.py, and the comments of the tables in constants.py ("These attributes are binary", "Inherits special
attributes from input plus onsubmit", "crossOrigin ... (all invalid values go to anonymous) default null", "track->kind
has a default of subtitles, an invalid of metadata", "Javascript attributes have a default value of null").

Nothing here imports the library.  `expected_get` is what reading a property must give for an attribute state,
`expected_assign` what an assignment must do.  The Lean copy of these rules is AHP/Lemmas/ConvSpec.lean; the check
compares the two on every cell (extra obligation `python-spec = lean-spec`).
"""

# ---- which dot names exist on which element (own copy of the documented table) -------------------------------

_INPUT_COMMON = 'value checked onsearch onchange oncontextmenu oninput oninvalid onreset onselect'
_INPUT = ('accept align alt autocomplete autofocus checked dir disabled form formAction formEnctype formMethod '
          'formNoValidate formTarget list max maxLength min multiple pattern placeholder readOnly required size src '
          'step type value width ' + _INPUT_COMMON)

TAG_PROPS = {
    'a': 'href target',
    'area': 'alt coords download href rel shape target',
    'audio': 'autoplay controls loop muted preload src',
    'base': 'href target',
    'basefont': 'color face size',
    'bdo': 'dir',
    'blockquote': 'cite',
    'body': ('bgcolor background vlink alink link onafterprint onbeforeprint onbeforeunload onerror onhashchange onload '
             'onmessage onoffline ononline onpagehide onpageshow onpopstate onresize onstorage onunload'),
    'button': 'autofocus disabled form formAction formEnctype formMethod formNoValidate formTarget type value ' + _INPUT_COMMON,
    'canvas': 'height width',
    'caption': 'align',
    'col': 'span valign width',
    'colgroup': 'align span valign width',
    'data': 'value',
    'del': 'cite dateTime',
    'details': 'ontoggle',
    'dir': 'compact',
    'div': 'align',
    'embed': 'height width src type',
    'fieldset': 'form',
    'font': 'color face size',
    'form': ('acceptCharset action autocomplete encoding enctype method noValidate target onblur onchange oncontextmenu '
             'onfocus oninput oninvalid onreset onsearch onselect onsubmit'),
    'frame': 'frameBorder longDesc marginHeight marginWidth noResize scrolling src',
    'frameset': 'cols rows',
    'h1': 'align', 'h2': 'align', 'h3': 'align', 'h4': 'align', 'h5': 'align', 'h6': 'align',
    'head': 'profile',
    'hr': 'align noShade size width',
    'html': 'xmlns',
    'iframe': 'align frameBorder height marginHeight marginWidth sandbox scrolling src srcdoc width',
    'img': 'align alt border crossOrigin height hspace isMap longDesc sizes src srcset useMap vspace width',
    'input': _INPUT,
    'ins': 'cite dateTime',
    'label': 'for form',
    'legend': 'align',
    'li': 'type value',
    'link': 'charset crossOrigin href hreflang media rel rev sizes target type',
    'menu': 'label type onshow',
    'menuitem': 'checked disabled icon label radiogroup type',
    'meta': 'charset content httpEquiv scheme',
    'meter': 'form high low max min optimum value',
    'object': 'align archive border classid codeBase codeType data declare form height hspace standby type useMap vspace width',
    'ol': 'compact reversed start type',
    'optgroup': 'disabled label',
    'option': 'disabled label selected value ' + _INPUT_COMMON,
    'output': 'for form',
    'p': 'align',
    'param': 'type value valueType',
    'pre': 'width',
    'progress': 'max value',
    'q': 'cite',
    'script': 'async charset defer src type',
    'select': 'autofocus disabled form multiple required size ' + _INPUT_COMMON,
    'source': 'src srcdest media sizes type',
    'style': 'media scoped type',
    # "Inherits special attributes from input plus onsubmit"
    'submit': _INPUT + ' onsubmit',
    'table': 'align bgcolor border cellPadding cellSpacing frame rules summary width',
    'tbody': 'align char charoff vAlign',
    'td': 'abbr align axis bgcolor char charoff colSpan headers height noWrap rowSpan scope vAlign width',
    'textarea': 'autofocus cols dirname disabled form maxLength placeholder readOnly required rows wrap',
    'tfoot': 'align char charoff vAlign',
    'th': 'abbr align axis bgcolor char charoff colSpan headers height noWrap rowSpan scope sorted vAlign width',
    'thead': 'align char charoff vAlign',
    'time': 'dateTime',
    'tr': 'align bgcolor char charoff vAlign',
    'track': 'default kind label src srclang',
    'ul': 'compact type',
    'video': 'autoplay controls height loop muted poster preload src width',
}
TAG_PROPS = {k: sorted(set(v.split())) for k, v in TAG_PROPS.items()}

# dot names every element has
COMMON_PROPS = sorted(set((
    'id name title dir align tabIndex className hidden spellcheck lang '
    'onkeydown onkeyup onkeypress onfocus onblur onselect oncontextmenu onclick ondblclick onmousedown onmousemove '
    'onmouseout onmouseover onmouseup onmousewheel onwheel oncopy onpaste oncut ondrag ondragend ondragenter ondragleave '
    'ondragover ondragstop ondrop onscroll onchange').split()))

# ---- HTML attribute name of a dot name ----------------------------------------------------------------------

_NAME_EXCEPTIONS = {'className': 'class', 'httpEquiv': 'http-equiv', 'acceptCharset': 'accept-charset', 'encoding': 'enctype'}


def html_name(prop):
    """The HTML name: the dot name in lower case, except for the four names that differ by more than case."""
    return _NAME_EXCEPTIONS.get(prop, prop.lower())


# ---- rules ----------------------------------------------------------------------------------------------------

BOOLEAN = set(('hidden checked selected autoplay controls loop muted compact noValidate noResize autofocus disabled '
               'formNoValidate multiple readOnly required declare reversed async defer noWrap default').split())


def rule(tag, prop):
    """(kind, parameters) of a linked property."""
    if prop == 'className':
        return ('className',)
    if prop == 'spellcheck':
        return ('boolString',)
    if prop in BOOLEAN:
        return ('boolean',)
    if prop == 'tabIndex':
        return ('intOrMinusOne',)
    if prop in ('span', 'colSpan'):
        # clamped 1..1000; unset 1; not a number 1
        return ('capped', 1, 1000, 1, 1)
    if prop == 'rowSpan':
        # clamped 0..65534; unset 1; not a number 0
        return ('capped', 0, 65534, 1, 0)
    if prop in ('hspace', 'vspace'):
        return ('nonNegative', 0)
    if prop == 'size' and tag == 'input':
        return ('nonNegative', 20)
    if prop == 'cols' and tag == 'textarea':
        return ('atLeast', 1, 20)
    if prop == 'rows' and tag == 'textarea':
        return ('atLeast', 1, 2)
    if prop == 'maxLength':
        return ('maxLength',)
    if prop == 'method':
        return ('enum', ('get', 'post'), 'get', 'get', '')               # members, absent, invalid, empty
    if prop == 'autocomplete':
        if tag == 'form':
            return ('enum', ('on', 'off'), 'on', 'on', 'on')
        return ('enum', ('on', 'off'), '', '', '')
    if prop == 'crossOrigin':
        return ('enum', ('use-credentials', 'anonymous'), None, 'anonymous', None)
    if prop == 'kind':
        return ('enum', ('captions', 'chapters', 'descriptions', 'metadata', 'subtitles'), 'subtitles', 'metadata', 'metadata')
    if prop == 'form':
        return ('parentForm',)
    if prop == 'sandbox':
        return ('tokens',)
    if prop.startswith('on'):
        return ('string', None)
    return ('string', '')


NUMERIC_KINDS = ('intOrMinusOne', 'capped', 'nonNegative', 'atLeast', 'maxLength')

# ---- Python's int() on text, restated (CPython 3.12) -------------------------------------------------------

import unicodedata as _ud


def parse_int(s):
    """int(s) or None. Restated with str methods instead of calling int(): optional blanks, one sign, decimal digits
    (any script) with single underscores between digits, at most 4300 digits."""
    t = s
    # int() strips str.isspace() characters, except that U+001C..U+001F are only stripped by str.strip, not by int
    def sp(c):
        return c.isspace() and not ('\x1c' <= c <= '\x1f')
    i, j = 0, len(t)
    while i < j and sp(t[i]):
        i += 1
    while j > i and sp(t[j - 1]):
        j -= 1
    t = t[i:j]
    neg = False
    if t[:1] in ('+', '-'):
        neg = t[0] == '-'
        t = t[1:]
    if not t:
        return None
    groups = t.split('_')
    digits = 0
    val = 0
    for g in groups:
        if not g:
            return None
        for c in g:
            d = _ud.decimal(c, None)
            if d is None:
                return None
            val = val * 10 + d
            digits += 1
    if digits > 4300:
        return None
    return -val if neg else val


# ---- expected behaviour ----------------------------------------------------------------------------------------

ABSENT = ('absent',)


def words(s):
    """DOM token list of a text: blank-separated words (runs of blanks count once, outer white space ignored)."""
    return [w for w in s.strip().split(' ') if w]


def expected_get(tag, prop, state, in_form=False):
    """state: ABSENT or ('text', s).  Returns the value reading the property must produce."""
    r = rule(tag, prop)
    k = r[0]
    present = state[0] == 'text'
    s = state[1] if present else None
    if k == 'className':
        return ' '.join(words(s)) if present else ''
    if k == 'boolean':
        return present
    if k == 'boolString':
        # the stored text is "true"/"false": anything but false/0 (any case) counts as true
        return present and s.lower() not in ('false', '0')
    if k == 'parentForm':
        return ('ancestor-form',) if in_form else None
    if k == 'tokens':
        return ('tokens', words(s) if present else [])
    if k == 'string':
        return s if present else r[1]
    if k == 'enum':
        members, absent, invalid, empty = r[1:]
        if not present:
            return absent
        if s == '':
            return empty
        return s.lower() if s.lower() in members else invalid
    # numeric
    n = parse_int(s) if present and s != '' else None
    if k == 'intOrMinusOne':
        if not present or s == '':
            return -1
        return 0 if n is None else n
    if k == 'capped':
        lo, hi, absent, invalid = r[1:]
        if not present:
            return absent
        if n is None:
            return invalid                       # empty or not a number
        return max(lo, min(hi, n))
    if k == 'nonNegative':
        d = r[1]
        if not present or n is None or n < 0:
            return d
        return n
    if k == 'atLeast':
        lo, d = r[1:]
        if not present or n is None or n < lo:
            return d
        return n
    if k == 'maxLength':
        if not present:
            return -1
        if s == '':
            return 0
        if n is None or n < 0:
            return -1
        return n
    raise AssertionError(k)


def py_text(v):
    """str(v) for the assigned values (str, int, bool, None)."""
    return v if isinstance(v, str) else str(v)


def expected_assign(tag, prop, v):
    """What `em.prop = v` must do: ('raise',) | ('remove',) | ('store', text)  (text stored under html_name(prop))."""
    r = rule(tag, prop)
    k = r[0]
    if k == 'maxLength':
        # the only raising assignment: a value that is neither empty nor a non-negative integer
        if not (v is None or v == ''):
            n = parse_int(v) if isinstance(v, str) else int(v)
            if n is None or n < 0:
                return ('raise',)
    if k == 'boolean':
        return ('store', '') if v else ('remove',)
    if k == 'boolString':
        if isinstance(v, str):
            return ('store', 'false' if v.lower() in ('false', '0') else 'true')
        return ('store', 'true' if v else 'false')
    if k == 'className':
        # assigning None to className means no class names (the documented repair of C09's 'None' class)
        return ('store', ' '.join(words(py_text(v) if v is not None else '')))
    return ('store', py_text(v))
