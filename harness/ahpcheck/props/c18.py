"""
C18 — identity by uid; TagCollection is an ordered set closed under its operators.
Stream `coll`: a forest of elements (the universe) and a history of collection operators.
"""
import copy
import itertools
import pickle

from ..core import PropCheck, Case, sx

OPS = ('ctor', 'add', 'iadd', 'sub', 'isub', 'uniq')
# 'copy' = TagCollection(c): the constructor given the current collection itself (for the model: the constructor on its items)

# forests over 4 elements, "some nested in each other"
FORESTS4 = [
    [[0, [1, [2]]], [3]],
    [[0, [1], [2]], [3]],
    [[0], [1], [2], [3]],
    [[0, [1, [2, [3]]]]],
    [[0, [1]], [2, [3]]],
]


# probes for isTagEqual: (name, attribute list); detached elements built directly
PROBES = [
    ['div', [['id', 'a']]],
    ['div', [['id', 'a']]],
    ['div', [['id', 'b']]],
    ['div', [['title', 'a']]],
    ['div', [['checked', None]]],
    ['div', [['disabled', None]]],
    ['div', [['id', 'a'], ['checked', None]]],
    ['div', [['checked', None], ['id', 'a']]],
    ['div', []],
    ['span', [['id', 'a']]],
    ['div', [['id', 'a'], ['title', 't']]],
    ['div', [['id', None]]],
]


def probe_elements(AHP):
    return [AHP.AdvancedTag(n, [tuple(a) for a in attrs]) for n, attrs in PROBES]


def tree_uids(t):
    yield t[0]
    for k in t[1:]:
        for u in tree_uids(k):
            yield u


def forest_uids(f):
    out = []
    for t in f:
        out.extend(tree_uids(t))
    return out


class Universe(object):
    """The forest built on the real library; uid <-> creation index."""

    def __init__(self, forest):
        import AdvancedHTMLParser as AHP
        self.AHP = AHP
        self.by_idx = {}
        self.roots = [self._build(t) for t in forest]
        self.idx_of_uid = {e.uid: i for i, e in self.by_idx.items()}
        self.order = forest_uids(forest)

    def _build(self, t):
        i = t[0]
        e = self.AHP.AdvancedTag('div' if i % 2 == 0 else 'span', [('id', 'e%d' % i), ('class', 'k')])
        self.by_idx[i] = e
        for k in t[1:]:
            e.appendChild(self._build(k))
        return e

    def els(self, idxs):
        return [self.by_idx[i] for i in idxs]

    def idx(self, e):
        return self.idx_of_uid[e.uid]


def apply_op(U, c, op):
    TagCollection = U.AHP.Tags.TagCollection
    name, xs = op[0], U.els(op[1:])
    if name == 'ctor':
        return TagCollection(xs)
    if name == 'copy':
        return TagCollection(c)
    if name == 'add':
        return c + xs
    if name == 'iadd':
        c += xs
        return c
    if name == 'sub':
        return c - xs
    if name == 'isub':
        c -= xs
        return c
    if name == 'uniq':
        return U.AHP.Tags.uniqueTags(xs)
    raise ValueError(name)


def tageq_matrix(AHP):
    ps = probe_elements(AHP)
    return [''.join('1' if p.isTagEqual(q) else '0' for q in ps) for p in ps]


def observe(U, c):
    bits = lambda bs: ''.join('1' if b else '0' for b in bs)
    return ['ok',
            [U.idx(e) for e in c],
            sorted(U.idx_of_uid[u] for u in c.uids),
            bits(U.by_idx[i] in c for i in U.order),
            [U.idx(e) for e in c.getAllNodes()],
            sorted(U.idx_of_uid[u] for u in c.getAllNodeUids()),
            bits(c.containsUid(U.by_idx[i].uid) and c.contains(U.by_idx[i]) for i in U.order)]


class Check(PropCheck):
    id = 'C18'
    stream = 'C18'
    extra_modules = ('AHP.Props.C18Code',)       # TagCollection's methods themselves, interpreted in Lean, = the hand model Coll
    exhaustive_in = ('quick', 'thorough')
    rule = ('histories of TagCollection operators (constructor, +, +=, -, -=, uniqueTags) with operand lists of length 0-3 '
            'incl. repeats over forests of 4 elements (exhaustive to depth 2 quick / 3 thorough on one forest, all single ops on '
            'five forests) plus seeded random histories of up to 30 operators over forests of up to 20 elements; a case is '
            'non-trivial when some operand list has a repeat or overlaps the current collection, distinct by canonical JSON')
    assumptions = ['element identity is modelled as the uid; uuid4 freshness (distinct elements have distinct uids) is assumed']

    # ---- generation -------------------------------------------------------------------------
    def cases(self, tier, rng):
        uni = [0, 1, 2, 3]
        operands = [()]
        for n in (1, 2, 3):
            operands.extend(itertools.product(uni, repeat=n))
        single = [[o] + list(xs) for o in OPS for xs in operands]
        yield Case({'forest': FORESTS4[0], 'ops': [['tageq']]}, 'exhaustive')
        for f in FORESTS4:
            for op in single:
                yield Case({'forest': f, 'ops': [['ctor', 0, 2], op]}, 'exhaustive')
        # depth-2 / depth-3 histories on the first forest with operand lists of length <= 2 (quick) / depth 3 (thorough)
        small_operands = [xs for xs in operands if len(xs) <= 2]
        small = [[o] + list(xs) for o in ('add', 'iadd', 'sub', 'isub') for xs in small_operands]
        depth = 3 if tier == 'thorough' else 2
        if depth == 2:
            for a in small:
                for b in small:
                    yield Case({'forest': FORESTS4[0], 'ops': [['ctor', 1, 3], a, b]}, 'exhaustive')
        else:
            tiny = [[o] + list(xs) for o in ('add', 'iadd', 'sub', 'isub') for xs in operands if len(xs) <= 2 and set(xs) <= {0, 1, 2}]
            for a in small:
                for b in tiny:
                    for c in tiny:
                        yield Case({'forest': FORESTS4[0], 'ops': [['ctor', 1, 3], a, b, c]}, 'exhaustive')
        for a in small:
            if a[0] in ('iadd', 'isub'):
                yield Case({'forest': FORESTS4[0], 'ops': [['ctor', 1, 3], ['copy'], a]}, 'exhaustive')
                yield Case({'forest': FORESTS4[0], 'ops': [['ctor', 1, 3], ['copy'], a, ['iadd', 0, 1]]}, 'exhaustive')
        n = 4000 if tier == 'thorough' else 400
        for _ in range(n):
            yield Case(self.random_case(rng), 'random')

    def random_case(self, rng):
        n = rng.randint(1, 20)
        # random forest over 0..n-1: parent of i is a random earlier node or none
        kids = {i: [] for i in range(n)}
        roots = []
        for i in range(n):
            if i == 0 or rng.random() < 0.25:
                roots.append(i)
            else:
                kids[rng.randrange(i)].append(i)

        def mk(i):
            return [i] + [mk(k) for k in kids[i]]
        forest = [mk(r) for r in roots]
        ops = []
        for _ in range(rng.randint(1, 30)):
            if rng.random() < 0.12:
                ops.append(['copy'])
                continue
            o = rng.choice(OPS)
            k = rng.choice((0, 1, 1, 2, 3, 3, 5))
            pool = list(range(n))
            xs = [rng.choice(pool) for _ in range(k)]
            if xs and rng.random() < 0.4:
                xs.append(rng.choice(xs))
            ops.append([o] + xs)
        return {'forest': forest, 'ops': ops}

    def nontrivial(self, d):
        for op in d['ops']:
            xs = op[1:]
            if op[0] == 'tageq' or len(set(xs)) < len(xs):
                return True
        return len(d['ops']) > 1 and any(len(op) > 1 for op in d['ops'][1:])

    def features(self, d):
        fs = ['ops=%d' % min(len(d['ops']), 10)]
        for op in d['ops']:
            fs.append('op:' + op[0])
            if len(set(op[1:])) < len(op[1:]):
                fs.append('repeat-operand')
        nested = any(len(t) > 1 for t in d['forest'])
        fs.append('nested' if nested else 'flat')
        return sorted(set(fs))

    def shrink(self, d):
        ops = d['ops']
        for i in range(len(ops)):
            yield {'forest': d['forest'], 'ops': ops[:i] + ops[i + 1:]}
        for i, op in enumerate(ops):
            for j in range(1, len(op)):
                yield {'forest': d['forest'], 'ops': ops[:i] + [op[:j] + op[j + 1:]] + ops[i + 1:]}

    # ---- both sides --------------------------------------------------------------------------
    @staticmethod
    def expand_copy(ops):
        """the same history with every ['copy'] written as the constructor on the contents at that point (reference semantics)"""
        ref, out = [], []
        for op in ops:
            name, xs = op[0], op[1:]
            if name == 'copy':
                op = ['ctor'] + list(ref)
                name, xs = 'ctor', list(ref)
            if name in ('ctor', 'uniq'):
                ref = []
            if name in ('ctor', 'uniq', 'add', 'iadd'):
                for x in xs:
                    if x not in ref:
                        ref.append(x)
            elif name in ('sub', 'isub'):
                ref = [x for x in ref if x not in xs]
            out.append(op)
        return out

    def encode(self, d):
        from ..core import enc, opt
        ops = []
        for op in self.expand_copy(d['ops']):
            if op[0] == 'tageq':
                ops.append(['tageq'] + [[enc(n)] + [[enc(k), opt(v)] for k, v in attrs] for n, attrs in PROBES])
            else:
                ops.append(op)
        return sx(d['forest'], ops)

    def impl(self, d):
        U = Universe(d['forest'])
        c = U.AHP.Tags.TagCollection()
        out = []
        for op in d['ops']:
            if op[0] == 'tageq':
                out.append(tageq_matrix(U.AHP))
                continue
            try:
                c = apply_op(U, c, op)
            except (ValueError, KeyError):
                out.append(['raise'])
                break
            out.append(observe(U, c))
        return sx(*out)

    # ---- the property itself on the library ---------------------------------------------------
    def oracle(self, d):
        U = Universe(d['forest'])
        TagCollection = U.AHP.Tags.TagCollection
        c = TagCollection()
        ref = []                       # reference ordered set of indices
        desc = {}
        olds = []                      # (earlier collection object, its expected contents, index of the op that replaced it)

        def self_and_desc(t):
            acc = [t[0]]
            for k in t[1:]:
                acc.extend(self_and_desc(k))
            desc[t[0]] = acc
            return acc
        for t in d['forest']:
            self_and_desc(t)
        for n, op in enumerate(d['ops']):
            name, xs = op[0], op[1:]
            if name == 'tageq':
                got = tageq_matrix(U.AHP)
                for i, (n1, a1) in enumerate(PROBES):
                    for j, (n2, a2) in enumerate(PROBES):
                        # name and attributes only: same name, same set of attribute names, same value for each
                        want = n1 == n2 and sorted(map(tuple, a1), key=lambda p: p[0]) == sorted(map(tuple, a2), key=lambda p: p[0])
                        if (got[i][j] == '1') != want:
                            return ('isTagEqual', 'probe %d %r vs probe %d %r: isTagEqual %s, expected %s'
                                    % (i, PROBES[i], j, PROBES[j], got[i][j] == '1', want))
                continue
            prev, prev_ref = c, list(ref)
            try:
                c = apply_op(U, c, op)
            except Exception as e:
                return ('raises', 'op %d %r raised %s: %s' % (n, op, type(e).__name__, e))
            if c is not prev:
                # a non-in-place operator leaves its left operand as it was — now and under every later operation on the
                # result (a result sharing the operand's uid bookkeeping shows here)
                olds.append((prev, prev_ref, n))
                del olds[:-4]
            elif name in ('add', 'sub', 'ctor', 'uniq', 'copy'):
                return ('aliasing', 'op %d %r returned its left operand itself' % (n, op))
            if name == 'copy':
                xs = list(ref)
            if name in ('ctor', 'uniq', 'copy'):
                ref = []
            if name in ('ctor', 'uniq', 'add', 'iadd', 'copy'):
                ref = list(ref)
                for x in xs:
                    if x not in ref:
                        ref.append(x)
            else:
                ref = [x for x in ref if x not in xs]
            got = [U.idx(e) for e in c]
            if got != ref:
                return ('contents', 'after op %d %r: items %r, expected %r' % (n, op, got, ref))
            if type(c) is not TagCollection:
                return ('type', 'after op %d result is %s' % (n, type(c).__name__))
            if sorted(U.idx_of_uid[u] for u in c.uids) != sorted(ref):
                return ('uids', 'after op %d %r: uids %r vs items %r' % (n, op, sorted(U.idx_of_uid[u] for u in c.uids), ref))
            for i in U.order:
                if (U.by_idx[i] in c) != (i in ref):
                    return ('membership', 'after op %d: %d in c = %r' % (n, i, U.by_idx[i] in c))
            exp_all = []
            for x in ref:
                for y in desc[x]:
                    if y not in exp_all:
                        exp_all.append(y)
            got_all = [U.idx(e) for e in c.getAllNodes()]
            if got_all != exp_all:
                return ('getAllNodes', 'after op %d %r: getAllNodes %r, expected %r' % (n, op, got_all, exp_all))
            if sorted(U.idx_of_uid[u] for u in c.getAllNodeUids()) != sorted(exp_all):
                return ('getAllNodeUids', 'after op %d: %r' % (n, op))
            for i in U.order:
                e = U.by_idx[i]
                if c.contains(e) != (i in exp_all) or c.containsUid(e.uid) != (i in exp_all):
                    return ('contains', 'after op %d: contains(%d) = %r / containsUid = %r, expected %r'
                            % (n, i, c.contains(e), c.containsUid(e.uid), i in exp_all))
            for o, oref, k in olds:
                if o is c:
                    continue
                got_o = [U.idx(e) for e in o]
                uids_o = sorted(U.idx_of_uid[u] for u in o.uids)
                if got_o != oref or uids_o != sorted(oref) or any((U.by_idx[i] in o) != (i in oref) for i in U.order):
                    return ('operand-changed', 'after op %d %r: the left operand of op %d now has items %r, uids %r, expected %r'
                            % (n, op, k, got_o, uids_o, oref))
        fk = repr(d['forest'])
        if fk not in self._identity_done:
            self._identity_done[fk] = self.identity_oracle(U)
        return self._identity_done[fk]

    _identity_done = {}

    def identity_oracle(self, U):
        AHP = U.AHP
        originals = [U.by_idx[i] for i in U.order]
        pool = [('orig', e) for e in originals]
        for e in originals[:3]:
            pool.append(('clone', e.cloneNode()))
            pool.append(('copy', copy.copy(e)))
            pool.append(('deepcopy', copy.deepcopy(e)))
            pool.append(('lookalike', AHP.AdvancedTag(e.tagName, e.getAttributesList())))
        for r in U.roots[:2]:
            if r.parentNode is None:
                for proto in (0, 2, pickle.HIGHEST_PROTOCOL):
                    pool.append(('unpickled', pickle.loads(pickle.dumps(r, proto))))
        for (ka, a), (kb, b) in itertools.combinations_with_replacement(pool, 2):
            same = a.uid == b.uid
            if (a == b) != same or (a != b) == same or (b == a) != same:
                return ('identity', '%s/%s: == is %r but uids %s' % (ka, kb, a == b, 'equal' if same else 'differ'))
            if same and hash(a) != hash(b):
                return ('hash', '%s/%s equal but hash differently' % (ka, kb))
            if not same and hash(a) == hash(b):
                # "hash alike exactly when they are the same element": a hash that ignores the uid (name, attributes)
                # collides for every look-alike; a 64-bit uid hash colliding here is not a realistic event
                return ('hash', '%s/%s are different elements (<%s>/<%s>) but hash alike' % (ka, kb, a.tagName, b.tagName))
            if a.isEqualNode(b) != same:
                return ('identity', 'isEqualNode disagrees with ==')
            te = (a.tagName == b.tagName and dict(a.getAttributesList()) == dict(b.getAttributesList()))
            if a.isTagEqual(b) != te or b.isTagEqual(a) != te:
                return ('isTagEqual', '%s/%s: isTagEqual %r, name+attributes equal %r' % (ka, kb, a.isTagEqual(b), te))
        for k, e in pool:
            if k in ('clone', 'copy', 'deepcopy') and any(e.uid == o.uid for o in originals):
                return ('identity', '%s shares the uid of its original' % k)
        return None
