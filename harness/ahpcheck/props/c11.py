"""
C11 — formatting preserves the document: structure, attributes, text, preformatted.

Stream `C11`.  A case is a document (text), a chain of formatters applied beforehand ("formatter output fed back into
each formatter"), the formatter configuration under test and the entry point (`via`).  The token sequence the stdlib
tokenizer produces for the text actually fed is recorded by `Recorder` (a plain html.parser subclass, convert_charrefs
off, never close()d — exactly how the library drives it) and sent to the model; the model's output string is compared
with the real formatter's.  The plain parser's `getHTML()` is compared with the model's plain builder on the same
tokens (C11 compares the formatter's tree with the plain parser's tree).

This module also holds what C12 shares with C11: generators, formatter runner, tokenizer, encoders.
"""
import json
import re
from html.parser import HTMLParser

from ..core import PropCheck, Case, sx, enc, opt

WRAPPER = 'xxxblank'
PRE = ('pre', 'code')
RAW = ('script', 'style')
VOID = ('br', 'img', 'input', 'hr', 'meta', 'link')
BLOCK = ('div', 'p', 'ul', 'li', 'section', 'table', 'tr', 'td', 'h1', 'form', 'body', 'blockquote')
INLINE = ('span', 'b', 'i', 'a', 'em', 'u', 'label', 'textarea', 'samp', 'kbd')      # the last three look white-space sensitive but are not exempt
CLASSES = ('pretty', 'mini', 'slim', 'slimmini')


# ------------------------------------------------------------------------------------------------
# the recording tokenizer

class Recorder(HTMLParser):
    def __init__(self, positions=False):
        HTMLParser.__init__(self)
        self.convert_charrefs = False
        self.toks = []
        self.positions = positions

    def _add(self, t):
        if self.positions:
            t.append(self.getpos())
        self.toks.append(t)

    def handle_starttag(self, tag, attrs):
        t = ['s', tag, [[k, v] for k, v in attrs]]
        if self.positions:
            t.append(self.get_starttag_text())
        self._add(t)

    def handle_startendtag(self, tag, attrs):
        t = ['se', tag, [[k, v] for k, v in attrs]]
        if self.positions:
            t.append(self.get_starttag_text())
        self._add(t)

    def handle_endtag(self, tag):
        self._add(['e', tag])

    def handle_data(self, data):
        self._add(['d', data])

    def handle_entityref(self, name):
        self._add(['er', name])

    def handle_charref(self, name):
        self._add(['cr', name])

    def handle_comment(self, data):
        self._add(['c', data])

    def handle_decl(self, decl):
        self._add(['dl', decl])

    def unknown_decl(self, data):
        self._add(['ud', data])

    def handle_pi(self, data):
        self._add(['pi', data])


def tokens(text, positions=False):
    r = Recorder(positions)
    r.feed(text)
    return r.toks


_DOCTYPE_LEAD = re.compile('[\n]*[ \t]*<[!][ \t]*[dD][oO][cC][tT][yY][pP][eE][^>]*[>]')


def wrapped_text(text):
    """The harness' own reading of feed()'s second pass: the wrapper start tag goes after a leading doctype."""
    m = _DOCTYPE_LEAD.match(text)
    i = m.end() if m else 0
    return text[:i] + '<' + WRAPPER + '>' + text[i:] + '</' + WRAPPER + '>'


def wrap_tokens(toks):
    """Token image of the same (mirror of Fmt.wrapToks in the model)."""
    ws, we = ['s', WRAPPER, []], ['e', WRAPPER]
    def lead(s):
        return re.fullmatch('[\n]*[ \t]*', s) is not None
    def isdt(d):
        return d[:7].lower() == 'doctype'
    if toks and toks[0][0] == 'dl' and isdt(toks[0][1]):
        return [toks[0], ws] + toks[1:] + [we]
    if len(toks) > 1 and toks[0][0] == 'd' and toks[1][0] == 'dl' and lead(toks[0][1]) and isdt(toks[1][1]):
        return toks[:2] + [ws] + toks[2:] + [we]
    return [ws] + toks + [we]


def lexwrap_ok(text):
    """Does the tokenizer see the wrapped text as the wrapped token sequence?  (Otherwise the second pass is outside
    the token-level model: unterminated construct at the end, `<! doctype`, …)"""
    try:
        return tokens(wrapped_text(text)) == wrap_tokens(tokens(text))
    except Exception:
        return False


def enc_tok(t):
    k = t[0]
    if k in ('s', 'se'):
        return sx(k, enc(t[1]), [[enc(n), opt(v)] for n, v in t[2]])
    return sx(k, enc(t[1]))


def enc_toks(toks):
    return '(' + ' '.join(enc_tok(t) for t in toks) + ')'


def enc_cfg(cfg):
    ind = cfg.get('indent')
    if ind is None:
        i = 'dflt'
    elif isinstance(ind, int):
        i = '(int %d)' % ind
    else:
        i = enc(ind)
    return sx(cfg['cls'], i, bool(cfg.get('ssc')))


# ------------------------------------------------------------------------------------------------
# running the real formatters

def make_formatter(cfg):
    from AdvancedHTMLParser import Formatter as F
    cls = cfg['cls']
    kw = {'encoding': cfg.get('enc')}
    ind = cfg.get('indent')
    if cls == 'pretty':
        if ind is not None:
            kw['indent'] = ind
        return F.AdvancedHTMLFormatter(**kw)
    if cls == 'mini':
        return F.AdvancedHTMLMiniFormatter(**kw)
    if cls == 'slim':
        if ind is not None:
            kw['indent'] = ind
        return F.AdvancedHTMLSlimTagFormatter(slimSelfClosing=bool(cfg.get('ssc')), **kw)
    if cls == 'slimmini':
        return F.AdvancedHTMLSlimTagMiniFormatter(slimSelfClosing=bool(cfg.get('ssc')), **kw)
    raise ValueError(cls)


DIRTY = '<!DOCTYPE dirty><div><pre><b>x<code>'      # leaves a doctype, level 4, inPreformatted 2, four open elements behind


_tmpdir = []


def tmp_file(text):
    """The document as a UTF-8 file in a private scratch directory (removed at exit)."""
    import atexit
    import os
    import shutil
    import tempfile
    if not _tmpdir:
        _tmpdir.append(tempfile.mkdtemp(prefix='ahp-c11-'))
        atexit.register(shutil.rmtree, _tmpdir[0], True)
    path = os.path.join(_tmpdir[0], 'doc.html')
    with open(path, 'wb') as fh:
        fh.write(text.encode('utf-8'))
    return path


def run_formatter(cfg, text, via='str'):
    """Returns (formatter object, html)."""
    f = make_formatter(cfg)
    if via == 'bytes' and cfg.get('enc'):
        f.parseStr(text.encode(cfg['enc']))
    elif via == 'file' and cfg.get('enc'):
        f.parseFile(tmp_file(text))             # codecs.open(..., encoding): decoded, no newline translation
    elif via == 'fileobj':
        with open(tmp_file(text), 'r', encoding='utf-8', newline='') as fh:
            f.parseFile(fh)
    elif via == 'feed':
        f.feed(text)
    elif via == 'reuse':
        f.parseStr(DIRTY)
        f.getHTML()
        f.parseStr(text)
    elif via == 'reusefile':
        f.parseStr(DIRTY)
        with open(tmp_file(text), 'r', encoding='utf-8', newline='') as fh:
            f.parseFile(fh)
    else:
        f.parseStr(text)
    _decoy(cfg)
    return f, f.getHTML()


DECOY_DOC = '<!DOCTYPE decoy><div class="k"><br/><pre> x <b/></pre><img src="i"><code/>y</div>'


def _decoy(cfg):
    """Between the parse and the serialisation of the formatter under test, other formatter objects — the slim classes
    with the *opposite* slimSelfClosing setting and a different indent, and the two normal classes — parse another
    document: a formatter's output depends on its own configuration and input only (state kept on a class or module
    instead of the instance shows here)."""
    from AdvancedHTMLParser import Formatter as F
    for g in (F.AdvancedHTMLSlimTagFormatter(indent='\t\t\t', slimSelfClosing=not cfg.get('ssc')),
              F.AdvancedHTMLSlimTagMiniFormatter(slimSelfClosing=not cfg.get('ssc')),
              F.AdvancedHTMLFormatter(indent='   '), F.AdvancedHTMLMiniFormatter()):
        try:
            g.parseStr(DECOY_DOC)
        except Exception:
            pass


def fmt(cfg, text):
    return run_formatter(cfg, text)[1]


def exc_name(e):
    n = type(e).__name__
    if n == 'MultipleRootNodeException':
        return 'multipleRoot'
    if isinstance(e, ValueError) and 'Cannot format' in str(e):
        return 'noRoot'
    if isinstance(e, AttributeError) and "'strip'" in str(e):
        return 'styleNone'
    return n


def indent_str(cfg):
    """Specification of the indent unit of a configuration (class defaults from the documentation of __init__)."""
    if cfg['cls'] in ('mini', 'slimmini'):
        return None
    ind = cfg.get('indent')
    if ind is None:
        return '  ' if cfg['cls'] == 'pretty' else '    '
    if isinstance(ind, int):
        return ' ' * ind
    return ind


# ------------------------------------------------------------------------------------------------
# document generator

WS = (' ', ' ', '  ', '\n', '\n', '\t', '\r\n', '\r', '\n  ', ' \n', '\n\n', '\t ', ' \t', '\n\t\t', '   ', '\n    ')
WORDS = ('a', 'b', 'xy', 'foo', 'bar', 'Hello', 'x1', 'naïve', '日本', 'é', '.', ',', 'q-r', 'W')
ODDWS = (' ', ' ', '\x0b', '\x0c', '\x1c', ' ', '\u0085')
ENTITIES = ('&amp;', '&lt;', '&nbsp;', '&#65;', '&#x41;', '&copy;', '&#10;', '&unknownent;', '&Auml;', '&AMP;', '&#X4a;', '&Eacute;')
COMMENTS = ('<!-- c -->', '<!---->', '<!--x-->', '<!-- Mixed Case é -->', '<!-- a\n\tb -->', '<!--  two  spaces  -->', '<!-- <b>not a tag</b> -->')
SCRIPTS = ('x', 'var a = 1;', 'VAR X = "É";', 'if (a < b && c) {\n\tf();\n}', '\n  f("</b");\n', 'a\n', 'a\n  ', 'a\n    ', '\n', '',
           ' ', '\tb { color: red }\n', 'x\n\n', 'x \n  \n  ', 'a\r\n', '  lead', 'p > q { }')

ATTRS = (
    ('id', 'x1'), ('id', 'y'), ('title', 'a b'), ('title', 'Mixed Case'), ('data-k', 'CamelCase'), ('title', ' lead and trail '), ('data-k', 'v "q"'), ('href', '/a?b=1'),
    ('checked', None), ('disabled', ''), ('hidden', 'hidden'), ('readonly', None), ('readonly', ''), ('selected', None),
    ('class', ' a  b '), ('class', 'c'), ('class', 'one two  three'), ('class', ''), ('class', 'tab\tin'),
    ('style', 'color: red'), ('style', 'color:red; Top : 1px;'), ('style', ''), ('style', ' ; junk ; a:b'),
    ('style', 'background: url(x:y)'), ('style', None),
    ('spellcheck', 'false'), ('spellcheck', 'No'), ('alt', 'a>b'), ('alt', 'a<b'), ('t', 'ünï'), ('_u', ''),
    ('a-b', 'x'), ('onclick', 'f(\'a\', "b")'), ('x', "it's"), ('bad$name', '1'), ('name', 'n'), ('value', 'a & b'),
    ('value', ' >'), ('value', ' />'), ('data-nl', 'a\nb'), ('data-tab', 'a\tb'),
)


def render_attr(rng, name, value):
    if rng.random() < 0.15:
        name = name.upper()
    if value is None:
        return name
    r = rng.random()
    if '"' not in value and r < 0.7:
        return '%s="%s"' % (name, value)
    if "'" not in value and r < 0.9:
        return "%s='%s'" % (name, value)
    if value and re.fullmatch(r'[A-Za-z0-9_./?=-]+', value):
        return '%s=%s' % (name, value)
    if '"' not in value:
        return '%s="%s"' % (name, value)
    if "'" not in value:
        return "%s='%s'" % (name, value)
    return '%s="%s"' % (name, value.replace('"', '&quot;'))


class DocGen(object):
    def __init__(self, rng):
        self.rng = rng

    def ws(self):
        return self.rng.choice(WS)

    def word(self):
        r = self.rng
        if r.random() < 0.04:
            return r.choice(ODDWS)
        return r.choice(WORDS)

    def text(self, lead=None, trail=None, atoms=None, in_pre=False):
        r = self.rng
        out = []
        if (r.random() < 0.45) if lead is None else lead:
            out.append(self.ws())
        n = atoms if atoms is not None else r.choice((1, 1, 1, 2, 2, 3, 5))
        for i in range(n):
            x = r.random()
            if x < 0.55:
                out.append(self.word())
            elif x < 0.67:
                out.append(r.choice(ENTITIES))
            elif x < 0.77:
                out.append(r.choice(COMMENTS))
            elif x < 0.80:
                out.append(r.choice((' & ', ' < ', 'a & b', '1 < 2')))
            else:
                out.append(self.ws())
            if i + 1 < n and r.random() < 0.6:
                out.append(self.ws())
        if (r.random() < 0.45) if trail is None else trail:
            out.append(self.ws())
        return ''.join(out)

    def attrs(self):
        r = self.rng
        n = r.choice((0, 0, 0, 1, 1, 2, 3))
        parts = []
        for _ in range(n):
            k, v = r.choice(ATTRS)
            parts.append(render_attr(r, k, v))
        if parts and r.random() < 0.1:
            parts.append(parts[0])
        sep = ' ' if r.random() < 0.85 else r.choice(('  ', '\n', '\t'))
        return ''.join(sep + p for p in parts)

    def name(self, names):
        n = self.rng.choice(names)
        return n.upper() if self.rng.random() < 0.08 else n

    def start(self, name, selfclose=False):
        r = self.rng
        tail = ''
        if selfclose:
            tail = r.choice(('/', ' /', '/'))
        elif r.random() < 0.1:
            tail = r.choice((' ', '\n'))
        return '<%s%s%s>' % (name, self.attrs(), tail)

    def end(self, name):
        r = self.rng
        x = r.random()
        if x < 0.06:
            return ''                       # left open: closed implicitly by an ancestor's end tag or the end of input
        if x < 0.10:
            return '</%s >' % name
        if x < 0.13:
            return '</%s>' % name.upper()
        return '</%s>' % name

    def element(self, depth, in_pre=False):
        r = self.rng
        x = r.random()
        if x < 0.13:
            n = self.name(VOID)
            return r.choice(('<%s%s>', '<%s%s/>', '<%s%s />')) % (n, self.attrs())
        if x < 0.17:
            n = self.name(BLOCK + INLINE + PRE + RAW)
            return self.start(n, selfclose=True)
        if x < 0.25:
            n = self.name(RAW)
            return self.start(n) + r.choice(SCRIPTS) + '</%s>' % n
        if x < 0.36 or (in_pre and x < 0.45):
            n = self.name(PRE)
            return self.start(n) + self.content(depth + 1, True) + self.end(n)
        if x < 0.70:
            n = self.name(INLINE)
        else:
            n = self.name(BLOCK)
        return self.start(n) + self.content(depth + 1, in_pre) + self.end(n)

    def content(self, depth, in_pre=False):
        r = self.rng
        if depth > 6:
            return self.text() if r.random() < 0.8 else ''
        n = r.choice((0, 1, 1, 2, 2, 3, 4))
        if depth > 3:
            n = min(n, 2)
        out = []
        for _ in range(n):
            x = r.random()
            if x < 0.45:
                out.append(self.text(in_pre=in_pre))
            elif x < 0.48:
                out.append('</%s>' % r.choice(('zzz', 'div', 'span', 'pre', 'b')))     # stray or early close
            elif x < 0.495:
                out.append(r.choice(('<!DOCTYPE second>', '<?pi x?>')))  # a declaration or processing instruction in the body
            else:
                out.append(self.element(depth, in_pre))
        return ''.join(out)

    def doctype(self):
        r = self.rng
        d = r.choice(('<!DOCTYPE html>', '<!doctype html>', '<!DOCTYPE html PUBLIC "-//W3C//DTD XHTML 1.0 Strict//EN" "x.dtd">'))
        return r.choice(('', '', '\n', '  ', '\n\n\t')) + d + r.choice(('', '\n', '\n\n', ' ', '\r\n'))

    # ---- document shapes --------------------------------------------------------------------
    def single(self):
        r = self.rng
        n = self.name(('html', 'div', 'body', 'section', 'p', 'span', 'pre'))
        doc = self.start(n) + self.content(1, n.lower() in PRE) + self.end(n)
        if r.random() < 0.3:
            doc = self.doctype() + doc
        if r.random() < 0.3:
            doc = r.choice(('\n', ' ', '\n\n  ')) + doc
        if r.random() < 0.4:
            doc = doc + r.choice(('\n', ' ', '\n\n', '\r\n'))
        return doc

    def multi(self):
        r = self.rng
        parts = []
        if r.random() < 0.3:
            parts.append(self.text())
        for _ in range(r.choice((2, 2, 3, 4))):
            parts.append(self.element(1))
            if r.random() < 0.4:
                parts.append(self.text())
            elif r.random() < 0.3:
                parts.append(self.ws())
        doc = ''.join(parts)
        if r.random() < 0.4:
            doc = self.doctype() + doc
        return doc

    def deep(self):
        r = self.rng
        d = r.randint(8, 30)
        names = [self.name(BLOCK + INLINE + (('pre',) if r.random() < 0.2 else ())) for _ in range(d)]
        out = []
        for n in names:
            out.append(self.start(n))
            if r.random() < 0.3:
                out.append(self.text(atoms=1))
        out.append(self.text())
        if r.random() < 0.3:
            out.append(self.element(7))
        closes = list(reversed(names))
        x = r.random()
        if x < 0.25:
            closes = closes[r.randint(1, len(closes) - 1):]     # only outer end tags: the inner ones close implicitly
        elif x < 0.4:
            closes = closes[:r.randint(0, len(closes) - 1)]     # left open at the end of input
        for n in closes:
            out.append('</%s>' % n.lower())
            if r.random() < 0.2:
                out.append(self.text(atoms=1))
        return ''.join(out)

    def inline_run(self):
        r = self.rng
        n = self.name(('p', 'div', 'li', 'td'))
        out = [self.start(n)]
        for _ in range(r.randint(12, 50)):
            x = r.random()
            if x < 0.45:
                out.append(self.text(atoms=r.choice((1, 2))))
            elif x < 0.85:
                i = self.name(INLINE)
                out.append('<%s%s>%s</%s>' % (i, self.attrs(), self.text(atoms=1), i.lower()))
            else:
                out.append(r.choice(('<br>', '<br/>', '<img src="a.png">', '<hr />')))
        out.append('</%s>' % n.lower())
        return ''.join(out)

    def prenest(self):
        r = self.rng
        outer = r.choice(('div', 'body', 'pre', 'code', 'td'))
        out = ['<%s>' % outer, self.text() if r.random() < 0.5 else '']
        for _ in range(r.randint(1, 3)):
            p = r.choice(PRE)
            out.append(self.start(p))
            for _ in range(r.randint(1, 4)):
                x = r.random()
                if x < 0.4:
                    out.append(self.ws() + self.word() + self.ws())
                elif x < 0.75:
                    i = r.choice(INLINE + PRE)
                    inner = r.choice((self.ws(), '')) + self.word() + r.choice((self.ws(), ''))
                    if r.random() < 0.3:
                        j = r.choice(INLINE)
                        inner += '<%s>%s%s%s</%s>' % (j, self.ws(), self.word(), self.ws(), j)
                    out.append('<%s>%s</%s>' % (i, inner, i))
                elif x < 0.85:
                    out.append(r.choice(('<br>', '<pre/>', '<code />', '<span/>')))
                else:
                    out.append(self.text())
            out.append(self.end(p))
            out.append(self.text() if r.random() < 0.6 else '')
            if r.random() < 0.5:
                out.append('<p>%s</p>' % self.text())
        out.append('</%s>' % outer)
        return ''.join(out)

    def document(self):
        x = self.rng.random()
        if x < 0.40:
            return 'single', self.single()
        if x < 0.62:
            return 'multi', self.multi()
        if x < 0.72:
            return 'deep', self.deep()
        if x < 0.82:
            return 'inline-run', self.inline_run()
        return 'prenest', self.prenest()


INDENTS = ('', ' ', '  ', '\t', 4, '  ', 4, None, 2, 0, ' \t', '    ')


def random_cfg(rng, classes=CLASSES):
    return {'cls': rng.choice(classes), 'indent': rng.choice(INDENTS), 'enc': rng.choice(('utf-8', None)),
            'ssc': rng.random() < 0.5}


FIXED_DOCS = (
    '<pre><span>  x  </span></pre>',
    '<div><pre/><p>a</p></div>',
    '<div><code /> <b>x</b></div>',
    '<div><script>x</script><style>\n  b{}\n  </style></div>',
    '<html><body><p>a <b> b </b>\n c</p><br><img src="a"></body></html>',
    '<!DOCTYPE html><p>a</p><p>b</p>',
    'text <b>x</b> more',
    '<div CLASS=" a  b " style="color:red;Top: 1px" checked id=x id=y a$b=1 disabled="">x</div>',
    '<div>a &amp; b &#65; <!-- c -->\n\t d</div>',
    '<code> a <i> b </i></code>',
    '<div><pre>a<b></pre>x<i>y</i></div>',
    '<ul><li>a<li>b</ul><p>c',
    '<div><pre><code> x </code>\n y\t</pre>\n<span>\t z \t</span></div>',
    '\n\n  <!DOCTYPE html>\n<html><head><meta charset="utf-8"></head><body>x</body></html>\n',
    '<b>x</b> y',
    '<!-- c --><b>x</b>',
    '<div>\n</div>',
    '<div> </div><div>\t</div>',
    '<div><b> </b></div>',
    '<p>a<p>b</div>c',
    '<a><b><c><d><e>x</a>y',
    '<div> x </div>',
    '<div>  x  </div>',
    '<table><tr><td>1<td>2<tr><td>3</table>',
    '<div><br></br><input disabled><hr/></div>',
)


def gen_cases(tier, rng, classes=CLASSES, n_quick=5000, n_thorough=60000):
    """Common case stream of C11 and C12."""
    for doc in FIXED_DOCS:
        for cls in classes:
            for ind in (('  ', '\t', 4) if cls in ('pretty', 'slim') else (None,)):
                yield Case({'doc': doc, 'shape': 'fixed', 'pre': [], 'via': 'str',
                            'cfg': {'cls': cls, 'indent': ind, 'enc': 'utf-8', 'ssc': cls.startswith('slim')}}, 'exhaustive')
    g = DocGen(rng)
    n = n_thorough if tier == 'thorough' else n_quick
    for _ in range(n):
        shape, doc = g.document()
        cfg = random_cfg(rng, classes)
        pre = []
        x = rng.random()
        if x < 0.25:
            pre = [random_cfg(rng)]
        elif x < 0.33:
            pre = [random_cfg(rng), random_cfg(rng)]
        elif x < 0.40:
            pre = [dict(cfg)]
        via = rng.choice(('str', 'str', 'str', 'str', 'bytes', 'feed', 'reuse', 'reuse', 'parser', 'parser', 'file', 'fileobj', 'reusefile'))
        if via in ('bytes', 'file') and not cfg['enc']:
            via = 'str'
        if via == 'parser' and cfg['cls'] not in ('pretty', 'mini'):
            via = 'str'
        yield Case({'doc': doc, 'shape': shape, 'pre': pre, 'cfg': cfg, 'via': via}, 'random')


def shrink_doc(doc):
    chunks = re.findall(r'<[^<>]*>|[^<]+|<', doc)
    n = len(chunks)
    # drop halves / quarters first, then single chunks, then pairs of tags, then shorten text chunks
    for size in (n // 2, n // 4, n // 8):
        if size >= 2:
            for i in range(0, n, size):
                yield ''.join(chunks[:i] + chunks[i + size:])
    for i in range(n):
        yield ''.join(chunks[:i] + chunks[i + 1:])
    for i in range(n):
        if chunks[i].startswith('<') and not chunks[i].startswith('</'):
            for j in range(i + 1, n):
                if chunks[j].startswith('</'):
                    yield ''.join(chunks[:i] + chunks[i + 1:j] + chunks[j + 1:])
                    break
    for i in range(n):
        c = chunks[i]
        if not c.startswith('<') and len(c) > 1:
            yield ''.join(chunks[:i] + [c[:len(c) // 2]] + chunks[i + 1:])
            yield ''.join(chunks[:i] + [c[len(c) // 2:]] + chunks[i + 1:])
        elif c.startswith('<') and ' ' in c.strip('<>/ ') and not c.startswith('<!'):
            yield ''.join(chunks[:i] + [re.sub(r'^(<\w+)[^>]*?(/?>)$', r'\1\2', c, flags=re.S)] + chunks[i + 1:])


def shrink_case(d):
    if d['pre']:
        yield dict(d, pre=[])
        yield dict(d, pre=d['pre'][1:])
    if d['via'] != 'str':
        yield dict(d, via='str')
    for doc in shrink_doc(d['doc']):
        if doc != d['doc']:
            yield dict(d, doc=doc)
    c = d['cfg']
    if c.get('enc') is None:
        yield dict(d, cfg=dict(c, enc='utf-8'))
    if c.get('indent') not in ('  ',):
        yield dict(d, cfg=dict(c, indent='  '))


def doc_features(d):
    doc = d['doc']
    low = doc.lower()
    fs = ['shape:' + d.get('shape', '?'), 'cls:' + d['cfg']['cls'], 'via:' + d['via'], 'pre-passes=%d' % len(d['pre']),
          'indent:%r' % (d['cfg'].get('indent'),), 'enc:%s' % d['cfg'].get('enc'), 'size<=%d' % (64 * (1 + len(doc) // 64) if len(doc) < 512 else 9999)]
    if d['cfg']['cls'].startswith('slim'):
        fs.append('ssc:%s' % bool(d['cfg'].get('ssc')))
    for tag, f in (('<pre', 'has-pre'), ('<code', 'has-code'), ('<script', 'has-script'), ('<style', 'has-style'),
                   ('<!doctype', 'has-doctype'), ('<!--', 'has-comment'), ('&', 'has-ref-or-amp'), ('\t', 'has-tab'),
                   ('\r', 'has-cr'), ('<pre/', 'selfclosed-pre'), ('<code /', 'selfclosed-code')):
        if tag in low:
            fs.append(f)
    if re.search(r'<(pre|code)\b[^>]*>(?:(?!</\1).)*<(span|b|i|a|em|u|label)\b', low, re.S):
        fs.append('inline-inside-pre')
    return fs


# ------------------------------------------------------------------------------------------------
# per-case preparation shared by encode / impl / oracle (memoised on the last few cases)

class Prepared(object):
    """doc1 = the text after the `pre` chain; src = what the formatter under test is fed (doc1, or the plain parser's
    getHTML() for via='parser'); toks of both."""

    def __init__(self, d):
        import AdvancedHTMLParser
        self.error = None
        self.doc1 = self.src = None
        from ..core import quiet_call
        quiet_call(self._prepare, d)

    def _prepare(self, d):
        import AdvancedHTMLParser
        try:
            t = d['doc']
            for c in d['pre']:
                t = fmt(c, t)
            self.doc1 = t
            self.strip_ie = AdvancedHTMLParser.utils.stripIEConditionals(t) == t
            if d['via'] == 'parser':
                p = AdvancedHTMLParser.AdvancedHTMLParser()
                p.parseStr(t)
                self.src = p.getHTML()
            else:
                self.src = t
            self.toks1 = tokens(self.doc1)
            self.toks_src = self.toks1 if self.src == self.doc1 else tokens(self.src)
        except Exception as e:                      # the chain itself failed: nothing to compare for this case
            self.error = '%s: %s' % (type(e).__name__, e)


_prep_cache = {}


def prepared(d):
    k = json.dumps(d, sort_keys=True)
    p = _prep_cache.get(k)
    if p is None:
        if len(_prep_cache) > 8:
            _prep_cache.clear()
        p = _prep_cache[k] = Prepared(d)
    return p


def outcome(fn):
    """canonical result of one library call: (ok "html) / (raise kind)"""
    try:
        return ['ok', enc(fn())]
    except Exception as e:
        return ['raise', exc_name(e)]


def plain_html(text):
    import AdvancedHTMLParser
    p = AdvancedHTMLParser.AdvancedHTMLParser()
    p.parseStr(text)
    return p.getHTML()


# ------------------------------------------------------------------------------------------------
# the property itself on the library

def erase_ws(s):
    return ''.join(c for c in s if not c.isspace())


_REF = re.compile(r'&#?[A-Za-z0-9]+;\Z')


def plain_parse(text):
    import AdvancedHTMLParser
    p = AdvancedHTMLParser.AdvancedHTMLParser()
    p.parseStr(text)
    root = p.getRoot()
    if root is None:
        return p.doctype, []
    if root.tagName == WRAPPER:
        return p.doctype, list(root.blocks)
    return p.doctype, [root]


def is_tag(b):
    return hasattr(b, 'tagName')


def items_of(blocks, exact):
    """Blocks of one element as comparison items.  Outside preformatted content: text with all whitespace removed
    (adjacent text merged, empty dropped), comments and references verbatim, elements.  Inside: the text exactly."""
    out = []

    def add_text(kind, s):
        if out and out[-1][0] == kind and kind in ('T', 'X'):
            out[-1] = (kind, out[-1][1] + s)
        else:
            out.append((kind, s))
    for b in blocks:
        if is_tag(b):
            out.append(('E', b))
        elif exact:
            add_text('X', b)
        elif b.startswith('<!--') and b.endswith('-->') and len(b) >= 7:
            out.append(('C', b))
        elif _REF.match(b):
            out.append(('R', b))
        else:
            add_text('T', erase_ws(b))
    return [i for i in out if i[0] == 'E' or i[1] != '']


def compare_blocks(a, b, exact, path, mini):
    """a: blocks of the input tree, b: of the re-parsed output.  Returns None or (kind, detail)."""
    ia, ib = items_of(a, exact), items_of(b, exact)
    for k in range(max(len(ia), len(ib))):
        if k >= len(ia) or k >= len(ib):
            x = ia[k] if k < len(ia) else ib[k]
            what = 'element <%s>' % x[1].tagName if x[0] == 'E' else '%s %r' % (x[0], x[1][:60])
            return ('structure' if x[0] == 'E' else ('preformatted' if exact else 'text'),
                    '%s: %s only in the %s' % (path, what, 'input' if k < len(ia) else 'output'))
        x, y = ia[k], ib[k]
        if x[0] != y[0]:
            return ('structure' if 'E' in (x[0], y[0]) else 'text',
                    '%s: item %d is %s in the input and %s in the output' % (path, k, _show(x), _show(y)))
        if x[0] == 'E':
            r = compare_elem(x[1], y[1], exact, '%s/%s[%d]' % (path, x[1].tagName, k), mini)
            if r is not None:
                return r
        elif x[1] != y[1]:
            kind = {'T': 'text', 'X': 'preformatted', 'C': 'comment', 'R': 'reference'}[x[0]]
            return (kind, '%s: %s differs: input %r, output %r' % (path, kind, x[1][:80], y[1][:80]))
    return None


def _show(x):
    return '<%s>' % x[1].tagName if x[0] == 'E' else '%s %r' % (x[0], x[1][:40])


# boolean attributes: present with an empty value and present without a value are the same attribute (DESIGN C01)
BOOLEAN_ATTRS = frozenset(('hidden', 'checked', 'selected', 'autoplay', 'controls', 'loop', 'muted', 'compact', 'novalidate',
                           'noresize', 'autofocus', 'disabled', 'formnovalidate', 'multiple', 'required', 'declare',
                           'reversed', 'async', 'defer', 'nowrap', 'default', 'readonly'))


def attrs_of(e):
    return sorted((k, '' if (v is None and k in BOOLEAN_ATTRS) else v) for k, v in e.getAttributesList())


def compare_elem(a, b, exact, path, mini):
    if a.tagName != b.tagName:
        return ('structure', '%s: element <%s> became <%s>' % (path, a.tagName, b.tagName))
    if attrs_of(a) != attrs_of(b):
        return ('attributes', '%s: attributes %r became %r' % (path, attrs_of(a), attrs_of(b)))
    if a.tagName in RAW and not exact:
        if any(is_tag(x) for x in a.blocks) or any(is_tag(x) for x in b.blocks):
            return compare_blocks(a.blocks, b.blocks, True, path, mini)
        ta, tb = ''.join(a.blocks), ''.join(b.blocks)
        if ta == tb:
            return None
        if not mini and tb.startswith(ta) and re.fullmatch(r'\n[ \t]*', tb[len(ta):]):
            return None                     # the line break and indentation placed before the end tag
        return ('raw-content', '%s: %s content %r became %r' % (path, a.tagName, ta[:80], tb[:80]))
    return compare_blocks(a.blocks, b.blocks, exact or a.tagName in PRE, path, mini)


def preserves(src, out, mini):
    """C11 on one (input text, formatter output) pair, with the real plain parser as the reader of both."""
    dt_in, top_in = plain_parse(src)
    dt_out, top_out = plain_parse(out)
    if (dt_in or None) != (dt_out or None):
        return ('doctype', 'doctype %r became %r' % (dt_in, dt_out))
    r = compare_blocks(top_in, top_out, False, '', mini)
    if r is not None:
        if singleton_joined(src):
            # the recorded finding's class, recognised on the input alone: a literal '<' or '&' directly followed by a
            # text piece that starts with a line break — the data rule strips the break and the two touch in the output
            return ('singleton-joined', '%s: %s' % (r[0], r[1]))
        return r
    # anchor outside the library: every start tag of the input (as the stdlib tokenizer reports it) becomes one element, in
    # document order, whose attributes are those written in the input (C02's independent intake reference) — two parses by
    # the same library that are wrong alike would otherwise pass
    from . import c02
    starts = [t for t in tokens(src) if t[0] in ('s', 'se') and t[1] != WRAPPER]

    def elements(blocks):
        for b in blocks:
            if is_tag(b):
                yield b
                for x in elements(b.blocks):
                    yield x
    els = list(elements(top_out))
    if len(els) == len(starts) and all(t[1].isascii() and all(k.isascii() for k, _ in t[2]) for t in starts):
        for t, e in zip(starts, els):
            if e.tagName == t[1] and not c02.attrs_match(c02.spec_attrs([tuple(a) for a in t[2]]), e.getAttributesList(), loose_bool=True):
                return ('attributes', '<%s>: the input has %r, the output parses to %r' % (t[1], t[2], e.getAttributesList()))
    return None


def singleton_joined(src):
    """does the input hold a text piece ending in a literal '<' or '&' directly followed (as the stdlib tokenizer cuts it) by
    a text piece that starts with a line break and continues with a character other than a blank?"""
    toks = tokens(src)
    for a, b in zip(toks, toks[1:]):
        if a[0] == 'd' and b[0] == 'd' and a[1][-1:] in ('<', '&') and b[1][:1] in ('\r', '\n'):
            rest = b[1].replace('\t', ' ').strip('\r\n')
            if rest and rest[0] != ' ':
                return True
    return False


class Check(PropCheck):
    id = 'C11'
    stream = 'C11'
    rule = ('documents from a structured generator (single root / multi-root fragments with top-level text / nesting to 30 / '
            'long inline runs / pre and code nested in each other with inline children and leading, trailing, internal '
            'whitespace, tabs, CR/LF / script and style / void and self-closed elements / implicit and stray closes / '
            'comments, references, odd whitespace, attributes of every rendering form) x the four formatter classes x indent in '
            "{'', ' ', '  ', '\\t', ' \\t', '    ', 0, 2, 4, default} x encoding in {utf-8, None} x slimSelfClosing x entry point "
            '(parseStr str/bytes, parseFile path/file object, feed, re-used object, parser.getFormattedHTML/getMiniHTML) x 0-2 formatter passes applied '
            'beforehand; 25 fixed documents x all classes x three indents.  Non-trivial: the document has at least two elements '
            'and some text; distinct by canonical JSON')
    assumptions = [
        'token level: the model consumes the token sequence the stdlib tokenizer reports for the text fed; that the '
        'second pass (text re-fed inside the invisible wrapper) tokenizes as the wrapped token sequence is checked per case, '
        'cases where it does not (unterminated construct at the very end) are compared on the first pass only',
        'attribute names and tag names are ASCII (the model lower-cases and classifies ASCII only)',
        'the documents contain no IE conditional comments (stripIEConditionals is the identity on them; checked per case)',
    ]

    def cases(self, tier, rng):
        return gen_cases(tier, rng)

    def nontrivial(self, d):
        return len(re.findall(r'<[a-zA-Z]', d['doc'])) >= 2 and re.search(r'>[^<]*\w', d['doc']) is not None

    def features(self, d):
        return doc_features(d)

    def shrink(self, d):
        return shrink_case(d)

    # ---- both sides ------------------------------------------------------------------------
    full = False

    def encode(self, d):
        p = prepared(d)
        if p.error:
            return '()'
        groups = []
        if p.src is p.doc1 or p.src == p.doc1:
            groups.append('(%s (plain) %s)' % (enc_toks(p.toks1), enc_cfg(d['cfg'])))
        else:
            groups.append('(%s (plain))' % enc_toks(p.toks1))
            groups.append('(%s %s)' % (enc_toks(p.toks_src), enc_cfg(d['cfg'])))
        return '(' + ' '.join(groups) + ')'

    def observe_formatter(self, f, html):
        return ['ok', enc(html)]

    def impl(self, d):
        p = prepared(d)
        if p.error:
            return '()'
        cfg = d['cfg']
        plain = outcome(lambda: plain_html(p.doc1))

        def main():
            if d['via'] == 'parser':
                import AdvancedHTMLParser
                ps = AdvancedHTMLParser.AdvancedHTMLParser()
                ps.parseStr(p.doc1)
                if cfg['cls'] == 'mini':
                    return ['ok', enc(ps.getMiniHTML())]
                if cfg.get('indent') is None:
                    return ['ok', enc(ps.getFormattedHTML())]
                return ['ok', enc(ps.getFormattedHTML(cfg['indent']))]
            f, html = run_formatter(cfg, p.src, d['via'])
            try:
                self.last_root_is_wrapper = f.root is not None and f.root.tagName == WRAPPER
            except Exception:
                self.last_root_is_wrapper = True
            return self.observe_formatter(f, html)
        self.last_root_is_wrapper = False
        try:
            m = main()
        except Exception as e:
            m = ['raise', exc_name(e)]
        if not p.strip_ie:
            return '(skip ie-conditional)'
        for text in set((p.doc1, p.src)):
            if not lexwrap_ok(text) and self._second_pass(text):
                return '(skip lexwrap)'
        if p.src == p.doc1:
            return sx([plain, m])
        return sx([plain], [m])

    @staticmethod
    def _second_pass(text):
        """did the library need the wrapper for this text? (asks the plain parser)"""
        try:
            import AdvancedHTMLParser
            ps = AdvancedHTMLParser.AdvancedHTMLParser()
            ps.parseStr(text)
            return ps.getRoot() is not None and ps.getRoot().tagName == WRAPPER
        except Exception:
            return True

    def compare(self, model_out, impl_out, d):
        if impl_out.startswith('(skip'):
            return None
        return PropCheck.compare(self, model_out, impl_out, d)

    # ---- the property itself -----------------------------------------------------------------
    def oracle(self, d):
        p = prepared(d)
        if p.error:
            return None
        cfg = d['cfg']
        mini = cfg['cls'] in ('mini', 'slimmini')
        try:
            if d['via'] == 'parser':
                import AdvancedHTMLParser
                ps = AdvancedHTMLParser.AdvancedHTMLParser()
                ps.parseStr(p.doc1)
                if ps.getRoot() is None:
                    return None
                if mini:
                    out = ps.getMiniHTML()
                    direct = fmt({'cls': 'mini', 'enc': None}, ps.getHTML())
                elif cfg.get('indent') is None:
                    out = ps.getFormattedHTML()
                    direct = fmt({'cls': 'pretty', 'indent': '  ', 'enc': None}, ps.getHTML())
                else:
                    out = ps.getFormattedHTML(cfg['indent'])
                    direct = fmt({'cls': 'pretty', 'indent': cfg['indent'], 'enc': None}, ps.getHTML())
                if out != direct:
                    return ('convenience', 'getFormattedHTML/getMiniHTML differs from the formatter applied to getHTML(): %r vs %r'
                            % (out[:120], direct[:120]))
                src = p.doc1
            else:
                src = p.src
                if not tokens(src) or plain_parse(src)[1] == []:
                    return None                 # nothing parsed: getHTML raises the documented ValueError
                out = run_formatter(cfg, src, d['via'])[1]
        except Exception as e:
            return ('raises', 'formatting raised %s: %s' % (type(e).__name__, e))
        if not isinstance(out, str):
            return ('type', 'getHTML returned %s' % type(out).__name__)
        return preserves(src, out, mini)
