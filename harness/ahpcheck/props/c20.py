"""
C20 — fragment APIs build what the document parser would build, attached where asked.
Stream `C20`: a world (seed tree: detached / parser-owned / indexed-parser-owned, spare elements), a target element,
a fragment text and a createElement name.  The model receives what the *document parser* builds for the text
(dumped from a real parse) and computes createElementFromHTML / createElementsFromHTML / createBlocksFromHTML /
target.appendInnerHTML / createElement from it; the library is asked directly.
The oracle restates the property on the library alone.
"""
from ..core import PropCheck, Case, sx, enc
from . import c04_dom as D
from . import c04 as C04

MRN = 'MultipleRootNodeException'


def to_fn(e, Tag):
    blocks = list(e.blocks)
    if not blocks or blocks[0] != '':
        raise ValueError('a parsed element does not start with the empty indent block')
    kids = [b if not isinstance(b, Tag) else to_fn(b, Tag) for b in blocks[1:]]
    return [e.tagName, [[k, v] for k, v in e.getAttributesList()], 1 if e.isSelfClosing else 0] + kids


def dump_parsed(html, cls=None):
    """what the document parser builds for the text: ['single', fn] | ['multi', fn...] | None (nothing parsed)"""
    import AdvancedHTMLParser as AHP
    p = (cls or AHP.AdvancedHTMLParser)()
    p.parseStr(html)
    root = p.getRoot()
    if root is None:
        return None
    if root.tagName == D.WRAPPER:
        f = to_fn(root, AHP.AdvancedTag)
        return ['multi'] + f[3:]
    return ['single', to_fn(root, AHP.AdvancedTag)]


def canon(b, Tag):
    """structure of a block, independent of identity and bookkeeping"""
    if not isinstance(b, Tag):
        return b
    return (b.tagName, tuple((k, v) for k, v in b.getAttributesList()), bool(b.isSelfClosing), tuple(canon(x, Tag) for x in b.blocks))


class TreeDump(object):
    """canonical dump of returned structures: uids by creation order starting at `base`"""

    def __init__(self, L, base, multi):
        self.L = L
        self.ids = {}
        self.next = base + (1 if multi else 0)

    def number(self, e):
        if e.uid not in self.ids and e.uid not in self.L.idx:
            self.ids[e.uid] = self.next
            self.next += 1
        for b in e.blocks:
            if isinstance(b, self.L.Tag):
                self.number(b)

    def eid(self, e):
        if e is None:
            return 'none'
        if e.uid in self.ids:
            return self.ids[e.uid]
        if e.uid in self.L.idx:
            return self.L.idx[e.uid]
        return 'w'

    def elem(self, e, owner=True):
        out = [self.eid(e), enc(e.tagName), 1 if e.isSelfClosing else 0,
               [enc(b) if isinstance(b, str) else self.eid(b) for b in e.blocks], [self.eid(c) for c in e.children],
               enc(e.text), self.eid(e.parentNode)]
        if owner:
            out.append(self.L.doc_id(e.ownerDocument))
        out.append([[enc(k), ('none' if v is None else enc(v))] for k, v in e.getAttributesList()])
        return out

    def tree(self, e, owner=True):
        out = [self.elem(e, owner)]
        for b in e.blocks:
            if isinstance(b, self.L.Tag):
                out.extend(self.tree(b, owner))
        return out


def parser_class(L):
    return L.AHP.IndexedAdvancedHTMLParser if L.kind == 'idoc' else L.AHP.AdvancedHTMLParser


class Check(PropCheck):
    id = 'C20'
    stream = 'C20'
    exhaustive_in = ()
    rule = ('fragments rendered from random element trees (plain, void, self-closed, nested, attributes; comments and entity '
            'references in text) in the shapes the property lists — a single element, text + element + text, several elements '
            'with and without separating whitespace, text only, whitespace around a single element — in the library\'s own '
            'serialisation style and in plain style; each appended to an empty / non-empty / self-closed / void target that is '
            'detached, inside an AdvancedHTMLParser document or inside an IndexedAdvancedHTMLParser document; createElement with '
            'mixed-case names. A fixed list of hand-written fragments runs first. A case is non-trivial when the fragment has at '
            'least one element; distinct by canonical JSON. Empty and whitespace-only fragments are outside the domain.')
    assumptions = ['the document parser is an input of the model: the tree it builds for the fragment text is dumped from a real '
                   'parse and handed to the model (the tree builder itself is C02\'s subject)',
                   'attributes are plain names (no class / style / boolean attributes)']

    FIXED = ['<div>x</div>', '<div class_="x">y</div>', '<a>1</a><b>2</b>', 'hi <b>x</b> yo', ' <b>x</b> ', 'text', '<a>1</a> <b>2</b>',
             '<br>', '<br /><hr>', '<p>a<br>b</p>', 'a<!-- c -->b', '<i>x</i>&amp;<u>y</u>', '\n<ul><li>1</li><li>2</li></ul>\n',
             '<div id="a" ><span >t</span></div>', '<div /><p />', 'x<img src="y.png">', '<b>unclosed', '</i><b>x</b>',
             '<div title="q&quot;r" >z</div>', '<DIV>Mixed</DIV><Span>Case</Span>']

    # ---- generation -------------------------------------------------------------------------
    def fragment(self, rng):
        def el(top=False):
            return D.random_fn(rng, rng.randint(1, 4), 0 if top else 1, top)

        def render(f, style):
            if isinstance(f, str):
                return f
            name, attrs, sc = f[0], f[1], f[2]
            a = ''.join(' %s' % k if v is None else ' %s="%s"' % (k, v.replace('"', '&quot;')) for k, v in attrs)
            sp = ' ' if style == 'lib' else ''
            if sc:
                return '<%s%s />' % (name, a)
            if name in D.VOID:
                return '<%s%s%s>' % (name, a, ' /' if style == 'lib' else '')
            return '<%s%s%s>%s</%s>' % (name, a, sp, ''.join(render(k, style) for k in f[3:]), name)
        style = rng.choice(['lib', 'plain'])
        text = lambda: rng.choice(['a', 'hi there', 'x &amp; y', 'n&#65;', '<!-- note -->', 'tail', 'A'])
        ws = lambda: rng.choice([' ', '\n', '  \n ', '\t'])
        shape = rng.choice(['single', 'single', 'text-el-text', 'els', 'els', 'els-ws', 'els-ws', 'text', 'ws-single', 'ws-single',
                            'el-text', 'text-el'])
        if shape == 'single':
            parts = [render(el(True), style)]
        elif shape == 'text-el-text':
            parts = [text(), render(el(), style), text()]
        elif shape == 'els':
            parts = [render(el(), style) for _ in range(rng.randint(2, 4))]
        elif shape == 'els-ws':
            parts = []
            for _ in range(rng.randint(2, 4)):
                parts.append(render(el(), style))
                parts.append(ws())
            if rng.random() < 0.5:
                parts.pop()
            if rng.random() < 0.3:
                parts.insert(0, ws())
        elif shape == 'text':
            parts = [text()]
        elif shape == 'ws-single':
            parts = [ws(), render(el(True), style), ws()]
        elif shape == 'el-text':
            parts = [render(el(), style), text()]
        else:
            parts = [text(), render(el(), style)]
        return shape, ''.join(parts)

    def world(self, rng):
        kind = rng.choice(['det', 'doc', 'idoc'])
        r = rng.random()
        if r < 0.2:
            seed = D.E('div')
        elif r < 0.3:
            seed = D.E('div', D.E('br'), D.E('span', sc=1))
        else:
            seed = D.random_fn(rng, rng.randint(1, 8))
        spares = [D.random_fn(rng, rng.randint(1, 2)) for _ in range(rng.randint(0, 2))]
        n = D.fn_count(seed) + sum(D.fn_count(s) for s in spares)
        return kind, seed, spares, rng.randrange(n)

    def cases(self, tier, rng):
        names = ['div', 'DIV', 'Span', 'br', 'img', 'custom-tag', 'P', 'hr', 'tABLE']
        for i, h in enumerate(self.FIXED):
            for kind in ('det', 'doc', 'idoc'):
                for seed, t in ((D.E('div'), 0), (D.E('div', 'a', D.E('b', 'x'), D.E('br'), D.E('p', sc=1)), 0),
                                (D.E('div', 'a', D.E('b', 'x'), D.E('br'), D.E('p', sc=1)), 2),
                                (D.E('div', 'a', D.E('b', 'x'), D.E('br'), D.E('p', sc=1)), 3)):
                    yield Case({'kind': kind, 'seed': seed, 'spares': [D.E('span')], 'target': t, 'html': h,
                                'name': names[i % len(names)]}, 'fixed')
        n = 40000 if tier == 'thorough' else 4000
        for _ in range(n):
            kind, seed, spares, t = self.world(rng)
            shape, h = self.fragment(rng)
            yield Case({'kind': kind, 'seed': seed, 'spares': spares, 'target': t, 'html': h, 'name': rng.choice(names),
                        'shape': shape}, 'random')

    def nontrivial(self, d):
        return '<' in d['html'].replace('<!--', '')

    def features(self, d):
        fs = ['kind:' + d['kind'], 'shape:' + d.get('shape', 'fixed')]
        try:
            p = dump_parsed(d['html'])
            fs.append('parser:' + (p[0] if p else 'nothing'))
            if p and p[0] == 'multi':
                fs.append('top-level-nodes<=%d' % min(len(p) - 1, 6))
            L = D.Live(dict(d, ops=[]))
            e = L.els[d['target']]
            fs.append('target:' + ('self-closing' if e.isSelfClosing else 'empty' if len(e.blocks) == 1 else 'non-empty'))
        except Exception:
            fs.append('unparsable')
        return fs

    def shrink(self, d):
        h = d['html']
        for i in range(len(h)):
            for j in (i + 8, i + 3, i + 1):
                if j <= len(h):
                    c = h[:i] + h[j:]
                    if c.strip():
                        yield dict(d, html=c)
        if d['spares']:
            yield dict(d, spares=d['spares'][:-1])
        if d['kind'] != 'det':
            yield dict(d, kind='det')

    # ---- both sides --------------------------------------------------------------------------
    def encode(self, d):
        p = dump_parsed(d['html'])
        if p is None:
            p = ['multi']
        kind = 'det' if d['kind'] == 'det' else 'doc'
        return sx(kind, D.fn_sx(d['seed']), [D.fn_sx(s) for s in d['spares']], int(d['target']), D.parsed_sx(p), enc(d['name']))

    def impl(self, d):
        L = D.Live(dict(d, ops=[]))
        cls = parser_class(L)
        base = len(L.els)
        p = dump_parsed(d['html'])
        multi = bool(p) and p[0] == 'multi'
        h = d['html']
        try:
            e = cls.createElementFromHTML(h)
            td = TreeDump(L, base, multi)
            td.number(e)
            a = ['ok', td.tree(e, False)]
        except L.AHP.MultipleRootNodeException:
            a = ['raise', MRN]
        td = TreeDump(L, base, multi)
        els = cls.createElementsFromHTML(h)
        for e in els:
            if e is not None:
                td.number(e)
        b = ['none' if e is None else td.tree(e, False) for e in els]
        td = TreeDump(L, base, multi)
        blocks = cls.createBlocksFromHTML(h)
        for x in blocks:
            if isinstance(x, L.Tag):
                td.number(x)
        c = [enc(x) if isinstance(x, str) else td.tree(x, False) for x in blocks]
        # createElement before the append (uids of the model: allocation counter of the initial world)
        doc = L.parser if L.parser is not None else cls()
        ce = doc.createElement(d['name'])
        td = TreeDump(L, base, False)
        td.number(ce)
        e5 = td.tree(ce)
        t = L.els[d['target']]
        if multi:
            L.els.append(None)
        t.appendInnerHTML(h)
        L.discover(t)
        td = TreeDump(L, 0, False)
        dd = [[td.elem(x) for _, x in L.items()], enc(t.innerHTML)]
        return sx(a, b, c, dd, e5)

    # ---- the property itself on the library ---------------------------------------------------
    def oracle(self, d):
        L = D.Live(dict(d, ops=[]))
        Tag = L.Tag
        cls = parser_class(L)
        h = d['html']
        ref = cls()
        ref.parseStr(h)
        root = ref.getRoot()
        if root is None:
            return None                 # nothing parsed: outside the domain
        wrapped = root.tagName == D.WRAPPER
        top = list(root.blocks) if wrapped else [root]
        top_els = [b for b in top if isinstance(b, Tag)]
        significant = [b for b in top if isinstance(b, Tag) or b.strip()]
        # createBlocksFromHTML: the top-level nodes in order, outermost elements included
        blocks = cls.createBlocksFromHTML(h)
        nonempty = lambda lst: [canon(b, Tag) for b in lst if b != '']      # empty strings are not text of the fragment
        if nonempty(blocks) != nonempty(top):
            return ('createBlocksFromHTML', 'returned %r, the document parser has %r at top level'
                    % ([canon(b, Tag) for b in blocks], [canon(b, Tag) for b in top]))
        for b in blocks:
            if not isinstance(b, Tag) and b not in h:
                return ('text-not-in-fragment', 'createBlocksFromHTML returned text %r which is not in %r' % (b, h))
        # createElementsFromHTML: the top-level elements in order
        els = cls.createElementsFromHTML(h)
        if any(e is None for e in els) or [canon(e, Tag) for e in els] != [canon(e, Tag) for e in top_els]:
            return ('createElementsFromHTML', 'returned %r, the document parser has the elements %r'
                    % ([None if e is None else canon(e, Tag) for e in els], [canon(e, Tag) for e in top_els]))
        for what, lst in (('createElementsFromHTML', els), ('createBlocksFromHTML', blocks)):
            for e in lst:
                if isinstance(e, Tag) and e.parentNode is not None:
                    return ('returned-attached', '%s returned <%s> whose parentNode is <%s>' % (what, e.tagName, e.parentNode.tagName))
        # createElementFromHTML — directly after a call that was (rightly) rejected: the outcome depends on the fragment only
        try:
            cls.createElementFromHTML('<a>1</a><b>2</b>rejected')
        except L.AHP.MultipleRootNodeException:
            pass
        try:
            one = cls.createElementFromHTML(h)
            raised = False
        except L.AHP.MultipleRootNodeException:
            raised = True
        if len(significant) > 1 and not raised:
            return ('createElementFromHTML', 'fragment with %d top-level nodes did not raise MultipleRootNodeException' % len(significant))
        if len(significant) == 1 and len(top_els) == 1:
            if raised:
                return ('createElementFromHTML', 'fragment with exactly one top-level element raised MultipleRootNodeException')
            if canon(one, Tag) != canon(top_els[0], Tag):
                return ('createElementFromHTML', 'returned %r, the document parser built %r' % (canon(one, Tag), canon(top_els[0], Tag)))
            if one.parentNode is not None:
                return ('returned-attached', 'createElementFromHTML returned an element with a parentNode')
        # createElement
        doc = L.parser if L.parser is not None else cls()
        ce = doc.createElement(d['name'])
        if ce.tagName != d['name'].lower() or ce.parentNode is not None or ce.ownerDocument is not None or ce.children \
                or ce.text != '' or any(b != '' for b in ce.blocks) or ce.getAttributesList():
            return ('createElement', 'createElement(%r) is not a detached, lower-cased, empty element: %r' % (d['name'], canon(ce, Tag)))
        # appendInnerHTML = append createBlocksFromHTML one by one
        t = L.els[d['target']]
        before_html = t.innerHTML
        before_blocks = list(t.blocks)
        expect = cls.createBlocksFromHTML(h)
        expect_html = ''.join(b.outerHTML if isinstance(b, Tag) else b for b in expect)
        if wrapped:
            L.els.append(None)
        # the same fragment text goes into another (throwaway) element first; it is looked at again at the end
        other = Tag('section')
        other.ownerDocument = t.ownerDocument       # same encoding / document as the target
        other.appendInnerHTML(h)
        other.ownerDocument = None
        other_html, other_blocks = other.innerHTML, list(other.blocks)
        t.appendInnerHTML(h)
        L.discover(t)
        if t.innerHTML != before_html + expect_html:
            return ('appendInnerHTML-innerHTML', 'innerHTML is %r, expected %r followed by %r' % (t.innerHTML, before_html, expect_html))
        new = list(t.blocks)[len(before_blocks):]
        if any(a is not b for a, b in zip(list(t.blocks), before_blocks)) or nonempty(new) != nonempty(expect):
            return ('appendInnerHTML-blocks', 'the target received %r, createBlocksFromHTML gives %r'
                    % ([canon(b, Tag) for b in new], [canon(b, Tag) for b in expect]))
        for b in new:
            if isinstance(b, Tag):
                if b.parentNode is not t:
                    return ('appendInnerHTML-parent', 'a new element has parentNode %r' % (b.parentNode,))
                stack = [b]
                while stack:
                    x = stack.pop()
                    if x.ownerDocument is not t.ownerDocument:
                        return ('appendInnerHTML-owner', 'a new <%s> has ownerDocument %r, the target has %r'
                                % (x.tagName, L.doc_id(x.ownerDocument), L.doc_id(t.ownerDocument)))
                    stack.extend(y for y in x.blocks if isinstance(y, Tag))
        f = C04.invariant_failure(L)
        if f:
            return ('invariant-after-appendInnerHTML', f[1])
        if other.innerHTML != other_html or any(a is not b for a, b in zip(list(other.blocks), other_blocks)) \
                or len(other.blocks) != len(other_blocks) or any(isinstance(b, Tag) and b.parentNode is not other for b in other.blocks) \
                or any(isinstance(b, Tag) and any(b is x for x in t.blocks) for b in other.blocks):
            return ('appendInnerHTML-shared', 'appending %r to the target changed / shares nodes with another element that received '
                    'the same fragment before: %r -> %r' % (h, other_html, other.innerHTML))
        return None
