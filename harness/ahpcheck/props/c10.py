"""
C10 — the style attribute and the style object are one state seen three ways.

Stream `C10` (wire: Driver/AttrsWire.lean, model AHP/Model/Attrs.lean): histories of writes through
style.<camelCase>, style.setProperty, setStyle / setStyles, element.style = string / other element's style,
setAttribute/removeAttribute('style'), attributes['style'] = / del, on elements created directly, parsed, cloned,
copied, unpickled; every view group read on a fresh element per history prefix.
"""
import itertools
from collections import OrderedDict

from ..core import PropCheck, Case
from .. import attrs_common as AC

CAMEL = ['display', 'color', 'float', 'paddingTop', 'fontWeight', 'marginLeft']
DASH = ['display', 'color', 'float', 'padding-top', 'font-weight', 'margin-left']
VALUES = ['block', '5px', 'bold', 'red', '', 'left']
WHOLE = ['', 'display: block', 'color:red;float:left', ' padding-top : 5px ; ', 'a:b;a:c', 'Color: RED', 'display: none;;']
COPY_VIEWS = ['clone', 'copy', 'deepcopy', 'pickle', 'repr']
EQ_STRINGS = ['', 'display: block', 'float:left;color:red', 'color: red; float: left', 'padding-top: 5px', 'a: c', 'color: RED']


def dash_of(name):
    """camelCase -> dash-name, the specification's reading (paddingTop and padding-top are one property)."""
    return ''.join('-' + c.lower() if c.isupper() else c for c in name)


def parse_style(s):
    """Reference parse of a style string: `name: value` declarations separated by `;`, names lower-cased, trimmed;
    a repeated name keeps its place and takes the later value."""
    m = OrderedDict()
    for item in (s or '').split(';'):
        if ':' not in item:
            continue
        n, v = item.split(':', 1)
        m[n.strip().lower()] = v.strip()
    return m


def render_style(m):
    return '; '.join('%s: %s' % (n, v) for n, v in m.items())


def view_groups(copy_view='clone'):
    g = [[['styleStr']], [['attr', 'style']], [['item', 'style']], [['get', 'style']], [['attr', 'STYLE']],
         [['sdot', n] for n in CAMEL + ['padding-top', 'a']], [['gstyle', n] for n in DASH + ['paddingTop', 'a', 'Color']],
         [['has', 'style']], [['has', 'Style']], [['in', 'style']], [['keys']], [['iter']], [['items']], [['list']], [['dict']],
         [['domkeys']], [['domitem', 'style']], [['startTag']], [['reparse']], [[copy_view]],
         [['styeq', s] for s in EQ_STRINGS]]
    return g


def is_style_key(n):
    return n.lower() == 'style'


def expected(prev, it):
    """Reference semantics of one history item on the ordered style map."""
    k = it[0]
    m = OrderedDict(prev)

    def put(key, v):
        if v is None or v == '':
            m.pop(key, None)
        else:
            m[key] = v
    if k in ('sd', 'ss'):
        put(dash_of(it[1]), it[2])
        return m
    if k == 'sp':
        put(it[1], it[2])
        return m
    if k == 'sss':
        for n, v in it[1]:
            put(dash_of(n), v)
        return m
    if k in ('st',):
        return parse_style(it[1])
    if k == 'scp':
        return parse_style(it[1])
    if k in ('sa', 'ms') and is_style_key(it[1]):
        return parse_style(it[2])
    if k in ('ra', 'md') and is_style_key(it[1]):
        return OrderedDict()
    if k == 'sas':
        for n, v in it[1]:
            if is_style_key(n):
                m = parse_style(v)
        return m
    return m


class Check(PropCheck):
    id = 'C10'
    stream = 'C10'
    extra_modules = ('AHP.Props.C10Code',)       # StyleAttribute's methods themselves, interpreted in Lean, = the hand model Attrs
    exhaustive_in = ('quick', 'thorough')
    rule = ('histories of style writes (style.<camelCase>=, style.setProperty, setStyle, setStyles, style = string, style = other '
            "element's style, setAttribute/removeAttribute('style'), attributes['style']=/del) over 6 properties (3 single-word, 3 "
            'camelCase/dash pairs), the values {block, 5px, bold, red, "", left} and the 7 whole-style strings of the property: '
            'exhaustive to length 1 over all 200 writes, length 2 over a reduced alphabet of 45 writes and length 3 over 12 (quick) / '
            'length 2 over all writes x reduced and length 3 over 23 (thorough); seeded random histories up to 25 items with '
            'class/attribute noise and mid-history reads; elements direct, parsed, cloned, copied, unpickled; every view group read '
            'on a fresh element per prefix. Non-trivial: the history writes the style through at least two different paths or '
            'starts from a non-empty style.')
    assumptions = ['property names and values are ASCII without ";" and values are trimmed (the domain the property states); '
                   'str.strip/lower are modelled for ASCII',
                   'aliasing between two elements is a property of Python object identity: the model copies by value, the oracle '
                   'checks on the library that later writes to either element leave the other unchanged']

    # ---- generation -------------------------------------------------------------------------
    def alphabet(self, camel, dash, values, whole, small=False):
        ops = []
        for n in camel:
            for v in values:
                ops.append(['sd', n, v])
        for n in dash:
            for v in values:
                ops.append(['sp', n, v])
        for n in sorted(set(camel) | set(dash)):
            for v in values:
                ops.append(['ss', n, v])
        for s in whole:
            ops.append(['st', s])
            ops.append(['sa', 'style', s])
        for s in (whole[:3] if small else whole):
            ops.append(['scp', s])
            ops.append(['ms', 'style', s])
        ops.append(['ra', 'style'])
        ops.append(['md', 'style'])
        ops.append(['sss', [['display', 'block'], ['paddingTop', '5px']]])
        ops.append(['sss', [['padding-top', ''], ['color', 'red'], ['display', '']]])
        ops.append(['sss', [['paddingTop', ''], ['fontWeight', '']]])          # camelCase names address the dash properties, also to remove
        ops.append(['sss', [['paddingTop', ''], ['color', 'blue']]])
        if not small:
            ops.append(['self'])
            ops.append(['sss', []])
        return ops

    def mk(self, hist, attrs=(), how='direct', tag='div', origin='exhaustive', copy_view='clone'):
        hist = [list(h) for h in hist]
        return Case({'tag': tag, 'how': how, 'attrs': [list(a) for a in attrs], 'hist': hist, 'views': view_groups(copy_view),
                     'chk': [len(hist)]}, origin)

    def cases(self, tier, rng):
        full = self.alphabet(CAMEL, DASH, VALUES, WHOLE)
        reduced = self.alphabet(['display', 'paddingTop'], ['display', 'padding-top'], ['block', '', '5px'], WHOLE, small=True)
        tiny = [['sd', 'display', 'block'], ['sd', 'display', ''], ['sp', 'padding-top', '5px'], ['sp', 'padding-top', ''],
                ['ss', 'paddingTop', 'bold'], ['ss', 'display', ''], ['st', 'color:red;float:left'], ['st', ''],
                ['sa', 'style', 'Color: RED'], ['ra', 'style'], ['scp', 'a:b;a:c'], ['sd', 'color', 'left']]
        yield self.mk([])
        for a in full:
            yield self.mk([a])
            yield self.mk([a], attrs=[['style', 'float: left; padding-top: 1px; display: none']])
        if tier == 'thorough':
            for a in full:
                for b in reduced:
                    yield self.mk([a, b])
                    yield self.mk([b, a])
            for h in itertools.product(reduced[::2], repeat=3):
                yield self.mk(h)
        else:
            for a in reduced:
                for b in reduced:
                    yield self.mk([a, b])
            for h in itertools.product(tiny, repeat=3):
                yield self.mk(h)
        inits = [[['style', s]] for s in WHOLE] + [[['style', None]], [['STYLE', 'display:block']], [['id', 'x'], ['style', 'color: red'], ['class', 'k']],
                                                    [['style', 'color: red'], ['style', 'float: left']], [['style', 'font-weight:bold;;COLOR : Blue ']],
                                                    [['style', '\xa0color\u3000:\u2003red\x85;\x1c']], [['style', 'a:\xa0b\xa0;left: 1\xa0px']]]
        for attrs in inits:
            for how in ('direct', 'parsed', 'clone', 'copy', 'deepcopy', 'pickle'):
                for cv in COPY_VIEWS[:1] if how != 'direct' else COPY_VIEWS:
                    yield self.mk([], attrs=attrs, how=how, origin='creation', copy_view=cv)
                for a in tiny[:6]:
                    yield self.mk([a], attrs=attrs, how=how, origin='creation')
        n = 5000 if tier == 'thorough' else 500
        for _ in range(n):
            yield Case(self.random_case(rng), 'random')

    def random_case(self, rng):
        full = self.alphabet(CAMEL, DASH, VALUES, WHOLE)
        n = rng.choice((1, 2, 3, 4, 6, 9, 14, 25))
        hist = []
        for _ in range(n):
            r = rng.random()
            if r < 0.70:
                it = [x for x in rng.choice(full)]
                if it[0] in ('sa', 'ms', 'ra', 'md') and rng.random() < 0.15:
                    it[1] = rng.choice(('STYLE', 'Style'))
                if it[0] in ('sd', 'sp', 'ss') and rng.random() < 0.08:
                    it[2] = None
            elif r < 0.76:
                it = rng.choice((['st', None], ['sa', 'style', None], ['st', 'x'], ['st', ': v'], ['st', 'a b: c d ;k:'], ['sd', 'a', 'b'],
                                 ['sp', 'Color', 'x'], ['ss', 'Color', 'x'], ['st', 'a:b:c'], ['scp', ' x : y ; '],
                                 # white space of `str.isspace()` beyond ASCII / C's isspace: leading, trailing, inner
                                 ['st', '\xa0color\u3000:\u2003red\x85;\x1c'], ['sa', 'style', 'a:\xa0b\xa0;c\xa0d: e'], ['sd', 'color', '\xa0red'],
                                 ['sp', 'float', 'left\u3000'], ['scp', '\u2003x : y ;\x85'], ['ms', 'style', 'left: 1\xa0px']))
            elif r < 0.86:
                it = rng.choice((['sa', 'id', 'x'], ['ra', 'id'], ['cn', 'a b'], ['ac', 'c'], ['rc', 'a'], ['ms', 'title', 't'], ['sa', 'a b', 'x'],
                                 ['sas', [['id', 'y'], ['style', 'color: red']]], ['dot', 'id', 'z'], ['ra', 'class']))
            else:
                it = ['read', rng.choice((['keys'], ['items'], ['startTag'], ['list'], ['get', 'id'], ['attr', 'style'], ['clone'],
                                          ['domkeys'], ['get', 'style'], ['has', 'style'], ['styleStr']))]
            hist.append(it)
        attrs = rng.choice(([], [], [['style', 'display: block']], [['style', ' float : left ;color:red']], [['id', 'i'], ['style', 'a:b;a:c'], ['class', 'k']],
                            [['style', None]], [['STYLE', 'Color: RED']], [['class', 'z'], ['style', 'padding-top: 5px']],
                            [['style', '\xa0float\u3000: left ;\x1ccolor:red\x85']]))
        how = rng.choice(('direct', 'direct', 'parsed', 'parsed', 'clone', 'copy', 'deepcopy', 'pickle'))
        tag = rng.choice(('div', 'div', 'span', 'input', 'a'))
        cv = rng.choice(COPY_VIEWS)
        if AC.is_void(tag) and (how == 'pickle' or cv == 'pickle'):
            tag = 'div'
        chk = list(range(n + 1)) if n <= 6 else sorted(set([n] + [rng.randint(0, n) for _ in range(3)]))
        return {'tag': tag, 'how': how, 'attrs': attrs, 'hist': hist, 'views': view_groups(cv), 'chk': chk}

    def style_writes(self, d):
        out = []
        for it in d['hist']:
            if it[0] in ('sd', 'sp', 'ss', 'sss', 'st', 'scp', 'self') or (it[0] in ('sa', 'ms', 'ra', 'md') and is_style_key(it[1])):
                out.append(it[0])
        return out

    def nontrivial(self, d):
        w = self.style_writes(d)
        return len(set(w)) >= 2 or any(is_style_key(n) and v for n, v in d['attrs'])

    def features(self, d):
        fs = ['len=%s' % (len(d['hist']) if len(d['hist']) < 6 else '6+'), 'how:' + d['how']]
        for it in d['hist']:
            fs.append('op:' + it[0] + (':style' if it[0] in ('sa', 'ms', 'ra', 'md') and is_style_key(it[1]) else ''))
            if it[0] in ('sd', 'sp', 'ss'):
                if it[2] in ('', None):
                    fs.append('empty-value-write')
                if it[1] != it[1].lower():
                    fs.append('camelCase-name')
                elif '-' in it[1]:
                    fs.append('dash-name')
        for n, v in d['attrs']:
            if is_style_key(n):
                fs.append('init-style:' + ('valueless' if v is None else 'empty' if not parse_style(v) else 'declarations'))
        return sorted(set(fs))

    def shrink(self, d):
        return AC.shrink_case(d)

    def extra_obligations(self):
        C = AC.consts()
        ok = 'style' not in C.TAG_ITEM_BINARY_ATTRIBUTES and 'style' not in C.TAG_ITEM_BINARY_ATTRIBUTES_STRING_ATTR
        return [("StylePlain (hypothesis of the C10 view theorems): 'style' is not listed as a boolean attribute in constants.py", ok)]

    # ---- both sides --------------------------------------------------------------------------
    def encode(self, d):
        return AC.encode(d)

    def impl(self, d):
        return AC.impl(d)

    # ---- the property itself on the library ---------------------------------------------------
    def in_domain(self, it):
        """the writes the reference semantics speaks about: names of the property, trimmed `;`-free values"""
        k = it[0]
        if k in ('sd', 'sp', 'ss'):
            nm = it[1]
            good_name = (nm in CAMEL or nm in DASH)
            if k == 'sp' and nm != nm.lower():
                good_name = False          # setProperty takes dash names
            return good_name and (it[2] is None or (it[2] == it[2].strip() and ';' not in it[2]))
        if k == 'sss':
            return all((nm in CAMEL or nm in DASH) for nm, v in it[1])
        if k in ('st', 'scp'):
            return it[1] in WHOLE
        if k in ('sa', 'ms') and is_style_key(it[1]):
            return it[2] in WHOLE
        if k == 'sas':
            return all((not is_style_key(nm)) or v in WHOLE for nm, v in it[1])
        return True

    def oracle(self, d):
        hist = d['hist']
        n = len(hist)
        cur = OrderedDict()
        known = True
        for nm, v in d['attrs']:
            if is_style_key(nm):
                cur = parse_style(v)
        exps = [cur]
        strict = [True]          # every write so far was inside the domain the property states
        for it in hist:
            ok = self.in_domain(it)
            if exps[-1] is None or not ok:
                # outside the stated domain: a whole-style write re-synchronises the reference
                if it[0] in ('st', 'scp') and isinstance(it[1], str):
                    exps.append(parse_style(it[1]))
                elif it[0] in ('ra', 'md') and is_style_key(it[1]):
                    exps.append(OrderedDict())
                else:
                    exps.append(None if not ok else exps[-1])
            else:
                exps.append(expected(exps[-1], it))
            strict.append(strict[-1] and ok)
        for k in sorted(set(d['chk']) | {n}):
            r = self.check_state(d, k, exps[k], strict[k])
            if r is not None:
                return r
        return None

    def check_state(self, d, k, exp, strict=True):
        AHP = AC.lib()
        StyleAttribute = AHP.SpecialAttributes.StyleAttribute
        fresh = lambda: AC.replay(d, k)
        where = 'after %d of %d history items' % (k, len(d['hist']))
        text = str(fresh().style)
        got_map = parse_style(text)
        if exp is not None:
            if list(got_map.items()) != list(exp.items()) or text != render_style(exp):
                return ('transition', '%s: str(style) is %r, the writes give %r' % (where, text, render_style(exp)))
        m = got_map if exp is None else exp
        present = bool(m)
        if strict and exp is not None and any(v == '' for v in m.values()):
            return ('empty-value', '%s: a property with an empty value remains: %r' % (where, text))

        def bad(kind, view, got, want):
            return (kind, '%s: str(style) %r but %s gives %r (expected %r)' % (where, text, view, got, want))
        for view, get in (("getAttribute('style')", lambda e: e.getAttribute('style')), ("attributes['style']", lambda e: e.attributes['style']),
                          ("attributes.get('style')", lambda e: e.attributes.get('style')), ("getAttribute('STYLE')", lambda e: e.getAttribute('STYLE'))):
            got = get(fresh())
            if not ((got is None and not present) or str(got) == text):
                return bad('views-disagree', view, got, text)
        e1, e2 = fresh(), fresh()
        for camel, dash in (zip(CAMEL, DASH) if strict else ()):
            want = m.get(dash, '')
            got = getattr(e1.style, camel)
            if got != want:
                return bad('views-disagree', 'style.%s' % camel, got, want)
            got = e2.getStyle(dash)
            if got != want:
                return bad('views-disagree', 'getStyle(%r)' % dash, got, want)
        for view, get in (("hasAttribute('style')", lambda e: e.hasAttribute('style')), ("hasAttribute('STYLE')", lambda e: e.hasAttribute('STYLE')),
                          ("'style' in attributes", lambda e: 'style' in e.attributes),
                          ("'style' in attributes.keys()", lambda e: 'style' in list(e.attributes.keys())),
                          ("'style' in iter(attributes)", lambda e: 'style' in list(iter(e.attributes))),
                          ("'style' in attributesDOM", lambda e: 'style' in list(e.attributesDOM)),
                          ("attributesDOM.getNamedItem('style') is not None", lambda e: e.attributesDOM.getNamedItem('style') is not None),
                          ('style in attributes.items()', lambda e: 'style' in dict(e.attributes.items())),
                          ('style in getAttributesList()', lambda e: 'style' in dict(e.getAttributesList())),
                          ('style in getAttributesDict()', lambda e: 'style' in e.getAttributesDict())):
            got = get(fresh())
            if got != present:
                return ('presence', '%s: str(style) %r but %s is %r' % (where, text, view, got))
        if present:
            for view, get in (('getAttributesList()', lambda e: dict(e.getAttributesList())['style']),
                              ('getAttributesDict()', lambda e: e.getAttributesDict()['style']),
                              ('attributes.items()', lambda e: str(dict(e.attributes.items())['style']))):
                got = get(fresh())
                if got != text:
                    return bad('views-disagree', view, got, text)
        html = fresh().getStartTag()
        toks = AC.start_tag_attrs(html)
        if toks is None:
            return ('html', '%s: start tag %r does not tokenize as one start tag' % (where, html))
        st = [v for nm, v in toks if nm == 'style']
        if present and st != [text]:
            return ('presence' if not st else 'views-disagree', '%s: str(style) %r but the start tag is %r' % (where, text, html))
        if not present and st:
            return ('presence', '%s: no style property left but the start tag is %r' % (where, html))
        in_dom = strict and exp is not None
        rp = AC.reparse(fresh())
        if in_dom and str(rp.style) != text:
            return bad('reparse', 're-parse of %r' % html, str(rp.style), text)
        for how in COPY_VIEWS:
            if how == 'pickle' and AC.is_void(d['tag']):
                continue
            c = AC.make_copy(fresh(), how)
            if in_dom and (str(c.style) != text or c.hasAttribute('style') != present):
                return ('copy', '%s: str(style) %r but the %s has %r' % (where, text, how, c.getStartTag()))
        # parse . render is the identity on what the element holds
        if in_dom and list(parse_style(render_style(m)).items()) != list(m.items()):
            return ('roundtrip', '%s: reference parse/render not idempotent on %r' % (where, text))
        s2 = StyleAttribute(text)
        if in_dom and str(s2) != text:
            return ('roundtrip', '%s: StyleAttribute(%r) renders as %r' % (where, text, str(s2)))
        # equality ignores order
        e = fresh()
        rev = render_style(OrderedDict(reversed(list(m.items()))))
        if in_dom and (not (e.style == rev) or (e.style != rev) or not (e.style == StyleAttribute(rev))):
            return ('equality', '%s: style %r does not equal its reordering %r' % (where, text, rev))
        other = OrderedDict(m)
        other['zz-top'] = '1'
        if e.style == render_style(other) or not (e.style != render_style(other)):
            return ('equality', '%s: style %r equals %r' % (where, text, render_style(other)))
        if m:
            first = next(iter(m))
            chg = OrderedDict(m)
            chg[first] = m[first] + 'x'
            if e.style == render_style(chg):
                return ('equality', '%s: style %r equals %r' % (where, text, render_style(chg)))
        # copying a style between elements never aliases them — whatever the receiving element is: a new element, a
        # clone / copy of the source, or its unpickled copy (which has the source's uid and compares equal to it)
        import copy as _copy
        import pickle as _pickle
        for kind in ('new', 'unpickled', 'clone', 'deepcopy', 'unpickled-setAttribute'):
            a = fresh()
            if kind == 'new':
                b = AHP.AdvancedTag('span')
            elif kind.startswith('unpickled'):
                if AC.is_void(d['tag']):
                    continue
                b = _pickle.loads(_pickle.dumps(a, 2))
            elif kind == 'clone':
                b = a.cloneNode()
            else:
                b = _copy.deepcopy(a)
            if kind.endswith('setAttribute'):
                b.setAttribute('style', a.style)
            else:
                b.style = a.style
            if str(b.style) != text and in_dom:
                return ('copy', '%s: b.style = a.style (b %s) gives %r from %r' % (where, kind, str(b.style), text))
            b.style.zIndex = '7'
            b.setStyle('display', 'zzz')
            if str(a.style) != text or a.getStartTag() != html:
                return ('aliased', '%s: writing to the copy (%s) changed the source: %r' % (where, kind, a.getStartTag()))
            a.style.opacity = '0'
            a.style = 'top: 1px'
            mb = parse_style(str(b.style))
            if 'opacity' in mb or 'top' in mb or mb.get('z-index') != '7' or mb.get('display') != 'zzz':
                return ('aliased', '%s: writing to the source changed the copy (%s): %r' % (where, kind, str(b.style)))
            if b.hasAttribute('style') is not True or ('style="' not in b.getStartTag()):
                return ('aliased', '%s: the copy (%s) is not attached to its own element: %r' % (where, kind, b.getStartTag()))
        return None
