"""
C17 — pickled and cloned documents are faithful, independent copies.

Stream `C17`: a document description (a C01 tree) held as a detached tree, by an AdvancedHTMLParser or by an
IndexedAdvancedHTMLParser (every index configuration); it is pickled with every protocol 0-5, one side is
edited, the edited side is re-pickled, an element is cloned three ways.  Model and library print the same
canonical observation (objects and uids numbered by first sight, so sharing is visible and uuids are not).
The oracle restates the property on the library alone (object identities, public views).
"""
import copy
import pickle
import re
import random

from ..core import PropCheck, Case, sx, enc, opt, run_driver

ORD = ['div', 'span', 'p', 'b', 'a', 'ul', 'li', 'section', 'em', 'td']
VOID = ['br', 'img', 'input', 'hr', 'meta', 'link']
PRE = ['pre', 'code']
RAW = ['script', 'style']
WRAPPER = 'xxxblank'
PROTOCOLS = [0, 1, 2, 3, 4, 5]

PLAIN_NAMES = ['id', 'title', 'href', 'name', 'lang', 'data-x', 'data-k', 'alt']
BOOL_NAMES = ['checked', 'disabled', 'hidden', 'selected', 'required']
BARE_NAMES = ['foo', 'data-flag', 'itemscope', 'nowrap']
ATTR_INDEXABLE = ['data-k', 'title', 'href', 'lang']
PLAIN_VALUES = ['x', 'main', 'a b', '', '1', 'k1', 'n', u'café', 'e0', 'e1']
QUOTED_VALUES = ['say "hi"', "it's", 'a<b', 'x>y', ' lead', 'trail ', u'ü中', 'a "b" \'c\'', '"', 'two  spaces']
# incl. white space of `str.isspace()` beyond ASCII / C's isspace (U+00A0, U+3000, U+2003, U+0085, \x1c): leading, trailing, inner
CLASS_VALUES = ['a', 'a b', 'k', 'x  y', ' lead', 'trail ', 'a b c', 'b a', 'k k2', '\xa0a', 'a\u3000', 'k\xa0k2', '\u2003a b\x1c']
STYLE_VALUES = ['color: red', 'color: red; font-weight: bold', 'COLOR:Red', 'a:b;;c: d', 'float:left;', ' padding-top : 5px ',
                'color: red; color: blue', 'background: url(x.png)', '\xa0color\u3000: red\x85', 'color:\u2003red\xa0;\x1cfloat:left']
ODD_STYLE = ['', 'junk', ';', 'a:']
TEXT_PLAIN = ['x', 'hello', ' ', 'a b', '\n', 'tail ', u'été', 'q"uo\'te', 'x > y', '  two', 't', '\xa0', 'x\u3000y', '\x85']
TEXT_ATOMS = ['&amp;', '&lt;', '&nbsp;', '&#65;', '&#x41;', '<!--c-->', '<!-- note -->', '<!---->']


# ------------------------------------------------------------------------------------------------
# descriptions

def T(s):
    return ['t', s]


def E(name, attrs=(), sc=False, blocks=()):
    return ['e', name, [list(a) for a in attrs], bool(sc), list(blocks)]


def walk(t):
    """elements of a description in document order"""
    if t[0] == 'e':
        yield t
        for b in t[4]:
            for x in walk(b):
                yield x


def n_elements(t):
    return sum(1 for _ in walk(t))


def render_html(t, top=True):
    """my own serialiser of a description (what is fed to parseStr)"""
    if t[0] == 't':
        return t[1]
    name, attrs, sc, blocks = t[1], t[2], t[3], t[4]
    inner = ''.join(render_html(b, False) for b in blocks)
    if top and name == WRAPPER:
        return inner
    parts = []
    for k, v in attrs:
        if v is None:
            parts.append(k)
        else:
            parts.append('%s="%s"' % (k, v.replace('"', '&quot;')))
    a = (' ' + ' '.join(parts)) if parts else ''
    if sc:
        return '<%s%s />' % (name, a)
    if name in VOID:
        return '<%s%s>' % (name, a)
    return '<%s%s>%s</%s>' % (name, a, inner, name)


# ------------------------------------------------------------------------------------------------
# the library side

def lib():
    import AdvancedHTMLParser
    return AdvancedHTMLParser


def is_tag(b):
    return isinstance(b, lib().AdvancedTag)


def build_el(t):
    AHP = lib()
    e = AHP.AdvancedTag(t[1], [tuple(a) for a in t[2]], t[3])
    for b in t[4]:
        if b[0] == 't':
            e.appendBlock(b[1])
        else:
            e.appendBlock(build_el(b))
    return e


def build_holder(d):
    """detached: the root element; otherwise the parser that parsed the description's HTML"""
    AHP = lib()
    if d['holder'] == 'detached':
        return build_el(d['tree'])
    if d['holder'] == 'indexed':
        i = d['idx']
        p = AHP.IndexedAdvancedHTMLParser(indexIDs=bool(i[0]), indexNames=bool(i[1]), indexClassNames=bool(i[2]),
                                          indexTagNames=bool(i[3]))
        for a in d.get('attr_idx', []):
            p.addIndexOnAttribute(a)
    elif d['holder'] == 'validating':
        from AdvancedHTMLParser.Validator import ValidatingAdvancedHTMLParser
        p = ValidatingAdvancedHTMLParser()
    else:
        p = AHP.AdvancedHTMLParser()
    html = render_html(d['tree'])
    if d.get('doctype'):
        html = '<!%s>' % d['doctype'] + html
    tail = d.get('tail')
    if tail:
        # the source stops in the middle of a construct while the root is still open: the tokenizer keeps that tail
        # buffered for ever (the library never close()s it) and the tree is the same; nothing may flush it later
        m = re.search(r'</([a-z0-9]+)>$', html)
        if m and m.group(1) != WRAPPER:
            html = html[:m.start()] + tail
    p.parseStr(html)
    return p


def is_parser(h):
    return not is_tag(h)


def root_of(h):
    return h if is_tag(h) else h.root


def elems(e):
    """elements in document order, through the block lists"""
    out = []

    def go(x):
        out.append(x)
        for b in x.blocks:
            if is_tag(b):
                go(b)
    if e is not None:
        go(e)
    return out


class Canon(object):
    def __init__(self):
        self.objs = []
        self.uids = []

    def obj(self, o):
        for i, x in enumerate(self.objs):
            if x is o:
                return str(i)
        self.objs.append(o)
        return str(len(self.objs) - 1)

    def uid(self, u):
        for i, x in enumerate(self.uids):
            if x == u:
                return str(i)
        self.uids.append(u)
        return str(len(self.uids) - 1)

    def ref(self, o):
        return 'none' if o is None else self.obj(o)


def attrs_sx(l):
    return [[enc(k), opt(v)] for k, v in l]


def el_sx(c, e):
    o = c.obj(e)
    u = c.uid(e.uid)
    p = c.ref(e.parentNode)
    ow = c.ref(e.ownerDocument)
    ch = [c.obj(x) for x in e.children]
    bl = [['e', c.obj(b)] if is_tag(b) else ['t', enc(b)] for b in e.blocks]
    return [o, u, enc(e.tagName), attrs_sx(e.getAttributesList()), '1' if e.isSelfClosing else '0', p, ow, enc(e.text), ch, bl]


def index_sx(c, p):
    if not hasattr(p, '_idMap'):
        return 'noindex'
    ids = [[enc(k), c.obj(v)] for k, v in p._idMap.items()]

    def refs(m):
        return [[enc(k), [c.obj(x) for x in v]] for k, v in m.items()]
    return [ids, refs(p._nameMap), refs(p._classNameMap), refs(p._tagNameMap),
            [[enc(k), refs(m)] for k, m in p._otherAttributeIndexes.items()]]


def seed(c, h):
    if is_parser(h):
        c.obj(h)
    for e in elems(root_of(h)):
        c.obj(e)


def holder_sx(c, h):
    if is_tag(h):
        return ['tree', enc(h.outerHTML), [el_sx(c, e) for e in elems(h)]]
    me = c.obj(h)
    try:
        html = h.getHTML()
    except ValueError:
        html = None
    return ['parser', me, opt(html), opt(h.doctype), 'reset' if 'reset' in h.__dict__ else 'noreset', index_sx(c, h),
            [el_sx(c, e) for e in elems(h.root)]]


def pair_sx(tag, a, b):
    c = Canon()
    seed(c, a)
    seed(c, b)
    return [tag, holder_sx(c, a), holder_sx(c, b)]


def apply_edit(h, at, op, reindex=True):
    """one public mutator on the at-th element (document order) of the holder"""
    AHP = lib()
    es = elems(root_of(h))
    if not es:
        return
    e = es[at % len(es)]
    name = op[0]
    if name == 'appendText':
        e.appendText(op[1])
    elif name == 'appendChild':
        e.appendChild(AHP.AdvancedTag(op[1]))
    elif name == 'setAttribute':
        try:
            e.setAttribute(op[1], op[2])
        except KeyError:
            pass
    elif name == 'removeAttribute':
        e.removeAttribute(op[1])
    elif name == 'addClass':
        e.addClass(op[1])
    elif name == 'removeChild':
        if op[1] < len(e.children):
            e.removeChild(e.children[op[1]])
        if reindex and is_parser(h) and hasattr(h, 'reindex'):
            h.reindex()             # the documented duty after removing elements from an indexed document
    else:
        raise ValueError(name)


def clone_sx(orig, c):
    cn = Canon()
    cn.obj(orig)
    cn.uid(orig.uid)
    s = el_sx(cn, c)
    return ['clone', s, enc(c.outerHTML), 'tageq' if orig.isTagEqual(c) else 'tagne', 'tageq' if c.isTagEqual(orig) else 'tagne',
            'eq' if orig == c else 'ne']


CLONERS = [lambda e: e.cloneNode(), copy.copy, copy.deepcopy]


# ------------------------------------------------------------------------------------------------
# identity-free public view used by the oracle

def public_view(h):
    """everything the property names, without object identities: serialisation, doctype, and per element in
    document order uid, name, attribute list, self-closing flag, text, block shape."""
    r = root_of(h)
    els = elems(r)
    pos = {id(e): i for i, e in enumerate(els)}
    rows = []
    for e in els:
        rows.append((e.uid, e.tagName, tuple(e.getAttributesList()), bool(e.isSelfClosing), e.text,
                     tuple(('e', pos.get(id(b), -1)) if is_tag(b) else ('t', b) for b in e.blocks),
                     tuple(pos.get(id(c), -1) for c in e.children),
                     str(e.style), tuple(e.classList)))
    if is_tag(h):
        return ('tree', h.outerHTML, tuple(rows))
    try:
        html = h.getHTML()
    except ValueError:
        html = None
    return ('parser', html, (h.doctype, getattr(h, 'encoding', None)), tuple(rows))


def view_modulo_attr_order(v):
    """the same view with attribute lists sorted and the serialisation dropped (for classifying a difference)"""
    rows = tuple((r[0], r[1], tuple(sorted(r[2], key=lambda kv: (kv[0], kv[1] or ''))), r[3], r[4], r[5], r[6], r[7], r[8])
                 for r in v[-1])
    return (v[0],) + ((v[2],) if v[0] == 'parser' else ()) + (rows,)


def first_diff(a, b):
    if a[0] != b[0]:
        return 'kind %r vs %r' % (a[0], b[0])
    if a[1] != b[1]:
        return 'serialisation %r vs %r' % (a[1], b[1])
    if a[0] == 'parser' and a[2] != b[2]:
        return 'doctype / encoding %r vs %r' % (a[2], b[2])
    ra, rb = a[-1], b[-1]
    if len(ra) != len(rb):
        return '%d vs %d elements' % (len(ra), len(rb))
    names = ('uid', 'tagName', 'attributes', 'isSelfClosing', 'text', 'blocks', 'children', 'style', 'classList')
    for i, (x, y) in enumerate(zip(ra, rb)):
        for n, p, q in zip(names, x, y):
            if p != q:
                return 'element %d: %s %r vs %r' % (i, n, p, q)
    return 'equal'


def link_problems(h, want_owner):
    """parent / owner / children links of a holder, by object identity"""
    r = root_of(h)
    if r is None:
        return None
    if r.parentNode is not None:
        return 'root has a parentNode'
    for e in elems(r):
        if e.ownerDocument is not want_owner:
            return 'ownerDocument of <%s> is %s' % (e.tagName, 'None' if e.ownerDocument is None else 'another object')
        kids = [b for b in e.blocks if is_tag(b)]
        if len(kids) != len(e.children) or any(a is not b for a, b in zip(kids, e.children)):
            return 'children of <%s> are not the element blocks' % e.tagName
        for k in kids:
            if k.parentNode is not e:
                return 'parentNode of <%s> is not its container' % k.tagName
        if e.text != ''.join(b for b in e.blocks if not is_tag(b)):
            return 'text of <%s> is not the concatenation of its text blocks' % e.tagName
        if e.style.tag is not e:
            return 'style of <%s> is linked to another element' % e.tagName
        if e._attributes.tag is not e:
            return 'attribute store of <%s> is linked to another element' % e.tagName
    return None


def shared_objects(a, b):
    """mutable objects reachable from both holders"""
    ea, eb = elems(root_of(a)), elems(root_of(b))
    ids = {}
    for e in ea:
        for what, o in (('element', e), ('style', e.style), ('attribute store', e._attributes), ('blocks list', e.blocks),
                        ('children list', e.children), ('class list', e._classNames)):
            ids[id(o)] = what
    for e in eb:
        for o in (e, e.style, e._attributes, e.blocks, e.children, e._classNames):
            if id(o) in ids:
                return ids[id(o)]
    if is_parser(a) and a is b:
        return 'parser'
    return None


def index_answers(p, keys):
    """indexed lookups as positions in the parser's own tree (-1: an object that is not in the tree)"""
    els = elems(p.root)
    pos = {id(e): i for i, e in enumerate(els)}

    def P(x):
        return None if x is None else pos.get(id(x), -1)
    out = []
    for k in keys['id']:
        out.append(('id', k, P(p.getElementById(k))))
    for k in keys['name']:
        out.append(('name', k, tuple(P(x) for x in p.getElementsByName(k))))
    for k in keys['class']:
        out.append(('class', k, tuple(P(x) for x in p.getElementsByClassName(k))))
    for k in keys['tag']:
        out.append(('tag', k, tuple(P(x) for x in p.getElementsByTagName(k))))
    for a, vals in keys['attr']:
        for v in vals:
            out.append(('attr', a, v, tuple(P(x) for x in p.getElementsByAttr(a, v))))
    return out


def search_answers(h):
    """a few non-indexed searches, as positions"""
    r = root_of(h)
    els = elems(r)
    pos = {id(e): i for i, e in enumerate(els)}
    out = []
    names = sorted(set(e.tagName for e in els))
    for n in names[:4]:
        found = [x for x in r.getAllNodes() if x.tagName == n]
        out.append(('tag', n, tuple(pos.get(id(x), -1) for x in found)))
    out.append(('all', tuple(pos.get(id(x), -1) for x in r.getAllNodes())))
    if is_parser(h):
        for n in names[:3]:
            out.append(('ptag', n, tuple(pos.get(id(x), -1) for x in lib().AdvancedHTMLParser.getElementsByTagName(h, n))))
    return out


def lookup_keys(d):
    ids, names, classes, tags = [], [], [], []
    for e in walk(d['tree']):
        tags.append(e[1])
        for k, v in e[2]:
            k = k.lower()
            if v:
                if k == 'id':
                    ids.append(v)
                elif k == 'name':
                    names.append(v)
                elif k == 'class':
                    classes.extend(w for w in v.strip().split(' ') if w)       # the library's reading: only U+0020 separates
    uniq = lambda l: sorted(set(l))
    attr = []
    for a in d.get('attr_idx', []):
        vals = [v for e in walk(d['tree']) for k, v in e[2] if k.lower() == a and v is not None]
        attr.append((a, uniq(vals) + ['nosuch']))
    return {'attr': attr, 'id': uniq(ids) + ['nosuch'], 'name': uniq(names) + ['nosuch'], 'class': uniq(classes) + ['nosuch'],
            'tag': uniq(tags) + ['nosuch']}


def reuse_ok(p):
    try:
        p.parseStr('<i>z</i>')
        if p.getHTML() != '<i >z</i>':
            return False
        p.parseStr(b'<b>y</b>')          # bytes are decoded with the parser's own encoding
        return p.getHTML() == '<b >y</b>'
    except Exception:
        return False


# ------------------------------------------------------------------------------------------------

class Check(PropCheck):
    id = 'C17'
    stream = 'C17'
    exhaustive_in = ()
    rule = ('C01 trees (ordinary, void, preformatted, raw-text names; 0-4 attributes from plain, boolean, value-less, class, '
            'style, quoted, upper-case, duplicate, invalid; text atoms incl. references and comments; depth <= 6; single and '
            'multi root; with/without doctype) held as detached tree / AdvancedHTMLParser / IndexedAdvancedHTMLParser with each '
            'of the 16 index configurations; pickled with every protocol 0-5; one random edit (appendText, appendChild, '
            'setAttribute, removeAttribute, addClass, removeChild) on the original or on a copy; the edited side re-pickled; '
            'cloneNode / copy / deepcopy of one element.  All trees of <= 3 nodes over a reduced alphabet are enumerated first. '
            'A case is non-trivial when the tree has >= 2 elements or an attribute; distinct by canonical JSON.')
    assumptions = ['object identity, weak references and the pickle memo are outside the value model: covered by the oracle '
                   '(identity checks on the real objects, every protocol, edit one side / look at the other)',
                   'uuid4 freshness: a new element gets a uid different from all uids in use']

    # ---- generation -------------------------------------------------------------------------
    def small_trees(self):
        leafs = [E('div'), E('br'), E('div', [('class', 'a b')]), E('input', [('checked', None)]), E('span', [], True)]
        texts = [T('x'), T('&amp;')]
        out = []
        for a in leafs:
            out.append(a)
        roots = [('div', []), ('p', [('id', 'r'), ('style', 'color: red')])]
        for rn, ra in roots:
            for a in leafs + texts:
                out.append(E(rn, ra, False, [a]))
            for a in leafs + texts:
                for b in leafs + texts:
                    if a[0] == 't' and b[0] == 't':
                        continue
                    out.append(E(rn, ra, False, [a, b]))
            for a in leafs:
                if a[1] in VOID or a[3]:
                    continue
                for b in leafs + texts:
                    out.append(E(rn, ra, False, [E(a[1], a[2], False, [b])]))
        return out

    def cases(self, tier, rng):
        edits = [['appendText', 'Z'], ['appendChild', 'em'], ['setAttribute', 'title', 'new'], ['removeAttribute', 'class'],
                 ['addClass', 'zz'], ['removeChild', 0]]
        k = 0
        for t in self.small_trees():
            for holder in ('detached', 'plain', 'indexed'):
                k += 1
                e = edits[k % len(edits)]
                yield Case({'holder': holder, 'idx': [1, 1, 1, 1], 'doctype': None if k % 3 else 'DOCTYPE html', 'tree': t,
                            'edit': {'side': 'copy' if k % 2 else 'orig', 'at': k % 3, 'op': e}, 'proto': k % 6,
                            'clone_at': k % 2}, 'exhaustive')
        n = 6000 if tier == 'thorough' else 1200
        for i in range(n):
            yield Case(self.random_case(rng, big=(tier == 'thorough' and i % 4 == 0)), 'random')

    # text for a position: `parsed` trees only get blocks the tokenizer reproduces one-to-one
    def gen_blocks_text(self, rng, parsed):
        if rng.random() < 0.6:
            return [T(rng.choice(TEXT_PLAIN))]
        return [T(rng.choice(TEXT_ATOMS))]

    def gen_attrs(self, rng, parsed):
        n = rng.choice((0, 0, 1, 1, 2, 2, 3, 4))
        out = []
        for _ in range(n):
            kind = rng.choice(('plain', 'plain', 'bool', 'bare', 'class', 'style', 'quoted', 'upper', 'dup', 'boolstr', 'invalid',
                               'oddstyle'))
            if kind == 'plain':
                out.append([rng.choice(PLAIN_NAMES), rng.choice(PLAIN_VALUES)])
            elif kind == 'bool':
                out.append([rng.choice(BOOL_NAMES), rng.choice(('', None, 'checked', 'yes'))])
            elif kind == 'bare':
                out.append([rng.choice(BARE_NAMES), None])
            elif kind == 'class':
                out.append(['class', rng.choice(CLASS_VALUES)])
            elif kind == 'style':
                out.append(['style', rng.choice(STYLE_VALUES)])
            elif kind == 'quoted':
                out.append([rng.choice(PLAIN_NAMES), rng.choice(QUOTED_VALUES)])
            elif kind == 'upper':
                out.append([rng.choice(('ID', 'Data-X', 'TITLE', 'Class')), rng.choice(PLAIN_VALUES)])
            elif kind == 'dup' and out:
                out.append([rng.choice(out)[0], rng.choice(PLAIN_VALUES)])
            elif kind == 'boolstr':
                out.append(['spellcheck', rng.choice(('true', 'false', 'yes', '0', ''))])
            elif kind == 'invalid' and not parsed:
                out.append([rng.choice(('a$b', '1x', '', 'x y')), 'v'])
            elif kind == 'oddstyle' and rng.random() < 0.5:
                out.append(['style', rng.choice(ODD_STYLE)])
        # value-less `class` / `style` are never generated: what the constructor does with them (the word 'None' as a
        # class, AttributeError for style) belongs to C09 / C10 / C03; the model follows the code there, untested here
        return out

    def gen_tree(self, rng, parsed, depth, budget):
        """returns a description; budget[0] counts elements"""
        budget[0] -= 1
        r = rng.random()
        if depth > 0 and r < 0.18:
            return E(rng.choice(VOID), self.gen_attrs(rng, parsed), rng.random() < 0.5, [])
        if depth > 0 and r < 0.26:
            return E(rng.choice(ORD), self.gen_attrs(rng, parsed), True, [])
        if depth > 0 and r < 0.31:
            txt = rng.choice(['x', 'var a = 1;', 'p { color: red }', ' '])
            return E(rng.choice(RAW), self.gen_attrs(rng, parsed), False, [T(txt)])
        name = rng.choice(ORD + PRE) if r < 0.9 else rng.choice(ORD)
        blocks = []
        nb = rng.choice((0, 1, 1, 2, 2, 3, 4)) if depth < 6 else rng.choice((0, 1))
        last_plain = False
        for _ in range(nb):
            if budget[0] > 0 and depth < 6 and rng.random() < 0.55:
                blocks.append(self.gen_tree(rng, parsed, depth + 1, budget))
                last_plain = False
            else:
                if parsed:
                    if last_plain or rng.random() < 0.3:
                        blocks.append(T(rng.choice(TEXT_ATOMS)))
                        last_plain = False
                    else:
                        blocks.append(T(rng.choice(TEXT_PLAIN)))
                        last_plain = True
                else:
                    blocks.append(T(rng.choice(TEXT_PLAIN + TEXT_ATOMS + ['', ''])))
        sc = (not parsed) and rng.random() < 0.08          # a self-closed constructor argument followed by appends
        return E(name, self.gen_attrs(rng, parsed), sc, blocks)

    def random_case(self, rng, big=False):
        holder = rng.choice(('detached', 'plain', 'indexed', 'indexed'))
        parsed = holder != 'detached'
        budget = [rng.choice((1, 2, 3, 5, 8, 12)) if not big else rng.choice((15, 25, 40))]
        tree = self.gen_tree(rng, parsed, 0, budget)
        doctype = None
        if parsed:
            if rng.random() < 0.3:
                # several roots (and text between them) below the invisible wrapper
                roots = [tree]
                for _ in range(rng.choice((1, 1, 2))):
                    if rng.random() < 0.3:
                        roots.append(T(rng.choice(['x', ' mid ', '&amp;'])))
                    roots.append(self.gen_tree(rng, parsed, 1, [3]))
                tree = E(WRAPPER, [], False, roots)
            if rng.random() < 0.4:
                doctype = rng.choice(('DOCTYPE html', 'doctype html', 'DOCTYPE html PUBLIC "-//W3C//DTD XHTML 1.0 Strict//EN"'))
        n = n_elements(tree)
        op = rng.choice(('appendText', 'appendChild', 'setAttribute', 'setAttribute', 'removeAttribute', 'addClass', 'removeChild'))
        if op == 'appendText':
            e = [op, rng.choice(TEXT_PLAIN + ['&amp;', ''])]
        elif op == 'appendChild':
            e = [op, rng.choice(ORD + VOID + ['DIV'])]
        elif op == 'setAttribute':
            k = rng.choice(PLAIN_NAMES + ['class', 'style', 'checked', 'spellcheck', 'ID', 'a$b'])
            v = rng.choice(CLASS_VALUES if k == 'class' else STYLE_VALUES + ODD_STYLE if k == 'style' else PLAIN_VALUES + QUOTED_VALUES)
            e = [op, k, v]
        elif op == 'removeAttribute':
            e = [op, rng.choice(PLAIN_NAMES + ['class', 'style', 'checked', 'CLASS'])]
        elif op == 'addClass':
            e = [op, rng.choice(('zz', 'a', 'k', 'b'))]
        else:
            e = [op, rng.choice((0, 0, 1, 2))]
        attr_idx = []
        if holder == 'indexed' and rng.random() < 0.4:
            attr_idx = rng.sample(ATTR_INDEXABLE, rng.choice((1, 1, 2)))
        return {'holder': holder, 'idx': [rng.randint(0, 1) for _ in range(4)] if holder == 'indexed' else [1, 1, 1, 1],
                'attr_idx': attr_idx, 'doctype': doctype, 'tree': tree,
                'edit': {'side': rng.choice(('orig', 'copy')), 'at': rng.randrange(max(n, 1)), 'op': e},
                'proto': rng.choice(PROTOCOLS), 'clone_at': rng.randrange(max(n, 1))}

    def nontrivial(self, d):
        return n_elements(d['tree']) >= 2 or any(e[2] for e in walk(d['tree']))

    def features(self, d):
        fs = ['holder:' + d['holder'], 'edit:' + d['edit']['op'][0], 'side:' + d['edit']['side'], 'proto:%d' % d['proto']]
        if d['holder'] == 'indexed':
            fs.append('idx:' + ''.join(str(int(bool(x))) for x in d['idx']))
            fs.append('attr-indexes:%d' % len(d.get('attr_idx', [])))
        if d.get('doctype'):
            fs.append('doctype')
        n = n_elements(d['tree'])
        fs.append('elements:' + ('1' if n == 1 else '2-4' if n <= 4 else '5-12' if n <= 12 else '13+'))

        def depth(t):
            return 0 if t[0] == 't' else 1 + max([depth(b) for b in t[4]] + [0])
        fs.append('depth:%d' % min(depth(d['tree']), 7))
        kinds = set()
        for e in walk(d['tree']):
            if e[1] == WRAPPER:
                kinds.add('multi-root')
            if e[1] in VOID:
                kinds.add('void')
            elif e[3]:
                kinds.add('self-closed')
            if e[1] in RAW:
                kinds.add('raw-text')
            if e[1] in PRE:
                kinds.add('preformatted')
            seen = set()
            for k, v in e[2]:
                kl = k.lower()
                if kl in seen:
                    kinds.add('attr:duplicate')
                seen.add(kl)
                if kl == 'class':
                    kinds.add('attr:class')
                elif kl == 'style':
                    kinds.add('attr:style')
                elif v is None:
                    kinds.add('attr:value-less')
                elif kl in BOOL_NAMES:
                    kinds.add('attr:boolean')
                elif v is not None and any(c in v for c in '"\'<>'):
                    kinds.add('attr:quoted')
                elif any(ord(c) > 127 for c in (v or '')):
                    kinds.add('attr:non-ascii')
                if k != kl:
                    kinds.add('attr:upper-case')
            for b in e[4]:
                if b[0] == 't':
                    if b[1].startswith('&'):
                        kinds.add('text:reference')
                    elif b[1].startswith('<!--'):
                        kinds.add('text:comment')
                    elif b[1] == '':
                        kinds.add('text:empty')
        return sorted(set(fs) | kinds)

    def shrink(self, d):
        def with_tree(t):
            n = dict(d)
            n['tree'] = t
            return n
        t = d['tree']
        # promote a child element to root
        for b in t[4]:
            if b[0] == 'e':
                yield with_tree(b)
        # drop blocks / attributes anywhere
        def variants(t):
            for i in range(len(t[4])):
                yield ['e', t[1], t[2], t[3], t[4][:i] + t[4][i + 1:]]
            for i in range(len(t[2])):
                yield ['e', t[1], t[2][:i] + t[2][i + 1:], t[3], t[4]]
            for i, b in enumerate(t[4]):
                if b[0] == 'e':
                    for v in variants(b):
                        yield ['e', t[1], t[2], t[3], t[4][:i] + [v] + t[4][i + 1:]]
        for v in variants(t):
            yield with_tree(v)
        if d['holder'] == 'indexed':
            n = dict(d)
            n['holder'] = 'plain'
            n['attr_idx'] = []
            yield n
        if d.get('attr_idx'):
            n = dict(d)
            n['attr_idx'] = d['attr_idx'][:-1]
            yield n
        if d.get('doctype'):
            n = dict(d)
            n['doctype'] = None
            yield n
        if d['edit']['op'][0] != 'appendText':
            n = dict(d)
            n['edit'] = {'side': d['edit']['side'], 'at': d['edit']['at'], 'op': ['appendText', 'Z']}
            yield n
        if d['edit']['at']:
            n = dict(d)
            n['edit'] = dict(d['edit'], at=0)
            yield n

    # ---- both sides --------------------------------------------------------------------------
    def enc_tree(self, t):
        if t[0] == 't':
            return ['t', enc(t[1])]
        return ['e', enc(t[1]), [[enc(k), opt(v)] for k, v in t[2]], '1' if t[3] else '0', [self.enc_tree(b) for b in t[4]]]

    def encode(self, d):
        e = d['edit']
        op = [e['op'][0]] + [str(a) if isinstance(a, int) else enc(a) for a in e['op'][1:]]
        return sx(d['holder'], [1 if x else 0 for x in d['idx']], [enc(a) for a in d.get('attr_idx', [])],
                  opt(d.get('doctype')), self.enc_tree(d['tree']),
                  [e['side'], e['at']] + op, d['clone_at'])

    def impl(self, d):
        try:
            x = build_holder(d)
            x2 = build_holder(d)
        except AttributeError:
            return sx('build-raised')
        out = ['ok']
        copies = []
        for p in PROTOCOLS:
            y = pickle.loads(pickle.dumps(x, p))
            copies.append(y)
        for y in copies:
            out.append(pair_sx('pair', x, y))
        y = copies[d['proto']]
        e = d['edit']
        if e['side'] == 'orig':
            apply_edit(x, e['at'], e['op'])
            src = x
        else:
            apply_edit(y, e['at'], e['op'])
            src = y
        out.append(pair_sx('edited', x, y))
        z = pickle.loads(pickle.dumps(src, d['proto']))
        out.append(pair_sx('repickled', src, z))
        es = elems(root_of(x2))
        if not es:
            out.append(['noclone'])
        else:
            o = es[d['clone_at'] % len(es)]
            out.append(['clones'] + [clone_sx(o, f(o)) for f in CLONERS])
        if is_parser(x):
            out.append(['reuse', 'ok' if reuse_ok(x) else 'broken', 'ok' if reuse_ok(y) else 'broken'])
        else:
            out.append(['reuse', 'none'])
        return sx(*out)

    # ---- the property itself on the library ---------------------------------------------------
    def oracle(self, d):
        try:
            x = build_holder(d)
        except AttributeError:
            return None             # a value-less style attribute: the constructor raises, nothing to pickle
        AHP = lib()
        parser = is_parser(x)
        base = public_view(x)
        keys = lookup_keys(d)
        indexed = d['holder'] == 'indexed'
        base_idx = index_answers(x, keys) if indexed else None
        base_search = search_answers(x)
        copies = []
        for p in PROTOCOLS:
            try:
                blob = pickle.dumps(x, p)
            except Exception as e:
                return ('pickle-raises', 'pickle.dumps(protocol %d) raised %s: %s' % (p, type(e).__name__, e))
            try:
                y = pickle.loads(blob)
            except Exception as e:
                return ('pickle-raises', 'pickle.loads(protocol %d) raised %s: %s' % (p, type(e).__name__, e))
            if type(y) is not type(x):
                return ('unfaithful', 'protocol %d: copy is a %s' % (p, type(y).__name__))
            v = public_view(y)
            if v != base:
                return ('unfaithful', 'protocol %d: %s' % (p, first_diff(base, v)))
            lp = link_problems(y, y if parser else None)
            if lp:
                return ('links', 'protocol %d copy: %s' % (p, lp))
            sh = shared_objects(x, y)
            if sh:
                return ('shared', 'protocol %d: original and copy share a %s' % (p, sh))
            if indexed:
                if (y.indexIDs, y.indexNames, y.indexClassNames, y.indexTagNames) != (x.indexIDs, x.indexNames, x.indexClassNames, x.indexTagNames):
                    return ('index', 'protocol %d: index configuration differs' % p)
                ia = index_answers(y, keys)
                if ia != base_idx:
                    bad = [(a, b) for a, b in zip(base_idx, ia) if a != b][0]
                    return ('index', 'protocol %d: indexed lookup %r on the copy, %r on the original' % (p, bad[1], bad[0]))
            if search_answers(y) != base_search:
                return ('search', 'protocol %d: searches on the copy answer differently' % p)
            copies.append(y)
        # pickling left the original alone
        v = public_view(x)
        if v != base:
            return ('original-changed', 'after pickling: %s' % first_diff(base, v))
        lp = link_problems(x, x if parser else None)
        if lp:
            return ('original-changed', 'after pickling: %s' % lp)
        if indexed and index_answers(x, keys) != base_idx:
            return ('original-changed', 'after pickling: indexed lookups on the original changed')
        # edit one side, look at the other; the edit has the effect it has on a fresh document
        y = copies[d['proto']]
        e = d['edit']
        src, other = (x, y) if e['side'] == 'orig' else (y, x)
        fresh = build_holder(d)
        public_view(fresh)          # read it first, as both sides have been (reads fix the position of `class`)
        apply_edit(fresh, e['at'], e['op'])
        want = public_view(fresh)
        try:
            apply_edit(src, e['at'], e['op'])
        except Exception as ex:
            return ('edit-raises', '%r on the %s raised %s: %s' % (e['op'], 'original' if src is x else 'copy', type(ex).__name__, ex))
        if public_view(other) != base:
            return ('not-independent', 'edit %r on the %s shows in the %s: %s'
                    % (e['op'], 'original' if src is x else 'copy', 'copy' if src is x else 'original',
                       first_diff(base, public_view(other))))
        for j, o in enumerate(copies):
            if o is not src and public_view(o) != base:
                return ('not-independent', 'edit %r shows in the protocol-%d copy' % (e['op'], j))
        got = public_view(src)
        if self._strip_uids(got) != self._strip_uids(want):
            return ('edit-differs', 'edit %r on the %s: %s' % (e['op'], 'original' if src is x else 'copy',
                                                             first_diff(self._strip_uids(want), self._strip_uids(got))))
        lp = link_problems(src, src if parser else None) or link_problems(other, other if parser else None)
        if lp:
            return ('links', 'after the edit: %s' % lp)
        # re-pickle and clone the edited side right away, before any probing write below touches its attribute stores
        # (a copy made from something remembered at an earlier observation shows here)
        vs0 = public_view(src)
        z0 = pickle.loads(pickle.dumps(src, d['proto']))
        vz0 = public_view(z0)
        if vz0 != vs0 and view_modulo_attr_order(vz0) != view_modulo_attr_order(vs0):
            return ('repickle-unfaithful', 'right after the edit %r: %s' % (e['op'], first_diff(vs0, vz0)))
        es0 = elems(root_of(src))
        if es0:
            a0 = es0[e['at'] % len(es0)]
            for how, c0 in (('cloneNode', a0.cloneNode()), ('copy', copy.copy(a0)), ('deepcopy', copy.deepcopy(a0))):
                if not c0.isTagEqual(a0) or sorted(c0.classList) != sorted(a0.classList) or str(c0.style) != str(a0.style):
                    return ('clone-unfaithful', '%s right after the edit %r is not tag-equal to the edited element: %r vs %r'
                            % (how, e['op'], c0.getStartTag(), a0.getStartTag()))
        # aliasing through the style object and the attribute store (weak back-references)
        es_src, es_other = elems(root_of(src)), elems(root_of(other))
        if es_src and es_other:
            a = es_src[e['at'] % len(es_src)]
            before = public_view(other)
            a.style.color = 'rebeccapurple'
            a.attributes['data-probe'] = '1'
            a.classList.append('ghost')
            if public_view(other) != before:
                return ('not-independent', 'a style / attribute-map edit on one side shows in the other')
            if 'rebeccapurple' not in a.outerHTML or 'data-probe' not in a.outerHTML:
                return ('edit-differs', 'style / attribute-map edit does not show in the edited element')
            if 'ghost' in a.outerHTML:
                return ('shared', 'classList returned the live list')
            a.style.color = ''
            a.removeAttribute('data-probe')
        # re-pickle the edited side
        vs = public_view(src)
        late = None
        for p in (d['proto'], (d['proto'] + 3) % 6):
            try:
                z = pickle.loads(pickle.dumps(src, p))
            except Exception as ex:
                return ('repickle-raises', 'protocol %d: %s: %s' % (p, type(ex).__name__, ex))
            vz = public_view(z)
            if vz != vs:
                if view_modulo_attr_order(vz) == view_modulo_attr_order(vs):
                    late = ('repickle-attribute-order', 'protocol %d: %s' % (p, first_diff(vs, vz)))
                else:
                    return ('repickle-unfaithful', 'protocol %d: %s' % (p, first_diff(vs, vz)))
            lp = link_problems(z, z if parser else None)
            if lp:
                return ('links', 're-pickled copy: %s' % lp)
            if shared_objects(src, z):
                return ('shared', 're-pickled copy shares a %s with its source' % shared_objects(src, z))
        # second generation after the source changed: a style assigned as a string on the original, pickle, the original's
        # style edited in place, then the *copy* is re-pickled and its element cloned — the copy must not have learnt
        # anything from the original since it was made (process-wide state keyed by attribute text would show here)
        x4 = build_holder(d)
        es4 = elems(root_of(x4))
        if es4:
            k4 = e['at'] % len(es4)
            Check._style_serial += 1
            s4 = ('color: c%d; width: %dpx' % (Check._style_serial, e['at'])) if e['at'] % 2 else 'color: blue; width: 5px'
            es4[k4].style = s4
            y4 = pickle.loads(pickle.dumps(x4, d['proto']))
            vy4 = public_view(y4)
            es4[k4].style.color = 'edited-later'
            es4[k4].setStyle('width', '')
            if public_view(y4) != vy4:
                return ('not-independent', 'a later style edit on the original shows in the copy')
            z4 = pickle.loads(pickle.dumps(y4, (d['proto'] + 1) % 6))
            if public_view(z4) != vy4:
                return ('repickle-unfaithful', 'the copy of a copy differs from the copy after the original was edited: %s'
                        % first_diff(vy4, public_view(z4)))
            b4 = elems(root_of(y4))[k4]
            for how, c4 in (('cloneNode', b4.cloneNode()), ('copy', copy.copy(b4)), ('deepcopy', copy.deepcopy(b4))):
                if not c4.isTagEqual(b4) or c4.getAttribute('style') != b4.getAttribute('style'):
                    return ('clone-unfaithful', '%s of an element of the copy is not tag-equal to it (style %r vs %r)'
                            % (how, c4.getAttribute('style'), b4.getAttribute('style')))
        # the parsers stay usable
        if parser:
            for who, h in (('original', x), ('copy', y), ('another copy', copies[(d['proto'] + 1) % 6])):
                if not reuse_ok(h):
                    return ('not-reusable', 'the %s cannot parse another document after pickling' % who)
        # the clone family
        x3 = build_holder(d)
        r = self.clone_oracle(x3, d)
        if r:
            return r
        return late

    _style_serial = 0

    @staticmethod
    def _strip_uids(v):
        return v[:-1] + (tuple(r[1:] for r in v[-1]),)

    def clone_oracle(self, x, d):
        AHP = lib()
        es = elems(root_of(x))
        if not es:
            return None
        o = es[d['clone_at'] % len(es)]
        names = ('cloneNode', 'copy.copy', 'copy.deepcopy')
        for nm, f in zip(names, CLONERS):
            before = public_view(x)
            c = f(o)
            if type(c) is not type(o):
                return ('clone', '%s returned a %s' % (nm, type(c).__name__))
            if c.children or any(is_tag(b) for b in c.blocks) or c.innerHTML != '' or c.text != '':
                return ('clone', '%s is not childless: %r' % (nm, c.outerHTML))
            if not o.isTagEqual(c) or not c.isTagEqual(o):
                return ('clone', '%s is not tag-equal to its original: %r vs %r' % (nm, o.getStartTag(), c.getStartTag()))
            if c.tagName != o.tagName or dict(c.getAttributesList()) != dict(o.getAttributesList()):
                return ('clone', '%s: name/attributes %r vs %r' % (nm, c.getAttributesList(), o.getAttributesList()))
            if c.uid == o.uid or any(c.uid == e.uid for e in es):
                return ('clone', '%s has the uid of an existing element' % nm)
            if c == o or not (c != o) or o == c:
                return ('clone', '%s equals its original under ==' % nm)
            if c.parentNode is not None or c.ownerDocument is not None:
                return ('clone', '%s is attached (parentNode / ownerDocument set)' % nm)
            if c.isSelfClosing != o.isSelfClosing and not o.blocks[1:]:
                return ('clone', '%s: isSelfClosing %r vs %r' % (nm, c.isSelfClosing, o.isSelfClosing))
            if c.style is o.style or c._attributes is o._attributes or c._classNames is o._classNames or c.blocks is o.blocks:
                return ('clone', '%s shares a mutable object with its original' % nm)
            if c.style.tag is not c or c._attributes.tag is not c:
                return ('clone', '%s: style / attribute store linked to another element' % nm)
            if public_view(x) != before:
                return ('clone', '%s changed the original' % nm)
            # edits to the clone never show in the original, and vice versa
            cv = (c.outerHTML, tuple(c.getAttributesList()))
            c.setAttribute('data-c', '1')
            c.addClass('cloned')
            c.style.color = 'teal'
            c.appendText('t')
            if public_view(x) != before:
                return ('clone', 'an edit to the %s result shows in the original' % nm)
            c2 = f(o)
            cv2 = (c2.outerHTML, tuple(c2.getAttributesList()))
            o.setAttribute('data-o', '1')
            o.addClass('orig')
            o.style.display = 'none'
            if (c2.outerHTML, tuple(c2.getAttributesList())) != cv2:
                return ('clone', 'an edit to the original shows in the %s result' % nm)
            o.removeAttribute('data-o')
            o.removeClass('orig')
            o.style.display = ''
        return None

    def extra_obligations(self):
        """the model's hand-written tables equal the library's constants"""
        from AdvancedHTMLParser import constants
        from ..core import parse_sx, dec
        try:
            t = parse_sx(run_driver(self.stream, ['tables'])[0])
            binary = sorted(dec(a) for a in t[0])
            boolstr = sorted(dec(a) for a in t[1])
            void = sorted(dec(a) for a in t[2])
            wrapper = dec(t[3])
        except Exception:
            return [('C17 model tables readable', False)]
        return [
            ('model binaryAttrs = constants.TAG_ITEM_BINARY_ATTRIBUTES', binary == sorted(constants.TAG_ITEM_BINARY_ATTRIBUTES)),
            ('model boolStrAttrs = constants.TAG_ITEM_BINARY_ATTRIBUTES_STRING_ATTR', boolstr == sorted(constants.TAG_ITEM_BINARY_ATTRIBUTES_STRING_ATTR)),
            ('model voidTags = constants.IMPLICIT_SELF_CLOSING_TAGS', void == sorted(constants.IMPLICIT_SELF_CLOSING_TAGS)),
            ('model invisibleRoot = constants.INVISIBLE_ROOT_TAG', wrapper == constants.INVISIBLE_ROOT_TAG),
        ]
