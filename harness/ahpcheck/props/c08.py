"""
C08 — all views of an element's attributes agree after any sequence of attribute edits.

Stream `C08` (wire: Driver/AttrsWire.lean, model AHP/Model/Attrs.lean): histories of setAttribute / setAttributes /
removeAttribute / dot-assignment of linked names / attributes[...] = / del attributes[...] on elements created
directly, parsed, cloned, copied, unpickled; nine families of views read on fresh elements per history prefix.
"""
import itertools
from collections import OrderedDict

from ..core import PropCheck, Case
from .. import attrs_common as AC

NAMES = ['foo', 'data-x', 'checked', 'id', 'FOO', 'a b', 'foo\n']                   # plain, data-*, boolean, linked, upper-case, invalid
VALUES = ['v', '', 'say "hi"', 'a b  c', '42', 'é☃']              # plain, empty, quote, spaces, numeric, non-ASCII
# random histories only: values with white space of `str.isspace()` beyond ASCII / C's isspace, leading, trailing, inner (an ordinary
# attribute keeps its value as it is; class / style strip it at the ends)
UNI_VALUES = ['\xa0v', 'v\u3000', 'a\xa0b', '\u2003a b\x1c', '\x85']
KEYS = ['foo', 'data-x', 'checked', 'id', 'FOO', 'Id', 'a b', 'zz']         # keys the per-key views are asked about
COPY_VIEWS = ['clone', 'copy', 'deepcopy', 'pickle', 'repr']


def view_groups(keys, dots, copy_view='clone'):
    g = [[['list']], [['dict']], [['items']], [['keys']], [['iter']], [['domkeys']], [['startTag']], [['reparse']], [[copy_view]]]
    g.append([['has', k] for k in keys])
    g.append([['in', k] for k in keys])
    g.append([['item', k] for k in keys])
    g.append([['get', k] for k in keys] + [['getd', k] for k in keys[:3]])
    g.append([['attr', k] for k in keys] + [['attrd', k] for k in keys[:3]])
    g.append([['domitem', k] for k in keys])
    if dots:
        g.append([['dotget', n] for n in dots])
    return g


def is_special_key(n):
    return n.lower() in ('class', 'style')


class Ref(object):
    """Reference semantics of the attribute operations: one ordered name -> value mapping (class/style left out)."""

    def __init__(self, tag):
        self.tag = tag
        self.m = OrderedDict()
        self.unknown = set()         # keys whose stored value the reference does not predict (boolean-string attributes)

    def set(self, name, value):
        C = AC.consts()
        AHP = AC.lib()
        if not AHP.Tags.isValidAttributeName(name):
            return 'KeyError'
        k = name.lower()
        if is_special_key(k):
            return 'ok'
        if k in C.TAG_ITEM_BINARY_ATTRIBUTES_STRING_ATTR:
            self.unknown.add(k)
        self.m[k] = value
        return 'ok'

    def rm(self, name):
        k = name.lower()
        self.m.pop(k, None)

    def apply(self, it):
        """-> expected outcome ('ok' | 'KeyError' | None = not predicted)"""
        C = AC.consts()
        k = it[0]
        if k in ('sa', 'ms'):
            return self.set(it[1], it[2])
        if k in ('ra', 'md'):
            self.rm(it[1])
            return 'ok'
        if k == 'sas':
            for n, v in it[1]:
                r = self.set(n, v)
                if r != 'ok':
                    return r
            return 'ok'
        if k == 'dot':
            row = AC.link_row(self.tag, it[1])
            if it[1] == 'className' or row is None:
                return 'ok'
            v = it[2]
            if row['validated']:
                return None
            if row['binStr']:
                return self.set(row['attr'], 'true')      # value not predicted (marked unknown)
            if row['bin']:
                if v:
                    return self.set(row['attr'], '')
                self.rm(row['attr'])
                return 'ok'
            return self.set(row['attr'], str(v))
        return 'ok'        # class / style / read items do not touch ordinary attributes


class Check(PropCheck):
    id = 'C08'
    stream = 'C08'
    exhaustive_in = ('quick', 'thorough')
    extra_modules = ('AHP.Props.AttrStores',      # the four models of the attribute store are one function
                     'AHP.Props.C08Code')         # Tags.isValidAttributeName itself, interpreted in Lean, = validAttrName
    rule = ('histories over 6 names (plain, data-*, boolean, linked dot-name, upper-case spelling, invalid) x 6 values (plain, '
            'empty, with a double quote, with spaces, numeric, non-ASCII) and the writers setAttribute, setAttributes, '
            'removeAttribute, attributes[...]=, del attributes[...], dot-assignment: exhaustive to length 2 over 80 operations and '
            'length 3 over a reduced alphabet (quick) / length 3 over 42 operations and length 4 reduced (thorough); seeded random '
            'histories of up to 25 items over the full table of linked names of the tag (div, input, a, form, td, img, textarea, '
            'button, label, select), with class/style noise and mid-history reads; elements direct, parsed, cloned, copied, '
            'unpickled; every view group read on a fresh element per prefix. Non-trivial: at least two writes and some key '
            'written through two different paths or spellings, or a non-empty initial attribute list.')
    assumptions = ['attribute names are ASCII (str.isalpha/lower are modelled for ASCII); values may be any text without "&"',
                   'dot-access reads of names with a special-value rule and the validated write of maxLength belong to C19',
                   'setAttributes with an invalid name in the middle keeps the names set before it (the invalid name itself '
                   'changes nothing): the property text is read per name']

    # ---- generation -------------------------------------------------------------------------
    def ops_alphabet(self, names, values, dots=True, sas=True):
        ops = []
        for n in names:
            for i, v in enumerate(values):
                ops.append(['sa', n, v])
                if i < 3 or not sas:       # the mapping goes through the same __setitem__: half of the values
                    ops.append(['ms', n, v])
            ops.append(['ra', n])
            ops.append(['md', n])
        if dots:
            if 'id' in names:
                for v in values:
                    ops.append(['dot', 'id', v])
            if 'checked' in names:
                for v in (True, False, '', 'x'):
                    ops.append(['dot', 'checked', v])
        if sas:
            ops.append(['sas', [['foo', 'v'], ['id', '42']]])
            ops.append(['sas', [['FOO', ''], ['a b', 'v'], ['id', 'v']]])
            ops.append(['sas', [['checked', ''], ['data-x', 'say "hi"']]])
            ops.append(['sas', []])
        return ops

    def mk(self, hist, attrs=(), how='direct', tag='input', origin='exhaustive', chk=None, copy_view='clone', keys=KEYS, dots=None):
        hist = [list(h) for h in hist]
        if dots is None:
            dots = ['id', 'checked', 'title']
        return Case({'tag': tag, 'how': how, 'attrs': [list(a) for a in attrs], 'hist': hist,
                     'views': view_groups(keys, dots, copy_view), 'chk': [len(hist)] if chk is None else chk}, origin)

    def cases(self, tier, rng):
        full = self.ops_alphabet(NAMES, VALUES)
        yield self.mk([])
        for a in full:
            yield self.mk([a])
            yield self.mk([a], attrs=[['foo', 'old'], ['checked', None], ['id', 'i']])
        for a in full:
            for b in full:
                yield self.mk([a, b])
        small = [['sa', 'foo', 'v'], ['sa', 'foo', ''], ['sa', 'FOO', 'v'], ['sa', 'FOO', ''], ['ms', 'foo', 'v'], ['ms', 'FOO', ''],
                 ['ra', 'foo'], ['ra', 'FOO'], ['md', 'Foo'], ['sa', 'checked', ''], ['ra', 'checked'], ['dot', 'checked', True],
                 ['dot', 'checked', False]]
        if tier == 'thorough':
            mid = self.ops_alphabet(['foo', 'checked', 'FOO', 'a b'], ['v', '', 'say "hi"'], sas=False) + [['dot', 'id', '42'], ['ra', 'id']]
            for h in itertools.product(mid, repeat=3):
                yield self.mk(h)
            for h in itertools.product(small[:11], repeat=4):
                yield self.mk(h)
        else:
            for h in itertools.product(small, repeat=3):
                yield self.mk(h)
        # creation variants x copies
        inits = [[['foo', 'v'], ['data-x', None], ['checked', ''], ['id', 'say "hi"']],
                 [['ID', 'x'], ['a b', 'y'], ['Foo', 'a b  c'], ['foo', '42']],
                 [['checked', None], ['hidden', ''], ['value', 'é☃'], ['_u', '']],
                 [['id', 'x'], ['class', 'k'], ['title', ''], ['style', 'color: red'], ['name', 'n']],
                 [['data-x', None], ['data-x', 'v']],
                 [['spellcheck', 'FALSE'], ['tabindex', '3']],
                 [['foo', '\xa0v\u3000'], ['class', '\xa0k l\x1c'], ['style', '\u2003color\xa0: red\x85;'], ['id', 'a\xa0b']]]
        for attrs in inits:
            for how in ('direct', 'parsed', 'clone', 'copy', 'deepcopy', 'pickle'):
                tag = 'div' if how == 'pickle' else 'input'
                for cv in COPY_VIEWS:
                    if cv == 'pickle' and tag == 'input':
                        continue
                    yield self.mk([], attrs=attrs, how=how, tag=tag, origin='creation', copy_view=cv)
                for a in small[:10]:
                    yield self.mk([a], attrs=attrs, how=how, tag=tag, origin='creation')
        # a view that was read before a write must not remember what it saw: read, write, read again on ONE element
        # (every other family reads each view on a fresh replay)
        for key, dn in (('foo', None), ('checked', 'checked'), ('id', 'id'), ('FOO', None), ('title', 'title')):
            lk = key.lower()
            per_key = [['has', key], ['in', key], ['item', key], ['get', key], ['getd', key], ['attr', key], ['attrd', key],
                       ['domitem', key], ['domitem', lk], ['domkeys'], ['keys'], ['items'], ['list'], ['dict'], ['startTag'], ['clone']]
            if dn:
                per_key.append(['dotget', dn])
            writers = [['sa', key, 'new'], ['ms', lk, ''], ['ra', key], ['md', lk], ['sas', [[lk, 'new2']]]]
            if dn:
                writers.append(['dot', dn, True if dn == 'checked' else 'dotted'])
            for start in ([], [['sa', lk, 'old']]):
                for v in per_key:
                    for w in writers:
                        yield self.mk(start + [['read', v], w, ['read', v]], origin='reread', keys=sorted(set(KEYS + [key, lk])))
                        yield self.mk(start + [['read', v], w, ['read', v], ['sa', lk, 'third'], ['read', v]], origin='reread',
                                      keys=sorted(set(KEYS + [key, lk])))
        n = 5000 if tier == 'thorough' else 500
        for _ in range(n):
            yield Case(self.random_case(rng), 'random')

    def random_case(self, rng):
        C = AC.consts()
        tag = rng.choice(('div', 'input', 'a', 'form', 'td', 'img', 'textarea', 'button', 'label', 'select'))
        linked = [n for n in AC.linked_names(tag) if n != 'className']
        writable = [n for n in linked if not AC.link_row(tag, n)['validated']]
        readable = [n for n in linked if not AC.link_row(tag, n)['special']]
        attr_names = sorted(set(AC.link_row(tag, n)['attr'] for n in rng.sample(writable, min(6, len(writable)))))
        names = ['foo', 'data-x', 'checked', 'FOO', 'Data-X', 'a b', 'x$', '_u', 'hidden', 'spellcheck', 'title\n', '\nid'] + attr_names
        n = rng.choice((1, 2, 3, 4, 6, 9, 14, 25))
        hist = []
        used_dots = set()
        for _ in range(n):
            r = rng.random()
            nm = rng.choice(names)
            if rng.random() < 0.15:
                nm = nm.upper() if rng.random() < 0.5 else nm.capitalize()
            val = rng.choice(VALUES + [None, 'true', 'False', '0', 'MiXed Case'] + UNI_VALUES)
            if r < 0.22:
                it = ['sa', nm, val]
            elif r < 0.40:
                it = ['ms', nm, val]
            elif r < 0.50:
                it = ['ra', nm]
            elif r < 0.58:
                it = ['md', nm]
            elif r < 0.76:
                dn = rng.choice(writable)
                row = AC.link_row(tag, dn)
                if row['bin'] or row['binStr']:
                    dv = rng.choice((True, False, '', 'x', None, 'false'))
                else:
                    dv = rng.choice(VALUES + [None, True])
                it = ['dot', dn, dv]
                used_dots.add(dn)
            elif r < 0.82:
                k = rng.randint(0, 3)
                ns = rng.sample(names, k)
                it = ['sas', [[x, rng.choice(VALUES + [None])] for x in ns]]
            elif r < 0.90:
                it = rng.choice((['cn', 'a b'], ['ac', 'c'], ['rc', 'a'], ['sa', 'class', 'k'], ['ra', 'class'], ['st', 'color: red'],
                                 ['ss', 'display', 'block'], ['sa', 'style', 'float: left'], ['ra', 'style'], ['sd', 'color', ''],
                                 ['cn', '\xa0a b\u3000'], ['sa', 'class', 'k\xa0l \x1c'], ['ac', '\u2003c'],
                                 ['sa', 'style', '\xa0float\u3000:\x85left ;\x1c'], ['st', 'color:\u2003red\xa0']))
            else:
                it = ['read', rng.choice((['keys'], ['items'], ['startTag'], ['list'], ['get', nm], ['attr', nm], ['clone'],
                                          ['domkeys'], ['item', nm], ['has', nm], ['domitem', nm], ['domitem', nm.lower()],
                                          ['in', nm], ['getd', nm], ['attrd', nm], ['dict']))]
            hist.append(it)
        attrs = []
        for _ in range(rng.choice((0, 0, 1, 2, 4))):
            attrs.append([rng.choice(names + ['class', 'style']), rng.choice(VALUES + [None] + UNI_VALUES)])
        attrs = [[a, (v if a != 'style' else rng.choice(('color: red', '\xa0color\u3000: red\x85')))] for a, v in attrs]
        how = rng.choice(('direct', 'direct', 'parsed', 'parsed', 'clone', 'copy', 'deepcopy', 'pickle'))
        cv = rng.choice(COPY_VIEWS)
        if AC.is_void(tag) and (how == 'pickle' or cv == 'pickle'):
            cv, how = 'clone', ('clone' if how == 'pickle' else how)
        if how == 'parsed':
            attrs = [[a, v] for a, v in attrs if AC.lib().Tags.isValidAttributeName(a)]
        dots = sorted(set(rng.sample(readable, min(5, len(readable)))) | (used_dots & set(readable)))
        keys = sorted(set(['foo', 'checked', 'FOO', 'a b', 'zz'] + [rng.choice(names) for _ in range(4)]))
        chk = list(range(n + 1)) if n <= 6 else sorted(set([n] + [rng.randint(0, n) for _ in range(3)]))
        d = {'tag': tag, 'how': how, 'attrs': attrs, 'hist': hist, 'views': view_groups(keys, dots, cv), 'chk': chk}
        if how != 'parsed' and rng.random() < 0.3:
            d['uptag'] = True       # AdvancedTag('INPUT', ...): same element as AdvancedTag('input', ...)
        return d

    def nontrivial(self, d):
        writes = [it for it in d['hist'] if it[0] in ('sa', 'ms', 'ra', 'md', 'dot', 'sas')]
        paths = {}
        for it in writes:
            if it[0] in ('sa', 'ms', 'ra', 'md'):
                paths.setdefault(it[1].lower(), set()).add((it[0], it[1]))
        return (len(writes) >= 2 and any(len(v) >= 2 for v in paths.values())) or bool(d['attrs'])

    def features(self, d):
        fs = ['len=%s' % (len(d['hist']) if len(d['hist']) < 6 else '6+'), 'how:' + d['how'], 'tag:' + d['tag']] + (['constructor-tag-upper-case'] if d.get('uptag') else [])
        AHP = AC.lib()
        for it in d['hist']:
            fs.append('op:' + it[0])
            if it[0] in ('sa', 'ms', 'ra', 'md'):
                nm = it[1]
                if not AHP.Tags.isValidAttributeName(nm):
                    fs.append('invalid-name')
                elif nm != nm.lower():
                    fs.append('upper-case-name')
                if nm.lower() in AC.consts().TAG_ITEM_BINARY_ATTRIBUTES:
                    fs.append('boolean-name')
            if it[0] in ('sa', 'ms') and it[2] is None:
                fs.append('none-value')
            if it[0] in ('sa', 'ms') and isinstance(it[2], str) and '"' in it[2]:
                fs.append('quote-in-value')
            if it[0] == 'dot':
                row = AC.link_row(d['tag'], it[1])
                if row:
                    fs.append('dot:' + ('binStr' if row['binStr'] else 'bin' if row['bin'] else 'event' if row['event'] else 'plain'))
        return sorted(set(fs))

    def shrink(self, d):
        return AC.shrink_case(d)

    def extra_obligations(self):
        C = AC.consts()
        ok = all(k not in C.TAG_ITEM_BINARY_ATTRIBUTES and k not in C.TAG_ITEM_BINARY_ATTRIBUTES_STRING_ATTR for k in ('class', 'style'))
        return [("'class' / 'style' are not listed as boolean attributes in constants.py (hypothesis of the view theorems)", ok)]

    # ---- both sides --------------------------------------------------------------------------
    def encode(self, d):
        return AC.encode(d)

    def impl(self, d):
        return AC.impl(d)

    # ---- the property itself on the library ---------------------------------------------------
    def oracle(self, d):
        C = AC.consts()
        AHP = AC.lib()
        hist = d['hist']
        n = len(hist)
        ref = Ref(d['tag'])
        for nm, v in d['attrs']:
            k = nm.lower()
            if AHP.Tags.isValidAttributeName(k):
                ref.set(k, v)
        refs = [(OrderedDict(ref.m), set(ref.unknown), None)]
        for it in hist:
            exp_out = ref.apply(it)
            refs.append((OrderedDict(ref.m), set(ref.unknown), exp_out))
        # outcomes (KeyError exactly for invalid names) along one run
        e = AC.build(d)
        for i, it in enumerate(hist):
            if it[0] == 'read':
                AC.safe(AC.apply_item, e, it)
                continue
            try:
                out = AC.apply_item(e, it)
            except Exception as ex:
                return ('raises', 'item %d %r raised %s: %s' % (i, it, type(ex).__name__, ex))
            exp_out = refs[i + 1][2]
            if exp_out is not None and out != exp_out:
                return ('outcome', 'item %d %r: %s, expected %s' % (i, it, out, exp_out))
        for k in sorted(set(d['chk']) | {n}):
            r = self.check_state(d, k, refs[k][0], refs[k][1])
            if r is not None:
                return r
        return None

    def check_state(self, d, k, ref, unknown):
        C = AC.consts()
        BIN = C.TAG_ITEM_BINARY_ATTRIBUTES
        fresh = lambda: AC.replay(d, k)
        where = 'after %d of %d history items' % (k, len(d['hist']))
        want = [(a, v) for a, v in ref.items()]

        def strip(pairs):
            """drop class/style (C09/C10) and blank out unpredicted values"""
            return [(a, ('?' if a in unknown else v)) for a, v in pairs if a not in ('class', 'style')]
        want_s = strip(want)

        def bad(kind, view, got, exp):
            return (kind, '%s: %s gives %r, the operations give %r' % (where, view, got, exp))
        # 1. the list-shaped views: same pairs, same order
        lst = fresh().getAttributesList()
        if strip(lst) != want_s:
            return bad('mapping', 'getAttributesList()', strip(lst), want_s)
        full_order = [a for a, _ in lst]
        for view, get in (('getAttributesDict()', lambda e: list(e.getAttributesDict().items())),
                          ('attributes.items()', lambda e: [(a, (None if v is None else str(v))) for a, v in e.attributes.items()])):
            got = get(fresh())
            if strip(got) != want_s:
                return bad('mapping', view, strip(got), want_s)
            if [a for a, _ in got] != full_order:
                return bad('order', view, [a for a, _ in got], full_order)
        for view, get in (('attributes.keys()', lambda e: list(e.attributes.keys())), ('iter(attributes)', lambda e: list(iter(e.attributes))),
                          ('attributesDOM', lambda e: list(e.attributesDOM))):
            got = get(fresh())
            if got != full_order:
                return bad('order', view, got, full_order)
        # 2. per key views
        keys = sorted(set(list(ref.keys()) + KEYS + [x.upper() for x in ref.keys()]))
        e_has, e_in, e_item, e_get, e_attr, e_dom = fresh(), fresh(), fresh(), fresh(), fresh(), fresh()
        for key in keys:
            lk = key.lower()
            if lk in ('class', 'style'):
                continue
            present = lk in ref
            val = ref.get(lk)
            for view, got in (('hasAttribute(%r)' % key, e_has.hasAttribute(key)), ('%r in attributes' % key, key in e_in.attributes)):
                if got != present:
                    return bad('presence', view, got, present)
            if lk in unknown:
                # the stored value of a boolean-string attribute is not predicted here (its conversion is C19's), but every
                # view must still report the one value the list views report
                if present:
                    lv = dict(lst).get(lk)
                    node = e_dom.attributesDOM.getNamedItem(key)
                    for view, got in (('attributes[%r]' % key, e_item.attributes[key]),
                                      ('attributes.get(%r, dflt)' % key, e_get.attributes.get(key, 'dflt')),
                                      ('getAttribute(%r)' % key, e_attr.getAttribute(key)),
                                      ('attributesDOM.getNamedItem(%r)' % key, None if node is None else node.value)):
                        if got != lv:
                            return ('views-disagree', '%s: %s gives %r, getAttributesList() gives %r' % (where, view, got, lv))
                continue
            got = e_item.attributes[key]
            if got != val:
                return bad('mapping', 'attributes[%r]' % key, got, val)
            got = e_get.attributes.get(key, 'dflt')
            if got != (val if present else 'dflt'):
                return bad('mapping', 'attributes.get(%r, dflt)' % key, got, val if present else 'dflt')
            got = e_attr.getAttribute(key)
            if lk in BIN:
                # boolean attribute: presence is what is read; an empty / missing value reads as True
                if not present:
                    ok = got is False
                elif val:
                    ok = got == val                       # an optionally-valued boolean attribute keeps its value
                else:
                    ok = got is True or (key != lk and got == val)
            else:
                ok = got == val
            if not ok:
                return bad('mapping', 'getAttribute(%r)' % key, got, val if present else None)
            node = e_dom.attributesDOM.getNamedItem(key)
            if (node is not None) != present:
                return bad('presence', 'attributesDOM.getNamedItem(%r)' % key, node, present)
            if node is not None and (node.value != val or node.name != lk):
                return bad('mapping', 'attributesDOM.getNamedItem(%r)' % key, (node.name, node.value), (lk, val))
        # 3. dot access of linked names (no special-value rule)
        e_dot = fresh()
        for dn in AC.linked_names(d['tag']):
            row = AC.link_row(d['tag'], dn)
            if row['special'] or dn == 'className' or row['attr'] in unknown or row['attr'] in ('class', 'style') or row['binStr']:
                continue
            got = getattr(e_dot, dn)
            a = row['attr']
            if row['bin']:
                exp = a in ref
            else:
                exp = ref[a] if a in ref else (None if row['event'] else '')
            if got != exp:
                return bad('mapping', 'dot access .%s' % dn, got, exp)
        # 4. rendered start tag and its re-parse
        html = fresh().getStartTag()
        toks = AC.start_tag_attrs(html)
        if toks is None:
            return ('html', '%s: start tag %r does not tokenize as one start tag' % (where, html))
        rendered = []
        for a, v in want:
            if v is None or (v == '' and a in BIN):
                rendered.append((a, None))
            else:
                rendered.append((a, v))
        if strip(toks) != strip(rendered):
            return bad('html', 'the rendered start tag %r' % html, strip(toks), strip(rendered))
        for a, v in toks:
            if a in unknown and v is not None and v != dict(lst).get(a):
                return ('views-disagree', '%s: the rendered start tag %r gives %s=%r, getAttributesList() gives %r'
                        % (where, html, a, v, dict(lst).get(a)))
        if [a for a, _ in toks] != full_order:
            return bad('order', 'the rendered start tag %r' % html, [a for a, _ in toks], full_order)
        rp = AC.reparse(fresh())
        got = rp.getAttributesList()
        if strip(got) != strip(rendered):
            return bad('reparse', 're-parse of %r' % html, strip(got), strip(rendered))
        for a, v in want:
            if a in BIN and a not in unknown and not rp.hasAttribute(a):
                return bad('reparse', 're-parsed hasAttribute(%r)' % a, False, True)
            if a in BIN and v in ('', None) and rp.getAttribute(a) is not True:
                return bad('reparse', 're-parsed boolean attribute %r' % a, rp.getAttribute(a), True)
        # 5. copies reproduce the mapping exactly
        for how in COPY_VIEWS:
            if how == 'pickle' and AC.is_void(d['tag']):
                continue
            o = fresh()
            c = AC.make_copy(o, how)
            got = c.getAttributesList()
            if strip(got) != strip(lst) or sorted(got, key=lambda p: p[0]) != sorted(lst, key=lambda p: p[0]):
                return bad('copy', how, got, lst)
        return None
