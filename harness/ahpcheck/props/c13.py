"""
C13 — the validating parser raises exactly on nesting / attribute-name errors, else builds the same tree.
Stream `C13`: C02's token sequences, classified by an independent stack model; plus getHTML() of parsed trees.
"""
import itertools

from ..core import PropCheck, Case, sx
from .. import parsing
from ..parsing import VOID, WRAPPER
from . import c02

ALPHA = c02.ALPHA10 + [['start', 'a', [['a$b', 'v']]], ['startend', 'b', []]]


def valid_name(k):
    return bool(k) and (k[0].isalpha() or k[0] == '_') and all(c.isalnum() or c in '-_' for c in k)


def classify(toks):
    """(first error or None, names left open at the end) by an independent name-stack scan."""
    open_names = []
    for t in toks:
        if t[0] in ('start', 'startend'):
            if any(not valid_name(a[0]) for a in t[2]):
                return 'InvalidAttributeNameException', open_names
            if t[0] == 'start' and t[1].lower() not in VOID:
                open_names.append(t[1].lower())
        elif t[0] == 'end':
            if t[1] not in open_names:
                return 'InvalidCloseException', open_names
            if open_names[-1] != t[1]:
                return 'MissedCloseException', open_names
            open_names.pop()
    return None, open_names


class Check(PropCheck):
    id = 'C13'
    stream = 'C13'
    extra_modules = ('AHP.Props.C13Code',)       # ValidatingAdvancedHTMLParser.handle_endtag itself, interpreted in Lean, = the hand model's vStepT on end tags
    exhaustive_in = ('quick', 'thorough')
    rule = ('C02 token sequences (ALL sequences of length <= 4 quick / <= 5 thorough over a 12-token alphabet incl. a bad attribute '
            'name and a self-closed tag; seeded random sequences to length 40 with rich rendering), classified by an '
            'independent name-stack scan into: well formed, first error stray close / skipped close / bad attribute name, '
            'only defect = elements left open at end (either outcome accepted); plus getHTML() of the plain parser\'s tree for '
            'every random sequence. Non-trivial: at least one end tag or attribute; distinct by canonical JSON.')
    assumptions = ['the stdlib tokenizer is a parameter: the model is fed the token sequence html.parser reports']

    def cases(self, tier, rng):
        maxlen = 5 if tier == 'thorough' else 4
        for n in range(0, maxlen + 1):
            for seq in itertools.product(range(len(ALPHA)), repeat=n):
                yield Case({'toks': [ALPHA[i] for i in seq], 'rich': 0, 'via': 'direct'}, 'exhaustive')
        # reuse of one parser object: every short sequence after a previous parse that left elements of the *same names*
        # open, raised at once, or was complete (state kept from one parse to the next shows here)
        prevs = [[['start', 'a', []]], [['start', 'b', []], ['start', 'a', []]], [['start', 'a', []], ['end', 'b']],
                 [['start', 'b', []], ['start', 'a', [['a$b', 'v']]]], [['start', 'a', []], ['end', 'a'], ['data', 'x']],
                 [['start', 'a', []], ['start', 'a', []], ['start', 'b', []], ['end', 'a']]]
        for n in range(1, (4 if tier == 'thorough' else 3) + 1):
            for seq in itertools.product(range(len(ALPHA)), repeat=n):
                for k, prev in enumerate(prevs):
                    if tier == 'thorough' or (sum(seq) + k) % 2 == 0:
                        yield Case({'toks': [ALPHA[i] for i in seq], 'rich': 0, 'via': 'direct', 'prev': prev}, 'exhaustive-reuse')
                    if n <= 2 or tier == 'thorough' or (sum(seq) + k) % 5 == 0:
                        yield Case({'toks': [ALPHA[i] for i in seq], 'rich': 0, 'via': 'direct', 'prev': prev, 'entry': 'feed-fresh'},
                                   'exhaustive-other-object')
        gen = c02.Check()
        n = 6000 if tier == 'thorough' else 800
        for i in range(n):
            toks = gen.random_tokens(rng)
            if rng.random() < 0.5:
                # repair towards well-formedness so that the accepting branch is well populated
                toks = self.well_formed(toks, rng)
            yield Case({'toks': toks, 'rich': rng.randrange(1, 1 << 30), 'via': 'direct'}, 'random')
            if i % 3 == 0:
                # the same validating parser object parsed something else before (possibly rejected at once)
                opens = [[t[0], t[1], []] for t in toks if t[0] == 'start'][:rng.randint(1, 4)]      # same names, left open
                prev = rng.choice([gen.random_tokens(rng), [['end', 'x']], [['start', 'a', [['a$b', 'v']]]], [],
                                   [['decl', 'DOCTYPE html']], [['start', 'a', []], ['start', 'b', []]], opens, opens])
                yield Case({'toks': toks, 'rich': rng.randrange(1, 1 << 30), 'via': 'direct', 'prev': prev}, 'random-reuse')
            if i % 2 == 0:
                yield Case({'toks': toks, 'rich': rng.randrange(1, 1 << 30), 'via': 'html'}, 'random-html')

    def well_formed(self, toks, rng):
        out = []
        open_names = []
        for t in toks:
            if t[0] in ('start', 'startend'):
                attrs = [a for a in t[2] if valid_name(a[0])]
                out.append([t[0], t[1], attrs])
                if t[0] == 'start' and t[1] not in VOID:
                    open_names.append(t[1])
            elif t[0] == 'end':
                if open_names:
                    out.append(['end', open_names.pop()])
            else:
                out.append(t)
        if rng.random() < 0.8:
            while open_names:
                out.append(['end', open_names.pop()])
        return out

    def text_of(self, d):
        text = c02.render(d['toks'], d['rich'])
        if d['via'] == 'html':
            import AdvancedHTMLParser as A
            p = A.AdvancedHTMLParser()
            p.parseStr(text)
            if p.getRoot() is None:
                return ''
            text = p.getHTML()
        return text

    def nontrivial(self, d):
        return any(t[0] == 'end' or (t[0] in ('start', 'startend') and t[2]) for t in d['toks'])

    def features(self, d):
        toks = parsing.tokenize(self.text_of(d))
        err, left = classify(toks)
        fs = ['via:' + d['via'], 'class:' + (err or ('left-open' if left else 'well-formed'))]
        if d.get('prev') is not None:
            fs.append('earlier-document-on-another-object' if d.get('entry') == 'feed-fresh' else 'reused-parser')
        fs.append('entry:' + d.get('entry', 'parseStr'))
        _, mode, _ = c02.spec_doc(toks)
        fs.append('mode:' + mode)
        return fs

    def shrink(self, d):
        toks = d['toks']
        for j in range(len(toks)):
            yield dict(d, toks=toks[:j] + toks[j + 1:])
        if d['rich']:
            yield dict(d, rich=0)
        if d.get('prev'):
            pv = d['prev']
            for j in range(len(pv)):
                yield dict(d, prev=pv[:j] + pv[j + 1:])
        for j, t in enumerate(toks):
            if t[0] in ('start', 'startend') and t[2]:
                for k in range(len(t[2])):
                    yield dict(d, toks=toks[:j] + [[t[0], t[1], t[2][:k] + t[2][k + 1:]]] + toks[j + 1:])

    def encode(self, d):
        return parsing.toks_sx(parsing.tokenize(self.text_of(d)))

    def run_one(self, cls, text, prev_text=None, entry='parseStr'):
        p = cls()
        if entry == 'feed-fresh':
            # feed() on a new object (no reset involved); the earlier document went through feed() on ANOTHER new object of
            # the class and through createElementFromHTML: what one parser holds open is nobody else's business
            if prev_text is not None:
                for fn in (lambda: cls().feed(prev_text), lambda: cls.createElementFromHTML(prev_text)):
                    try:
                        fn()
                    except Exception:        # noqa
                        pass
            p = cls()
        elif prev_text is not None:
            try:
                p.parseStr(prev_text)
            except Exception:        # noqa
                pass
        try:
            if entry == 'feed-fresh':
                p.feed(text)
            else:
                p.parseStr(text)
        except Exception as e:        # noqa
            return sx('raise', type(e).__name__), None
        root = p.getRoot()
        second = root is not None and root.tagName == WRAPPER
        return sx('second' if second else 'first', parsing.doc_sx(p)), p

    def impl(self, d):
        import AdvancedHTMLParser as A
        text = self.text_of(d)
        prev = c02.render(d['prev'], 0) if d.get('prev') is not None else None
        v, _ = self.run_one(A.ValidatingAdvancedHTMLParser, text, prev, d.get('entry', 'parseStr'))
        p, _ = self.run_one(A.AdvancedHTMLParser, text, prev, d.get('entry', 'parseStr'))
        return sx(v, p)

    def oracle(self, d):
        import AdvancedHTMLParser as A
        text = self.text_of(d)
        toks = parsing.tokenize(text)
        err, left = classify(toks)
        v = A.ValidatingAdvancedHTMLParser()
        raised = None
        fresh_feed = d.get('entry') == 'feed-fresh'
        if d.get('prev') is not None:
            pt = c02.render(d['prev'], 0)
            for fn in ((lambda: A.ValidatingAdvancedHTMLParser().feed(pt), lambda: A.ValidatingAdvancedHTMLParser.createElementFromHTML(pt))
                       if fresh_feed else (lambda: v.parseStr(pt),)):
                try:
                    fn()
                except Exception:        # noqa
                    pass
        try:
            if fresh_feed:
                v.feed(text)
            else:
                v.parseStr(text)
        except Exception as e:        # noqa
            raised = type(e).__name__
        if d['via'] == 'html' and raised is not None:
            return ('own-output-rejected', 'getHTML() output %r does not validate: %s' % (text, raised))
        if err is not None:
            if raised != err:
                return ('wrong-exception', '%r: first error is %s, parser %s' % (text, err, 'raised ' + raised if raised else 'raised nothing'))
            return None
        if left:
            if raised not in (None, 'MissedCloseException'):
                return ('wrong-exception', '%r: only defect is open elements %r, parser raised %s' % (text, left, raised))
            if raised:
                return None
        elif raised is not None:
            return ('rejects-well-formed', '%r is well formed, parser raised %s' % (text, raised))
        p = A.AdvancedHTMLParser()
        p.parseStr(text)
        if (p.getRoot() is None) != (v.getRoot() is None):
            return ('tree', '%r: one parser has a root, the other has none' % text)
        if p.getRoot() is not None:
            if parsing.py_tree(p.getRoot()) != parsing.py_tree(v.getRoot()) or p.doctype != v.doctype or p.getHTML() != v.getHTML():
                return ('tree', '%r: validating parser built %r, plain parser %r' % (text, v.getHTML(), p.getHTML()))
        return None
