"""
C04 — DOM structural invariants hold after any history of mutations.
Stream `C04`: lock-step histories; after every call the whole world (every element's blocks, children, text,
parentNode, ownerDocument, isSelfClosing and all navigation properties) is dumped on both sides.
The oracle evaluates the invariant of the property text itself on the Python object graph after every call.
"""
import json

from ..core import PropCheck, Case, sx, enc
from . import c04_dom as D


def nav_val(L, v):
    return D.val_sx(L.val(v))


def dump_world(L, target):
    """the canonical world of Driver.C04 (same layout), read from the real objects"""
    live = [i for i, e in L.items()]
    n = len(live)
    probes = live if n <= 10 else sorted(set([0, target]), key=[0, target].index)
    out = []
    Tag = L.Tag
    for i, e in L.items():
        def g(f):
            try:
                return D.val_sx(L.val(f()))
            except (ValueError, IndexError, KeyError, AttributeError, TypeError) as ex:
                return ['raise', type(ex).__name__]
        peers = g(lambda: None if e.getPeers() is None else list(e.getPeers()))
        nav = [g(lambda: e.firstChild), g(lambda: e.lastChild), g(lambda: e.firstElementChild), g(lambda: e.lastElementChild),
               g(lambda: e.nextSibling), g(lambda: e.previousSibling), g(lambda: e.nextElementSibling),
               g(lambda: e.previousElementSibling), peers, e.childElementCount,
               'true' if e.hasChildNodes() else 'false', [L.eid(x) for x in e.getAllChildNodes()]]
        bits = 'b' + ''.join('1' if e.hasChild(L.els[p]) else '0' for p in probes) \
            + ''.join('1' if (e.contains(L.els[p]) and e.containsUid(L.els[p].uid)) else '0' for p in probes)
        out.append([i, enc(e.tagName), 1 if e.isSelfClosing else 0, [L.bid(b) for b in e.blocks],
                    [L.eid(c) for c in e.children], enc(e.text), L.eid(e.parentNode), L.doc_id(e.ownerDocument), nav, bits])
    return out


def invariant_failure(L):
    """The invariant of C04's statement on the object graph; None when it holds."""
    Tag = L.Tag
    holder = {}
    for i, e in L.items():
        tags = [b for b in e.blocks if isinstance(b, Tag)]
        texts = [b for b in e.blocks if not isinstance(b, Tag)]
        if len(e.children) != len(tags) or any(a is not b for a, b in zip(e.children, tags)):
            return ('children-mirror-blocks', 'element %d: children %r but element blocks %r'
                    % (i, [L.eid(c) for c in e.children], [L.eid(c) for c in tags]))
        for c in tags:
            if c.parentNode is not e:
                return ('parent-link', 'element %s is a block of %d but its parentNode is %s' % (L.eid(c), i, L.eid(c.parentNode)))
            if c.uid in holder:
                return ('appears-twice', 'element %s appears as a block of %s and of %d' % (L.eid(c), holder[c.uid], i))
            if c.uid not in L.idx:
                return ('unknown-element', 'an element that was never created by the history is a block of %d' % i)
            holder[c.uid] = i
        if e.text != ''.join(texts):
            return ('text-cache', 'element %d: text %r but text blocks %r' % (i, e.text, texts))
        if e.innerText != e.text:
            return ('text-cache', 'element %d: innerText differs from text' % i)
        if e.isSelfClosing and (tags or ''.join(texts) != ''):
            return ('self-closing-with-content', 'element %d is self-closing but has blocks %r' % (i, [L.bid(b) for b in e.blocks]))
    # roots, owners
    for i, e in L.items():
        if e.uid not in holder:
            if e.parentNode is not None:
                return ('parent-link', 'element %d is in no block list but its parentNode is %s' % (i, L.eid(e.parentNode)))
            owner = L.parser if (L.parser is not None and e is L.parser.getRoot()) else None
            stack = [e]
            steps = 0
            while stack:
                x = stack.pop()
                steps += 1
                if steps > 10 * len(L.els) + 10:
                    return ('appears-twice', 'the blocks below element %d do not form a tree' % i)
                if x.ownerDocument is not owner:
                    return ('owner', 'element %s below root %d: ownerDocument is %s, expected %s'
                            % (L.eid(x), i, L.doc_id(x.ownerDocument), L.doc_id(owner)))
                stack.extend(b for b in x.blocks if isinstance(b, Tag))
    return None


def navigation_failure(L):
    """navigation properties against the block lists, computed independently of the library's own walks"""
    Tag = L.Tag
    holder = {}
    for _, e in L.items():
        for b in e.blocks:
            if isinstance(b, Tag):
                holder[b.uid] = e

    def same(a, b):
        if isinstance(a, Tag) or isinstance(b, Tag):
            return a is b
        return a == b

    def below(e):
        out = []
        for b in e.blocks:
            if isinstance(b, Tag):
                out.append(b)
                out.extend(below(b))
        return out
    for i, e in L.items():
        B = list(e.blocks)
        body = B[1:] if (B and B[0] == '') else B
        tags = [b for b in B if isinstance(b, Tag)]
        exp = {'firstChild': body[0] if body else None, 'lastChild': body[-1] if body else None,
               'firstElementChild': tags[0] if tags else None, 'lastElementChild': tags[-1] if tags else None}
        p = holder.get(e.uid)
        if p is None:
            exp.update(nextSibling=None, previousSibling=None, nextElementSibling=None, previousElementSibling=None)
            exp_peers = None
        else:
            pb = list(p.blocks)
            k = [j for j, b in enumerate(pb) if b is e][0]
            pt = [b for b in pb if isinstance(b, Tag)]
            kt = [j for j, b in enumerate(pt) if b is e][0]
            exp.update(nextSibling=pb[k + 1] if k + 1 < len(pb) else None, previousSibling=pb[k - 1] if k > 0 else None,
                       nextElementSibling=pt[kt + 1] if kt + 1 < len(pt) else None,
                       previousElementSibling=pt[kt - 1] if kt > 0 else None)
            exp_peers = [b for b in pt if b is not e]
        for name, want in exp.items():
            try:
                got = getattr(e, name)
            except Exception as ex:
                return ('navigation', 'element %d: %s raised %s' % (i, name, type(ex).__name__))
            if not same(got, want):
                return ('navigation', 'element %d: %s is %r, the lists say %r' % (i, name, L.val(got), L.val(want)))
        got = e.getPeers()
        if (got is None) != (exp_peers is None) or (got is not None and (len(got) != len(exp_peers) or any(a is not b for a, b in zip(got, exp_peers)))):
            return ('navigation', 'element %d: getPeers is %r, the lists say %r' % (i, L.val(got), L.val(exp_peers)))
        if e.peers is not None and exp_peers is not None and [x.uid for x in e.peers] != [x.uid for x in exp_peers]:
            return ('navigation', 'element %d: peers' % i)
        if e.childElementCount != len(tags):
            return ('navigation', 'element %d: childElementCount %d, %d element blocks' % (i, e.childElementCount, len(tags)))
        if e.hasChildNodes() != bool(tags):
            return ('navigation', 'element %d: hasChildNodes' % i)
        d = below(e)
        got = list(e.getAllChildNodes())
        if len(got) != len(d) or any(a is not b for a, b in zip(got, d)):
            return ('navigation', 'element %d: getAllChildNodes is %r, the lists say %r' % (i, L.val(got), L.val(d)))
        if len(L.els) <= 25:
            for j, o in L.items():
                if e.hasChild(o) != any(o is t for t in tags):
                    return ('navigation', 'element %d: hasChild(%d) is %r' % (i, j, e.hasChild(o)))
                want = (o is e) or any(o is x for x in d)
                if e.contains(o) != want or e.containsUid(o.uid) != want:
                    return ('navigation', 'element %d: contains(%d) is %r, expected %r' % (i, j, e.contains(o), want))
    return None


class Check(PropCheck):
    id = 'C04'
    stream = 'C04'
    exhaustive_in = ()
    extra_modules = ('AHP.Props.TreeModels',)
    rule = ('lock-step histories of the public mutating calls (appendText, appendChild, appendBlock(s), appendInnerHTML, '
            'insertBefore, insertAfter, removeText(All), remove, removeChild(ren), removeBlock(s), setAttribute) on detached, '
            'parser-owned and indexed-parser-owned trees. Small universe: every single call (every element as target, 3 spare '
            'detached elements, texts a/ab/empty, every block / absent text / non-child as reference, 3 fragments) from 12 seed '
            'trees of <= 3 nodes, breadth-first continuation with state de-duplication (quick: sampled 3-call histories; thorough: '
            'capped BFS to depth 3), plus seeded random histories of up to 40 calls on random trees of up to 60 elements. '
            'The generator keeps the precondition of the property (an element handed to append/insert is a detached root that '
            'does not contain the target). A case is non-trivial when its history changed the tree and touched >= 2 elements; '
            'distinct by canonical JSON.')
    assumptions = ['object references are modelled as containment (forest-shaped object graphs only; the adapter reports an element '
                   'that occurs twice as an invariant failure)',
                   'walks the code does through child.children (getAllChildNodes, containsUid) are modelled as walks through the '
                   'element blocks; they coincide when children mirrors blocks, which is part of the invariant',
                   'uuid4 freshness: distinct elements have distinct uids']

    def cases(self, tier, rng):
        if tier == 'thorough':
            for d in D.exhaustive_cases(60, rng, kinds=('det', 'doc', 'idoc')):
                yield Case(d, 'exhaustive')
            for seed in D.SEEDS3:
                for kind in ('det', 'doc'):
                    if kind != 'det' and D.adjacent_text(seed):
                        continue
                    for d in D.bfs_cases(seed, kind, 3, 2500, rng):
                        if len(d['ops']) > 1:
                            yield Case(d, 'bfs')
            n, size, ops = 3000, 60, 40
        else:
            for d in D.exhaustive_cases(12, rng):
                yield Case(d, 'exhaustive')
            n, size, ops = 240, 60, 40
        for i in range(n):
            if i % 3 == 0:
                yield Case(D.random_case(rng, 6, 12), 'random')
            elif i % 3 == 1:
                yield Case(D.random_case(rng, 20, 20), 'random')
            else:
                yield Case(D.random_case(rng, size, ops), 'random')

    def encode(self, d):
        return D.encode_case(d)

    def nontrivial(self, d):
        touched = set()
        changed = False
        try:
            ref = D.RefDoc(d)
            k0 = ref.state_key()
            for op in d['ops']:
                touched.add(op[1])
                for a in op[2:]:
                    if isinstance(a, int) and not isinstance(a, bool):
                        touched.add(a)
                ref.apply(op)
            changed = ref.state_key() != k0
        except Exception:
            return False
        return changed and len(touched) >= 2

    def features(self, d):
        return D.features(d)

    def shrink(self, d):
        # candidates that were already offered are not offered again (the shrinker restarts after every success)
        tried = self.__dict__.setdefault('_tried', set())
        for c in D.shrink(d):
            k = json.dumps(c, sort_keys=True)
            if k in tried:
                continue
            tried.add(k)
            if D.valid_case(c):
                yield c

    # ---- both sides --------------------------------------------------------------------------
    def impl(self, d):
        L = D.Live(d)
        out = [['init', dump_world(L, 0)]]
        for op in d['ops']:
            if not L.pre_ok(op):
                out.append(['precondition-violated'])
                break
            v = L.apply(op)
            out.append([D.val_sx(v), dump_world(L, op[1])])
        return sx(*out)

    # ---- the property itself on the library ---------------------------------------------------
    def oracle(self, d):
        L = D.Live(d)
        f = invariant_failure(L) or navigation_failure(L)
        if f:
            return (f[0], 'initial tree: ' + f[1])
        for n, op in enumerate(d['ops']):
            if not L.pre_ok(op):
                return None         # the history left the domain of the property (an argument is not detached)
            L.apply(op)
            f = invariant_failure(L) or navigation_failure(L)
            if f:
                return (f[0], 'after call %d %r: %s' % (n, op, f[1]))
        return None
