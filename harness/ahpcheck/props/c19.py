"""
C19 — typed DOM properties are total functions of the stored attribute text.

Stream `C19`: one *cell* per case — (element type, dot name) x attribute state {absent, value-less, text set through the
constructor (what the parser calls), text set by parsing HTML} x optional dot-assignment of a value.  The driver runs the
model (dispatch of __getattribute__/__setattr__ over the tables regenerated from constants.py + conversions.py); `impl`
runs the library; `oracle` evaluates the documented rules of c19_spec.py on the library.
"""
import itertools

from ..core import PropCheck, Case, sx, enc, opt
from . import c19_spec as S

UNTABLED = 'span'          # an element type without per-tag names

# ---- value corpus ----------------------------------------------------------------------------------------------
BASE = ['', '0', '1', '-1', '5', '1000', '1001', '65534', '65535', '99999999999999999999', '2.5', ' 7 ', '+3', '007',
        '0x1F', '1_0', '٣', 'true', 'false', 'FALSE', 'True', 'on', 'OFF', 'Post', 'GET', 'use-credentials',
        'Anonymous', 'Captions', 'metadata', 'subtitles', 'hello  world ', 'é&"<x>', 'ON ', 'yes']
NUMERIC_EXTRA = ['-0', '+-1', '1__0', '_1', '1_', ' \t5\n', '\x1c5', '5\x85', ' 5', '1e3', '1 2', '--1', '+', '-',
                 '١٢٣٤', '１０', '-٥', '5²', '2', '19', '20', '21', '999', '1002', '65533',
                 '65536', '-2', '-65535', '4294967296', '-99999999999999999999', '9' * 4300, '9' * 4301, '0' * 4301, '1_' * 2200 + '1']
ENUM_EXTRA = ['get', 'post', 'POST', 'put', 'off', 'On', 'anonymous', 'USE-CREDENTIALS', 'use_credentials', 'captions', 'chapters',
              'descriptions', 'Descriptions', 'METADATA', 'SubTitles', 'subtitle', ' on', 'oK']
WORDS_EXTRA = ['5\x85', '\u2007a  b\u3000', 'a\tb', ' a \x1c', 'a   b c ', '\na b\n', 'a\xa0b', '  ', 'A a A']
ASSIGN_PY = [0, 1, 5, -1, -4, 1000, 1001, 65534, 65535, 10 ** 20, True, False, None]


def corpus(tag, prop, tier, origin='tag'):
    k = S.rule(tag, prop)[0] if prop in props_of(tag) else 'unlinked'
    vals = list(BASE)
    if k in S.NUMERIC_KINDS:
        vals += NUMERIC_EXTRA
    elif k == 'enum':
        vals += ENUM_EXTRA
    elif k in ('tokens', 'className'):
        vals += WORDS_EXTRA
    elif tier == 'thorough':
        vals += NUMERIC_EXTRA[:12] + ENUM_EXTRA[:6]
    return vals


def props_of(tag):
    return set(S.TAG_PROPS.get(tag, ())) | set(S.COMMON_PROPS)


def pairs(tier):
    out = []
    for tag in sorted(S.TAG_PROPS):
        for p in S.TAG_PROPS[tag]:
            out.append((tag, p, 'tag'))
    common_on = [UNTABLED, 'input', 'textarea', 'form', 'td'] if tier != 'thorough' else [UNTABLED] + sorted(S.TAG_PROPS)
    for tag in common_on:
        for p in S.COMMON_PROPS:
            if p not in S.TAG_PROPS.get(tag, ()):
                out.append((tag, p, 'common' if tag == UNTABLED else 'common2'))
    # names that are *not* linked (controls: lower-case spellings, names of other element types)
    for tag, p in (('td', 'colspan'), ('td', 'rowspan'), ('input', 'maxlength'), ('div', 'href'), (UNTABLED, 'checked'),
                   ('form', 'novalidate'), ('a', 'colSpan'), ('meta', 'httpequiv'), ('submit', 'o'), ('input', 'onsubmit')):
        out.append((tag, p, 'unlinked'))
    return out


def canon_value(v):
    """JSON-able form of an assigned value."""
    if v is None:
        return ['n']
    if isinstance(v, bool):
        return ['b', v]
    if isinstance(v, int):
        return ['i', v]
    return ['s', v]


def py_value(a):
    return {'n': lambda: None, 'b': lambda: a[1], 'i': lambda: a[1], 's': lambda: a[1]}[a[0]]()


class Check(PropCheck):
    id = 'C19'
    stream = 'C19'
    extra_modules = ('AHP.Props.C19Code',)       # the code of conversions.py itself, interpreted in Lean, = the hand model
    exhaustive_in = ('quick', 'thorough')
    rule = ('every (element type, dot name) pair of the documented table (per-tag names of all 72 element types, the common '
            'names on an element type without per-tag names and on input/textarea/form/td [thorough: on every type], plus '
            'unlinked control names) x {attribute absent, value-less, text via the constructor, text via parsing HTML} x a '
            'corpus of 34 strings (68 for numeric, 52 for enumerated properties: empty, signed, huge, fractional, padded, hex, '
            'underscores, non-ASCII digits and blanks, 4300/4301 digits, boundaries of every range, mixed-case keywords, words) '
            'x dot-assignment of every corpus string and of ints/bools/None on an absent and on a present attribute; '
            'exhaustive, no sampling; a cell is non-trivial when an attribute is present or assigned')
    assumptions = ['case folding of enumerated values is ASCII in the model (no documented member contains k or a-ring, the only '
                   'letters with a non-ASCII upper-case partner)',
                   "Python's int() on text is a parameter of the theorems; the driver's instance is validated against CPython on the corpus"]

    # ---- generation -------------------------------------------------------------------------
    def cases(self, tier, rng):
        for tag, prop, origin in pairs(tier):
            attr = S.html_name(prop)
            vals = corpus(tag, prop, tier, origin)
            base = {'tag': tag, 'prop': prop, 'attr': attr, 'ctx': 0, 'via': 'ctor', 'init': ['absent'], 'assign': None,
                    'pre': False, 'upper': False}

            def mk(**kw):
                d = dict(base)
                d.update(kw)
                return Case(d, 'exhaustive')
            yield mk()
            yield mk(ctx=1)
            yield mk(init=['bare'])
            yield mk(init=['bare'], via='html', ctx=1)
            for s in vals:
                yield mk(init=['text', s])
                if len(s) < 100:
                    yield mk(init=['text', s], via='html')
            for s in vals:
                yield mk(assign=['s', s])
            for v in ASSIGN_PY:
                yield mk(assign=canon_value(v))
            for v in ['', '5', 'false', 'abc', False, True, 0, None, -3]:
                yield mk(init=['text', 'x'], assign=canon_value(v))
            yield mk(init=['bare'], assign=['b', False])
            yield mk(ctx=1, via='html', init=['text', 'on'], assign=['s', 'off'])
            # text stored through em.setAttribute(name, text)
            for s in vals:
                yield mk(init=['text', s], via='setattr')
            # an unrelated attribute comes first; upper-case spellings of the element type and of the attribute
            for s in ['', '5', 'false', 'Off']:
                yield mk(init=['text', s], pre=True)
                yield mk(init=['text', s], pre=True, via='html', assign=['s', '7'])
                yield mk(init=['text', s], upper=True)
                yield mk(init=['text', s], upper=True, via='html', ctx=1)
                yield mk(init=['text', s], upper=True, via='setattr', assign=['b', False])
            # the element has a history: it held another text, the property was read, then the text was put there (or taken
            # away) through the attributes mapping — the read must follow the text that is stored now
            yield mk(via='mapping')
            for s in vals[:6] + ['', '5', 'false', 'Off', 'POST']:
                yield mk(init=['text', s], via='mapping')
            # the process-wide switch of what `.attributes` is (toggleAttributesDOM) does not change what a property reads
            for s in ['', '5', 'false', 'Off', 'POST', 'x']:
                yield mk(init=['text', s], dommode=True)
                yield mk(init=['text', s], dommode=True, via='html', ctx=1)
            yield mk(pre=True, assign=['s', 'x'])
            yield mk(upper=True)
            yield mk(upper=True, assign=['s', '-2'])

    def nontrivial(self, d):
        return d['init'][0] != 'absent' or d['assign'] is not None

    def features(self, d):
        linked = d['prop'] in props_of(d['tag'])
        k = S.rule(d['tag'], d['prop'])[0] if linked else 'unlinked'
        fs = ['kind:' + k, 'init:' + d['init'][0], 'via:' + d['via'], 'ctx:%d' % d['ctx']] + (['attributes=DOM'] if d.get('dommode') else [])
        if d.get('pre'):
            fs.append('other-attribute-first')
        if d.get('upper'):
            fs.append('upper-case-names')
        if d['assign'] is not None:
            fs.append('assign:' + d['assign'][0])
        if d['init'][0] == 'text' and k in S.NUMERIC_KINDS:
            n = S.parse_int(d['init'][1])
            fs.append('num:' + ('unparsable' if n is None else 'negative' if n < 0 else 'small' if n <= 1000 else 'large'))
        return fs

    def shrink(self, d):
        if d['ctx']:
            yield dict(d, ctx=0)
        if d['via'] != 'ctor':
            yield dict(d, via='ctor')
        if d.get('pre'):
            yield dict(d, pre=False)
        if d.get('upper'):
            yield dict(d, upper=False)
        if d['assign'] is not None and d['init'][0] != 'absent':
            yield dict(d, init=['absent'])
        if d['init'][0] == 'text' and len(d['init'][1]) > 1:
            s = d['init'][1]
            yield dict(d, init=['text', s[:len(s) // 2]])
            yield dict(d, init=['text', s[1:]])
        if d['assign'] is not None and d['assign'][0] == 's' and len(d['assign'][1]) > 1:
            s = d['assign'][1]
            yield dict(d, assign=['s', s[:len(s) // 2]])
            yield dict(d, assign=['s', s[1:]])

    # ---- model side ----------------------------------------------------------------------------
    @staticmethod
    def text(s):
        """A text on the wire; long repetitive texts as (cat (rep unit n) rest)."""
        if len(s) > 200:
            for u in (1, 2, 3, 4):
                k = len(s) // u
                if s.startswith(s[:u] * k):
                    return ['cat', ['rep', enc(s[:u]), k], enc(s[u * k:])]
        return enc(s)

    def encode(self, d, mode='cell'):
        init = d['init']
        i = 'absent' if init[0] == 'absent' else ['bare'] if init[0] == 'bare' else ['text', self.text(init[1])]
        a = d['assign']
        if a is None:
            asg = 'no'
        elif a[0] == 's':
            asg = ['s', self.text(a[1])]
        elif a[0] == 'i':
            asg = ['i', str(a[1])]
        elif a[0] == 'b':
            asg = ['b', bool(a[1])]
        else:
            asg = ['n']
        anc = [enc('div'), enc('form')] if d['ctx'] else []
        up = d.get('upper')
        return sx(mode, enc(d['tag'].upper() if up else d['tag']), enc(d['prop']), enc(d['attr']),
                  enc(d['attr'].upper() if up else d['attr']), anc, bool(d.get('pre')),
                  'setattr' if d['via'] == 'mapping' else d['via'], i, asg)

    # ---- library side --------------------------------------------------------------------------
    def build(self, d):
        import AdvancedHTMLParser as AHP
        from AdvancedHTMLParser.constants import IMPLICIT_SELF_CLOSING_TAGS
        up = d.get('upper')
        tag, attr, init = d['tag'], d['attr'], d['init']
        ctag = tag.upper() if up else tag
        iattr = attr.upper() if up else attr
        pre = [('data-k', 'v')] if d.get('pre') else []
        if d['via'] == 'html':
            if init[0] == 'absent':
                a = ''
            elif init[0] == 'bare':
                a = ' ' + iattr
            else:
                a = ' %s="%s"' % (iattr, init[1].replace('&', '&amp;').replace('"', '&quot;'))
            if pre:
                a = ' data-k="v"' + a
            inner = '<%s%s>' % (ctag, a) + ('' if tag in IMPLICIT_SELF_CLOSING_TAGS else '</%s>' % ctag)
            doc = '<form><div>%s</div></form>' % inner if d['ctx'] else inner
            p = AHP.AdvancedHTMLParser()
            p.parseStr(doc)
            e = p.getRoot()
            if d['ctx']:
                e = e.children[0].children[0]
            self._keep = p
            return e
        attrs = [] if init[0] == 'absent' else [(iattr, None if init[0] == 'bare' else init[1])]
        if d['via'] == 'mapping':
            e = AHP.AdvancedTag(ctag, pre + [(iattr, 'zz7')])
            try:
                getattr(e, d['prop'])
            except Exception:
                pass
            if init[0] == 'absent':
                del e.attributesDict[iattr]
            else:
                e.attributesDict[iattr] = init[1]
        elif d['via'] == 'setattr':
            e = AHP.AdvancedTag(ctag, pre)
            for k, v in attrs:
                e.setAttribute(k, v)
        else:
            e = AHP.AdvancedTag(ctag, pre + attrs)
        if d['ctx']:
            f = AHP.AdvancedTag('form')
            dv = AHP.AdvancedTag('div')
            f.appendChild(dv)
            dv.appendChild(e)
            self._keep = f
        return e

    def render(self, e, v):
        if v is None:
            return 'none'
        if isinstance(v, bool):
            return ['b', v]
        if isinstance(v, int):
            return ['i', str(v)]
        if isinstance(v, str):
            return ['s', enc(v)]
        name = type(v).__name__
        if name == 'DOMTokenList':
            return ['t'] + [enc(w) for w in v]
        if name == 'AdvancedTag':
            i, p = 0, e.parentNode
            while p is not None:
                if p is v:
                    return ['anc', i]
                i, p = i + 1, p.parentNode
            return ['obj', 'element']
        if name == 'StyleAttribute':
            return ['obj', 'style']
        return ['obj', name]

    def _dommode(self, d, fn):
        if not d.get('dommode'):
            return fn(d)
        import AdvancedHTMLParser as AHP
        AHP.Tags.toggleAttributesDOM(True)
        try:
            return fn(d)
        finally:
            AHP.Tags.toggleAttributesDOM(False)

    def impl(self, d):
        return self._dommode(d, self._impl)

    def oracle(self, d):
        return self._dommode(d, self._oracle)

    def _impl(self, d):
        e = self.build(d)
        setout = 'skip'
        if d['assign'] is not None:
            try:
                setattr(e, d['prop'], py_value(d['assign']))
                setout = 'ok'
            except Exception as ex:
                setout = ['raise', type(ex).__name__]
        try:
            val = self.render(e, getattr(e, d['prop']))
        except Exception as ex:
            val = ['raise', type(ex).__name__]
        av = self.render(e, e.getAttribute(d['attr']))
        has = bool(e.hasAttribute(d['attr']))
        attrs = [[enc(k), opt(v)] for k, v in e.getAttributesList()]
        return sx(setout, val, av, has, attrs)

    # ---- the property itself on the library -------------------------------------------------------
    def _oracle(self, d):
        tag, prop, attr = d['tag'], d['prop'], d['attr']
        if prop not in props_of(tag):
            return None                                   # control cells: correspondence only
        e = self.build(d)
        init = d['init']
        state = S.ABSENT if init[0] == 'absent' else ('text', init[1]) if init[0] == 'text' else ('bare',)
        kind = S.rule(tag, prop)[0]
        if d['assign'] is not None:
            v = py_value(d['assign'])
            want = S.expected_assign(tag, prop, v)
            try:
                setattr(e, prop, v)
                raised = None
            except Exception as ex:
                raised = ex
            if want[0] == 'raise':
                if raised is None:
                    return ('assign-accepted', '%s.%s = %r must raise (out-of-range maxLength), it was accepted' % (tag, prop, v))
                if type(raised).__name__ != 'IndexSizeErrorException':
                    return ('assign-raises', '%s.%s = %r raised %s, expected IndexSizeErrorException' % (tag, prop, v, type(raised).__name__))
                # nothing may have been stored
            elif raised is not None:
                return ('assign-raises', '%s.%s = %r raised %s: %s' % (tag, prop, v, type(raised).__name__, raised))
            if want[0] == 'remove':
                state = S.ABSENT
            elif want[0] == 'store':
                state = ('text', want[1])
            # the attribute is stored under its HTML name, and nothing else appears
            alist = [(k, x) for k, x in e.getAttributesList() if not (d.get('pre') and k == 'data-k')]
            if d.get('pre') and e.getAttributesList()[:1] != [('data-k', 'v')]:
                return ('stored-name', 'after %s.%s = %r the unrelated attribute data-k="v" is gone or moved: %r' % (tag, prop, v, e.getAttributesList()))
            names = [k for k, _ in alist]
            stored = e.getAttribute(attr)
            if names == [attr] and state[0] == 'text' and kind != 'className' and alist[0][1] != state[1]:
                return ('stored-html', 'after %s.%s = %r the attribute list holds %s=%r, expected %r' % (tag, prop, v, attr, alist[0][1], state[1]))
            if state[0] == 'text' and not (kind == 'className' and state[1] == ''):
                if names != [attr]:
                    return ('stored-name', 'after %s.%s = %r the attributes are %r, expected [%r]' % (tag, prop, v, names, attr))
                if kind == 'boolean':
                    if stored is not True and stored != '':
                        return ('stored-value', 'after %s.%s = %r getAttribute(%r) is %r' % (tag, prop, v, attr, stored))
                elif stored != state[1]:
                    return ('stored-value', 'after %s.%s = %r getAttribute(%r) is %r, expected %r' % (tag, prop, v, attr, stored, state[1]))
            elif state[0] == 'absent' or kind == 'className':
                if names:
                    return ('stored-name', 'after %s.%s = %r the attributes are %r, expected none' % (tag, prop, v, names))
        try:
            got = getattr(e, prop)
        except Exception as ex:
            return ('get-raises', 'reading %s.%s with %s=%r raised %s: %s' % (tag, prop, attr, state, type(ex).__name__, ex))
        if state[0] == 'bare':
            # a value-less attribute holds no text: totality, and presence for boolean properties
            if kind == 'boolean' and got is not True:
                return ('value', 'boolean %s.%s with a value-less attribute reads %r' % (tag, prop, got))
            return None
        want = S.expected_get(tag, prop, state, in_form=bool(d['ctx']))
        ok = self.same(e, got, want)
        if not ok:
            return ('value', '%s.%s with %s %s reads %r, the documented rule gives %r' % (
                tag, prop, attr, 'absent' if state[0] == 'absent' else '= %r' % (state[1][:60],), got if not hasattr(got, 'tagName') else '<%s>' % got.tagName, want))
        return None

    def same(self, e, got, want):
        if isinstance(want, tuple) and want[0] == 'ancestor-form':
            p = e.parentNode
            while p is not None and p.tagName != 'form':
                p = p.parentNode
            return p is not None and got is p
        if isinstance(want, tuple) and want[0] == 'tokens':
            return type(got).__name__ == 'DOMTokenList' and list(got) == want[1]
        if want is None:
            return got is None
        return type(got) is type(want) and got == want

    # ---- the Python restatement of the rules, rendered like the driver's `spec` mode ----------------------
    def spec_render(self, d):
        tag, prop = d['tag'], d['prop']
        init = d['init']
        if init[0] == 'bare':
            return 'bare'
        state = S.ABSENT if init[0] == 'absent' else ('text', init[1])
        setout = 'skip'
        if d['assign'] is not None:
            want = S.expected_assign(tag, prop, py_value(d['assign']))
            if want[0] == 'raise':
                setout = ['raise', 'IndexSizeErrorException']
            else:
                setout = 'ok'
                state = S.ABSENT if want[0] == 'remove' else ('text', want[1])
        v = S.expected_get(tag, prop, state, in_form=bool(d['ctx']))
        if isinstance(v, tuple) and v[0] == 'ancestor-form':
            r = ['anc', 1]
        elif isinstance(v, tuple) and v[0] == 'tokens':
            r = ['t'] + [enc(w) for w in v[1]]
        else:
            r = self.render(None, v)
        return sx(setout, r, enc(S.html_name(prop)))

    def spec_agreement(self):
        """The Python restatement (c19_spec.py) and the Lean specification (AHP.Conv.Spec, the right-hand side of the
        table obligations and of theorem C19b_meaning) agree on the name tables and on every cell of the quick tier."""
        from ..core import run_driver, parse_sx, dec
        try:
            names = parse_sx(run_driver(self.stream, ['(names)'])[0])
            lean_tags = {dec(row[0]): [dec(x) for x in row[1:]] for row in names[0]}
            lean_common = [dec(x) for x in names[1]]
            if lean_tags != S.TAG_PROPS or lean_common != S.COMMON_PROPS:
                return 'name tables differ'
            cells = [c.data for c in self.cases('quick', None) if c.data['prop'] in props_of(c.data['tag']) and c.data['via'] == 'ctor']
            out = run_driver(self.stream, [self.encode(d, 'spec') for d in cells])
            for d, o in zip(cells, out):
                w = self.spec_render(d)
                if o != w:
                    return 'cell %r: lean %s python %s' % (d, o[:200], w[:200])
        except Exception as e:
            return 'could not be evaluated: %s: %s' % (type(e).__name__, e)
        return None

    # ---- obligations discharged outside Lean -------------------------------------------------------
    def extra_obligations(self):
        """(1) python-spec = lean-spec.  (2) Names the model treats as linked must not be shadowed by real attributes of
        AdvancedTag (the `object.__getattribute__` short cut), except `className` which the model handles."""
        from ..core import setup_impl_path
        setup_impl_path()
        diff = self.spec_agreement()
        obs = [('the Python restatement of the documented rules equals the Lean specification on every cell (%s)'
                % (diff or 'agree'), diff is None)]
        return obs + self._shadow_obligation()

    def _shadow_obligation(self):
        import AdvancedHTMLParser as AHP
        names = set(S.COMMON_PROPS)
        for v in S.TAG_PROPS.values():
            names |= set(v)
        e = AHP.AdvancedTag('div')
        shadowed = sorted(n for n in names if n != 'className' and _has_real_attr(e, n))
        return [('no linked dot name is shadowed by a real attribute of AdvancedTag (found: %s)' % shadowed, not shadowed)]


def _has_real_attr(e, n):
    try:
        object.__getattribute__(e, n)
        return True
    except AttributeError:
        return False
