"""
C02 — best-effort tree construction follows the token sequence, however nested.
Stream `C02`: histories of 1-3 parses on one parser object; each parse is an abstract token sequence rendered to
markup by a rich renderer; the model gets the token list the real tokenizer reports for that markup.
Further case kinds on the same stream: `wrap` (`utils.addStartTag` at character level), `strip` (`utils.stripIEConditionals`
at character level: model vs the real function; oracle: parseStr(text) is the rest of `feed` applied to the stripped text),
`stripparse` (parseStr of a text with IE conditional comments: model strips, real tokenizer, model builds).
"""
import io
import itertools
import os
import random
import tempfile

from ..core import PropCheck, Case, sx
from .. import parsing
from ..parsing import VOID, WRAPPER

ENTRIES = ('str', 'bytes', 'fileobj', 'path', 'ctor')

# the 10-token alphabet of the property: two ordinary names, one void name, their end tags, text, a reference,
# a comment, a stray end tag
ALPHA10 = [
    ['start', 'a', []], ['start', 'b', []], ['start', 'br', []],
    ['end', 'a'], ['end', 'b'], ['end', 'br'],
    ['data', 'x'], ['entity', 'amp'], ['comment', 'c'], ['end', 'z'],
]

NAMES = ['div', 'span', 'p', 'a', 'b', 'ul', 'li', 'br', 'img', 'input', 'hr', 'pre', 'table', 'td']
ATTR_NAMES = ['id', 'name', 'title', 'data-x', 'href', 'checked', 'disabled', 'class', 'style', 'x_y', 'onclick']
BAD_ATTR_NAMES = ['1a', 'a$b', '-x', 'a.b', 'a:b', '@k']
VALUES = ['v', '', 'a b', 'x"y', "it's", 'a<b', 'a>b', '1', 'é☃', 'k  l', ' pad ', 'a=b', 'v1\r\nv2']
# white space of `str.isspace()` that is not ASCII (U+00A0, U+3000, U+2003, U+0085) or not in C's isspace (\x1c): leading,
# trailing, inner — `str.strip()` removes it at the ends, `split(' ')` does not split at it
UNI_CLASS_VALUES = ['\xa0k', 'k\u3000', 'k\xa0l', '\u2003k l\x1c', '\x85', ' \xa0 k']
UNI_STYLE_VALUES = ['\xa0color: red', 'color\u3000:\u2003red', 'color: red;\x1c', 'a:\x85b\xa0;c:d', 'top: 1\xa0px']
UNI_TEXTS = ['\xa0', '\u3000', 'x\xa0y', '\x1c', '\x85\n', '\u2003x']
CLASS_VALUES = ['k', 'k l', ' k  l ', 'A b-c', '', None] + UNI_CLASS_VALUES
STYLE_VALUES = ['color: red', 'color:red;float:left', ' padding-top : 5px ; ', 'display: none;;', '', 'Color: RED', None] + UNI_STYLE_VALUES
TEXTS = ['x', ' ', '\n', 'hello world', '  two  ', 'a > b', 'é☃', '\t', 'x\ny', '1 < 2', 'a & b', 'R &'+' D', 'l1\r\nl2', 'x\ry'] + UNI_TEXTS
ENTITIES = ['amp', 'lt', 'nbsp', 'copy']
CHARREFS = ['65', 'x41', '8364', 'X3c']
COMMENTS = ['c', ' spaced ', '', 'a-b', 'x > y', 'multi\nline', 'cr\r\nlf', ' if the user is logged in ', 'if', 'iframe x', 'x [if y]>z', ' IF x']


def render_token(t, rng):
    """Rich renderer: rng is None for the canonical plain form."""
    k = t[0]

    def ws(minimum=0):
        if rng is None:
            return ' ' * minimum
        return rng.choice([' ', ' ', '  ', '\n', '\t', ' \n '][: 6 if minimum else 6]) if (minimum or rng.random() < 0.3) else ''

    def case(n):
        if rng is None or rng.random() < 0.6:
            return n
        return ''.join(c.upper() if rng.random() < 0.5 else c for c in n)
    if k in ('start', 'startend'):
        out = ['<', case(t[1])]
        for an, av in t[2]:
            out.append(ws(1) or ' ')
            out.append(case(an))
            if av is not None:
                forms = ['dq']
                if "'" not in av:
                    forms.append('sq')
                if av and all(c.isalnum() or c in '-_.:' for c in av) and av.isascii():
                    forms.append('unq')
                f = 'dq' if rng is None else rng.choice(forms)
                eq = '=' if rng is None else rng.choice(['=', '=', ' =', '= ', ' = '])
                if f == 'unq':
                    out.append(eq + av)
                    if k == 'startend' or True:
                        out.append(' ')        # an unquoted value must not touch '/' or '>'
                elif f == 'sq':
                    out.append(eq + "'" + av + "'")
                else:
                    out.append(eq + '"' + av.replace('"', '&quot;') + '"')
        out.append(ws())
        out.append('/>' if k == 'startend' else '>')
        return ''.join(out)
    if k == 'end':
        return '</' + case(t[1]) + ws() + '>'
    if k == 'data':
        return t[1]
    if k == 'entity':
        return '&' + t[1] + ';'
    if k == 'charref':
        return '&#' + t[1] + ';'
    if k == 'comment':
        return '<!--' + t[1] + '-->'
    if k == 'decl':
        return '<!' + t[1] + '>'
    raise ValueError(k)


def render(toks, rich):
    rng = random.Random(rich) if rich else None
    return ''.join(render_token(t, rng) for t in toks)


# ---- texts with Internet-Explorer conditional comments (`utils.stripIEConditionals`, the first step of `feed`) ----------

IE_OPENERS = ['<!--[if IE]>', '<!--[if lt IE 9]>', '<!--[if IE 6]>', '<!--[if gte IE 8]>', '<!--[if !IE]><!-->',
              '<!--[if gt IE 8]><!-->', '<!-- [if IE]>', '<!--[ if IE]>', '<!--\t[\r\n if IE 7]>', '<!--\n[if IE]>',
              '<!--  [  if (IE 6)|(IE 7)]>', '<!--[if]>', '<!--[ifIE]>', '<!--[if IE]-->']
IE_CLOSERS = ['<![endif]-->', '<!--<![endif]-->', '<![endif]-->', '<![endif] -->', '-->']
IE_BODIES = ['<html class="ie">', '<html class="ie6" lang="en">', '<p>IE only</p>', '<link rel="stylesheet" href="ie.css">',
             '', 'x', '<html>', '<div>a --> b</div>', '<script src="html5shiv.js"></script>', '<b>--></b>', 'a\nb',
             '\n<p>multi</p>\n']
IE_NEAR = ['<!-- [if', '<!--[ if', '<!--[IF IE]>x<![endif]-->', '<!-- if IE]>x<![endif]-->', '<!-[if IE]>x<![endif]-->',
           '<!---[if IE]>x<![endif]-->', '<!--[i f IE]>x<![endif]-->', '<!--[\x0bif IE]>x<![endif]-->',
           '<!--[\xa0if IE]>x<![endif]-->', '<!--[if IE]>x<![endif]--', '<!--[if IE]>x\n<![endif]-->', '<![if !IE]><p>y</p><![endif]>',
           '<!--[If IE]>x-->', '<! --[if IE]>x-->', '<!--[if IE]>x -->', '<!--[if IE]>x\r-->', '<!--[iff IE]>x-->',
           '<!--[\n\n if\nIE]>x-->', '<!--[if IE]>\n-->']
IE_PLAIN = ['<head><title>t</title></head>', '<body>', '<p>text</p>', '</body>', '<!-- plain -->', '<br/>', 'text', ' ', '\n',
            '<div id="a">x</div>', '<!---->', '-->', '<a href="x-->y">l</a>']
IE_HTML_OPEN = ['<html>', '<HTML>', '<html >', '< html>', '<html lang="en">', '<\nhtml\t>', '<htmlx>']
IE_HTML_CLOSE = ['</html>', '</HTML>', '</ html >', '</html\n>', '</htm>', '< /html>', '</html x>']
IE_DOCTYPES = ['<!DOCTYPE html>', '<!doctype html>\n', '\n<!DOCTYPE html PUBLIC "-//W3C//DTD XHTML 1.0//EN">', '  <!DOCTYPE html>',
               ' \n<!DOCTYPE html>', '<!DOCTYPE html']
# fragments for the enumerated part: every concatenation of up to 4 (quick) / 5 (thorough) of them
IE_FRAGS = ['<!--', '[if', ' ', '\n', '-->', 'x', '</html>', '<html>', '<!DOCTYPE html>', '-', '<!--[if a]>b-->']
# hand-written: what `replace` (every occurrence, in match order) and the greedy `.*` do
IE_FIXED = [
    '<!--[if a]-->\n<!--[if b]--><!--[if a]-->',                # the first match also occurs inside the second
    '<!-<!--[if x]-->-\n[if y]-->',                              # removing a match creates a new conditional
    '<!--[if IE]>a<![endif]--> <!-- other --> tail',            # `.*` runs to the LAST --> of the line
    '<!--[if IE]>a<![endif]-->\n<!-- other -->\ntail',
    '<!--[if IE]>a<![endif]--><!--[if IE]>a<![endif]-->',       # two on one line: one match
    '<!--[if IE]>a<![endif]-->\n<!--[if IE]>a<![endif]-->',     # repeated identical ones
    'x<!--[if IE]>a<![endif]-->y<!--[if IE]>a<![endif]-->\nz<!--[if IE]>a<![endif]-->',
    '<!--[if--->', '<!--[if-->-->', '<!--[if-->->', '<!--[if--', '<!--[if-- >', '<!--[if>-->-', '<!--[if\n-->',
    '<!DOCTYPE html>\n<!--[if lt IE 7]><html class="ie6"><![endif]-->\n<!--[if IE 7]><html class="ie7"><![endif]-->\n'
    '<!--[if gt IE 8]><!--><html><!--<![endif]-->\n<head></head><body><p>x</p></body></html>',
    '<!DOCTYPE html>\n<!--[if lt IE 7]><html class="ie6"><![endif]-->\n<head></head><body><p>x</p></body></html>',
    '<!--[if IE]><html><![endif]--><body></body></html>',
    '\n  <!DOCTYPE html><!--[if IE]><html><![endif]--><body></body></html>',
    ' \n<!DOCTYPE html><!--[if IE]><html><![endif]--><body></body></html>',
    '<!--[if IE]><html><![endif]--><body></body></HTML\t>',
    '<!--[if IE]><html><![endif]--><body></body></html><html>',
    '<!--[if IE]>x-->ab<!--[if IE]>x-->', 'a<!--[if IE]>x-->b\na<!--[if IE]>x-->b', '',
    '<!--[if IE]>x--><!--[if IE]>x-->\n<!--[if IE]>x-->',
    '<p a="<!--[if IE]>">x</p> --> y', '<!--[if IE]>\r\n<p>x</p>\r\n<![endif]-->', '<!--[if IE]>x\r<![endif]-->',
]


def ie_conditional(rng):
    return rng.choice(IE_OPENERS) + rng.choice(IE_BODIES) + rng.choice(IE_CLOSERS)


def ie_text(rng):
    """a document with 0-3 IE conditional comments in the usual places, near misses, and the html-tag situations"""
    parts = []
    if rng.random() < 0.4:
        parts.append(rng.choice(IE_DOCTYPES))
    nconds = rng.choice((0, 1, 1, 1, 2, 2, 3))
    conds = [ie_conditional(rng) for _ in range(nconds)]
    if conds and rng.random() < 0.3:
        conds.append(rng.choice(conds))                         # a repeated identical one
    body = []
    if rng.random() < 0.5:
        body.append(rng.choice(IE_HTML_OPEN))
    for _ in range(rng.randint(0, 5)):
        r = rng.random()
        body.append(rng.choice(IE_NEAR) if r < 0.2 else rng.choice(IE_PLAIN))
    if rng.random() < 0.6:
        body.append(rng.choice(IE_HTML_CLOSE))
    # conditionals go in front (the usual place), or anywhere
    for c in conds:
        if rng.random() < 0.6:
            body.insert(0, c)
        else:
            body.insert(rng.randint(0, len(body)), c)
    sep = rng.choice(['', '', '\n', '\n', ' ', '\r\n'])
    out = []
    for b in body:
        out.append(b)
        out.append(sep if rng.random() < 0.8 else rng.choice(['', '\n']))
    return ''.join(parts) + ''.join(out)


IE_MARKER = None


def ie_expected(text):
    """What C02g's theorems say `stripIEConditionals(text)` is, computed without calling it: ('id' | 'several', result)
    when `stripIE_id` / `stripIE_several` (Props/C02.lean) apply, else None.  The matches are taken from the real
    `findall` (their shape is `ieMatch_reading`), the side conditions are evaluated here."""
    import re
    global IE_MARKER
    if IE_MARKER is None:
        IE_MARKER = re.compile('<!--[ \t\r\n]*\\[[ \t\r\n]*if')
    from AdvancedHTMLParser.utils import IE_CONDITIONAL_PATTERN
    if not IE_MARKER.search(text):
        return ('id', text)
    ms = list(IE_CONDITIONAL_PATTERN.finditer(text))
    if not ms:
        return None
    conds = [m.group(0) for m in ms]
    gaps, pos = [], 0
    for m in ms:
        gaps.append(text[pos:m.start()])
        pos = m.end()
    gaps.append(text[pos:])
    joined = ''.join(gaps)
    if IE_MARKER.search(joined) or any(IE_MARKER.search(c[1:]) for c in conds):
        return None
    if any(a != b and (a.startswith(b) or b.startswith(a)) for a in conds for b in conds):
        return None
    # the html-tag rule (addHtmlIfMissing_cases)
    ws = '[ \t\r\n]*'
    word = '[hH][tT][mM][lL]'
    if re.search('</' + ws + word + ws + '>', joined) and not re.search('<' + ws + word + ws + '>', joined):
        d = re.match('[\n]*[ \t]*<![dD][oO][cC][tT][yY][pP][eE][^>]*>', joined)
        k = d.end() if d else 0
        joined = joined[:k] + '<html>' + joined[k:]
    return ('several', joined)


def ie_raw_feed(parser, text):
    """`AdvancedHTMLParser.feed` after its first line: what the parser does with the (already stripped) text"""
    from html.parser import HTMLParser
    from AdvancedHTMLParser.exceptions import MultipleRootNodeException
    from AdvancedHTMLParser.utils import addStartTag
    from AdvancedHTMLParser.constants import INVISIBLE_ROOT_TAG_START, INVISIBLE_ROOT_TAG_END
    try:
        HTMLParser.feed(parser, text)
    except MultipleRootNodeException:
        parser.reset()
        HTMLParser.feed(parser, '%s%s' % (addStartTag(text, INVISIBLE_ROOT_TAG_START), INVISIBLE_ROOT_TAG_END))


# ---- the specification: recursive descent over the token sequence, no stack ---------------------------------------

def spec_attrs(pairs):
    from_valid = {}
    for k, v in pairs:
        k = k.lower()
        if not k or not (k[0].isalpha() or k[0] == '_') or not all(c.isalnum() or c in '-_' for c in k):
            continue
        from_valid[k] = v
    return from_valid


def spec_items(toks, i, open_names):
    """blocks of the element whose ancestors-or-self are open_names; returns (blocks, next index)."""
    out = []
    while i < len(toks):
        t = toks[i]
        k = t[0]
        if k == 'end':
            if t[1] in open_names:
                return out, i            # not consumed here
            i += 1                       # stray: ignored
        elif k in ('start', 'startend'):
            name = t[1].lower()
            attrs = spec_attrs(t[2])
            if k == 'startend' or name in VOID:
                out.append(('e', name, attrs, True, []))
                i += 1
            else:
                kids, j = spec_items(toks, i + 1, [name] + open_names)
                if j < len(toks) and toks[j][0] == 'end' and toks[j][1] == name:
                    j += 1               # its own end tag
                out.append(('e', name, attrs, False, kids))
                i = j
        elif k == 'data':
            if t[1]:
                out.append(('t', t[1]))
            i += 1
        elif k == 'entity':
            out.append(('t', '&%s;' % t[1]))
            i += 1
        elif k == 'charref':
            out.append(('t', '&#%s;' % t[1]))
            i += 1
        elif k == 'comment':
            out.append(('t', '<!--%s-->' % t[1]))
            i += 1
        else:                            # decl / pi: no node
            i += 1
    return out, i


def merge_text(blocks):
    out = []
    for b in blocks:
        if b[0] == 't':
            if out and out[-1][0] == 't':
                out[-1] = ('t', out[-1][1] + b[1])
            else:
                out.append(b)
        else:
            out.append(('e', b[1], b[2], b[3], merge_text(b[4])))
    return out


def spec_doc(toks):
    """(doctype, mode, blocks): mode 'empty' | 'single' | 'multi'."""
    doctype = None
    for t in toks:
        if t[0] == 'decl':
            doctype = t[1]
        elif t[0] == 'udecl' and not doctype:
            doctype = t[1]
    blocks, _ = spec_items(toks, 0, [])
    blocks = merge_text(blocks)
    elems = [b for b in blocks if b[0] == 'e']
    other = [b for b in blocks if b[0] == 't' and b[1].strip()]
    if not elems and not other:
        return doctype, 'empty', []
    if len(elems) == 1 and not other:
        return doctype, 'single', elems
    return doctype, 'multi', blocks


def norm_attr_value(k, v):
    if k == 'class':
        return ('class', tuple((v or '').split()))
    if k == 'style':
        d = {}
        for item in (v or '').split(';'):
            if ':' in item:
                a, b = item.split(':', 1)
                d[a.strip().lower()] = b.strip()
        return ('style', tuple(d.items()))
    if k == 'spellcheck':
        return (k, 'false' if (v is None or v.lower() in ('false', '0')) else 'true')
    return (k, v)


BOOLEAN = {'hidden', 'checked', 'selected', 'autoplay', 'controls', 'loop', 'muted', 'compact', 'novalidate', 'noresize',
           'autofocus', 'disabled', 'formnovalidate', 'multiple', 'required', 'declare', 'reversed', 'async', 'defer',
           'nowrap', 'default', 'readonly'}


def attrs_match(spec_map, lib_pairs, loose_bool=False):
    want = {}
    for k, v in spec_map.items():
        nk, nv = norm_attr_value(k, v)
        if k == 'class' and not nv:
            continue
        if k == 'style' and not nv:
            continue
        want[k] = nv
    got = {}
    for k, v in lib_pairs:
        if k in got:
            return False
        got[k] = norm_attr_value(k, v)[1]
    if loose_bool:
        # a boolean attribute with an empty value is serialised as the bare name: '' and None are one state
        for m in (want, got):
            for k in m:
                if k in BOOLEAN and m[k] == '':
                    m[k] = None
    return want == got


def tree_match(spec_b, lib_b, loose_bool=False):
    if spec_b[0] != lib_b[0]:
        return 'node kind %r vs %r' % (spec_b[:2], lib_b[:2])
    if spec_b[0] == 't':
        return None if spec_b[1] == lib_b[1] else 'text %r vs %r' % (spec_b[1], lib_b[1])
    if spec_b[1] != lib_b[1]:
        return 'name %r vs %r' % (spec_b[1], lib_b[1])
    if not attrs_match(spec_b[2], lib_b[2], loose_bool):
        return 'attributes of <%s>: expected %r, got %r' % (spec_b[1], spec_b[2], lib_b[2])
    if spec_b[3] != lib_b[3]:
        return 'self-closing flag of <%s>: expected %r' % (spec_b[1], spec_b[3])
    if len(spec_b[4]) != len(lib_b[4]):
        return 'children of <%s>: expected %d blocks, got %d' % (spec_b[1], len(spec_b[4]), len(lib_b[4]))
    for a, b in zip(spec_b[4], lib_b[4]):
        d = tree_match(a, b, loose_bool)
        if d:
            return d
    return None


# ---- running the library ---------------------------------------------------------------------------------------------

def make_parser(kind):
    import AdvancedHTMLParser as A
    if kind == 'indexed':
        return A.IndexedAdvancedHTMLParser()
    return A.AdvancedHTMLParser()


def parse_via(parser_kind, parser, text, entry, tmpdir):
    """Parse `text` through the given entry point; returns the parser used (a new one for 'ctor')."""
    import AdvancedHTMLParser as A
    if entry == 'str':
        parser.parseStr(text)
    elif entry == 'bytes':
        parser.parseStr(text.encode('utf-8'))
    elif entry == 'fileobj':
        parser.parseFile(io.TextIOWrapper(io.BytesIO(text.encode('utf-8')), encoding='utf-8', newline=''))
    else:
        p = os.path.join(tmpdir, 'doc.html')
        with open(p, 'wb') as fh:
            fh.write(text.encode('utf-8'))
        if entry == 'path':
            parser.parseFile(p)
        else:
            cls = A.IndexedAdvancedHTMLParser if parser_kind == 'indexed' else A.AdvancedHTMLParser
            parser = cls(p)
    return parser


class Check(PropCheck):
    id = 'C02'
    stream = 'C02'
    extra_modules = ('AHP.Props.C02Code',)       # AdvancedHTMLParser.handle_endtag itself, interpreted in Lean, = the hand model's handleEnd
    exhaustive_in = ('quick', 'thorough')
    rule = ('token sequences over the 10-token alphabet of the property (two ordinary names, a void name, their end tags, '
            'text, a reference, a comment, a stray end tag): ALL sequences of length <= 4 (quick) / <= 6 (thorough), plus seeded '
            'random sequences of length <= 40 over a rich alphabet rendered with mixed-case names, double/single/unquoted/'
            'value-less/duplicate/invalid attributes, whitespace variants and an optional leading doctype (same line or own '
            'line); histories of 1-3 parses on one plain or indexed parser through str / bytes / file object / path / '
            'constructor entry points. Non-trivial: at least 2 tokens and at least one element; distinct by canonical JSON. '
            'Kind strip (stripIEConditionals, character level): hand-written texts, ALL concatenations of <= 3 (quick) / <= 4 '
            '(thorough) of 11 fragments (comment open, [if, blank, newline, -->, x, </html>, <html>, a doctype, a dash, a whole '
            'conditional), seeded documents with 0-3 conditional comments (usual, downlevel-revealed, white space in the opener, '
            'several per line, repeated, --> later on the line, html end tag with/without start tag, doctype in front) and near '
            'misses, and fragment soup. Kind stripparse: parseStr of such documents on a plain or indexed parser, the model doing the '
            'stripping, the real tokenizer supplying the tokens of the stripped text and of its wrapped form. Non-trivial (both '
            'kinds): contains <!-- and if.')
    assumptions = ['the stdlib tokenizer is a parameter: the model is fed the token sequence the real html.parser reports for the '
                   'rendered markup (convert_charrefs=False, never close()d)',
                   'the regular-expression engine (re) is trusted to implement the three patterns of utils.py; the model of '
                   'stripIEConditionals is compared with the real function character by character (kinds strip, stripparse)',
                   'reserved wrapper tag name and children of script/style are outside the domain (property text)']

    def cases(self, tier, rng):
        maxlen = 6 if tier == 'thorough' else 4
        for n in range(0, maxlen + 1):
            for seq in itertools.product(range(len(ALPHA10)), repeat=n):
                yield Case({'parser': 'plain', 'hist': [{'toks': [ALPHA10[i] for i in seq], 'entry': 'str', 'rich': 0}]},
                           'exhaustive')
        n = 6000 if tier == 'thorough' else 700
        for _ in range(n):
            yield Case(self.random_case(rng), 'random')
        # `addStartTag` (where the invisible wrapper goes) at character level: model vs the real function
        heads = ['', '\n', '\n\n  ', ' \t', ' \n', '\t\n', 'x', '<!--c-->', '<a>', '\r\n', '\n \n']
        doctypes = ['<!DOCTYPE html>', '<!doctype html>', '<!DocType HTML PUBLIC "-//W3C//DTD XHTML 1.0//EN">', '<! doctype html>',
                    '<!DOCTYPE', '<!DOCTYPEhtml>', '<!DOCTYP html>', '<!-- doctype -->', '<!DOCTYPE html\n>', '']
        tails = ['', '<a></a><b></b>', 'x', '\n<p>t</p>', '<!DOCTYPE html>', '>', '<br/>>']
        for h in heads:
            for dt in doctypes:
                for tl in tails:
                    yield Case({'kind': 'wrap', 'text': h + dt + tl}, 'exhaustive-wrap')
        for _ in range(n // 2):
            text = render(self.random_tokens(rng), rng.randrange(1, 1 << 30))
            if rng.random() < 0.5:
                text = rng.choice(heads) + rng.choice(doctypes) + text
            yield Case({'kind': 'wrap', 'text': text[:300]}, 'random-wrap')
        # `stripIEConditionals` (what `feed` does to the text first): model vs the real function, and the oracle
        # parseStr(text) == the rest of `feed` applied to stripIEConditionals(text)
        for t in IE_FIXED + IE_NEAR + [o + b + c for o in IE_OPENERS[:6] for b in IE_BODIES[:3] for c in IE_CLOSERS[:2]]:
            yield Case({'kind': 'strip', 'text': t}, 'exhaustive-strip')
        for k in range(0, (4 if tier == 'thorough' else 3) + 1):
            for seq in itertools.product(IE_FRAGS, repeat=k):
                yield Case({'kind': 'strip', 'text': ''.join(seq)}, 'exhaustive-strip')
        for _ in range(n):
            yield Case({'kind': 'strip', 'text': ie_text(rng)}, 'random-strip')
        # `parseStr(text)` end to end with the stripping step done by the model (tokenizer = the real one)
        for t in IE_FIXED:
            yield Case({'kind': 'stripparse', 'parser': 'plain', 'text': t}, 'exhaustive-strip')
        for _ in range(n):
            yield Case({'kind': 'stripparse', 'parser': rng.choice(('plain', 'indexed')), 'text': ie_text(rng)}, 'random-strip')
        for _ in range(n // 2):
            # fragment soup: overlapping dashes, openers without an end, ends without an opener, html tags anywhere
            soup = ''.join(rng.choice(IE_FRAGS + IE_FRAGS[:5] + ['>', '<', '!', '[', 'if', '\t', '\r', '</HTML >', '< html >'])
                           for _ in range(rng.randint(3, 14)))
            yield Case({'kind': 'strip', 'text': soup}, 'random-strip')

    def random_tokens(self, rng):
        toks = []
        if rng.random() < 0.3:
            toks.append(['decl', rng.choice(['DOCTYPE html', 'doctype html', 'DOCTYPE html PUBLIC "-//W3C//DTD XHTML 1.0//EN"'])])
            if rng.random() < 0.5:
                toks.append(['data', '\n'])
        open_names = []
        for _ in range(rng.randint(0, 40)):
            r = rng.random()
            if r < 0.30:
                name = rng.choice(NAMES)
                attrs = []
                for _ in range(rng.choice((0, 0, 1, 1, 2, 3, 4))):
                    q = rng.random()
                    if q < 0.12:
                        attrs.append([rng.choice(BAD_ATTR_NAMES), rng.choice(VALUES + [None])])
                    elif q < 0.24:
                        attrs.append(['class', rng.choice(CLASS_VALUES)])
                    elif q < 0.34:
                        attrs.append(['style', rng.choice(STYLE_VALUES)])
                    else:
                        an = rng.choice(ATTR_NAMES[:-4] + ['x_y', 'onclick'])
                        attrs.append([an, rng.choice(VALUES + [None, None])])
                    if attrs and rng.random() < 0.15:
                        attrs.append([attrs[0][0], rng.choice(VALUES)])        # duplicate name
                kind = 'startend' if rng.random() < 0.15 else 'start'
                toks.append([kind, name, attrs])
                if kind == 'start' and name not in VOID:
                    open_names.append(name)
            elif r < 0.55:
                if open_names and rng.random() < 0.7:
                    # mostly close something that is open: the innermost (well nested) or an outer one (implicit closes)
                    idx = len(open_names) - 1 if rng.random() < 0.7 else rng.randrange(len(open_names))
                    name = open_names[idx]
                    del open_names[idx:]
                    toks.append(['end', name])
                else:
                    toks.append(['end', rng.choice(NAMES + ['zz'])])            # likely stray
            elif r < 0.80:
                toks.append(['data', rng.choice(TEXTS)])
            elif r < 0.87:
                toks.append(['entity', rng.choice(ENTITIES)])
            elif r < 0.92:
                toks.append(['charref', rng.choice(CHARREFS)])
            else:
                toks.append(['comment', rng.choice(COMMENTS)])
        return toks

    def random_case(self, rng):
        hist = []
        for i in range(rng.choice((1, 1, 2, 3))):
            entry = rng.choice(ENTRIES if i == 0 else ENTRIES[:-1])
            hist.append({'toks': self.random_tokens(rng), 'entry': entry, 'rich': rng.randrange(1, 1 << 30)})
        return {'parser': rng.choice(('plain', 'indexed')), 'hist': hist}

    def nontrivial(self, d):
        if d.get('kind') == 'wrap':
            return '<!' in d['text']
        if d.get('kind') in ('strip', 'stripparse'):
            return '<!--' in d['text'] and 'if' in d['text']
        return any(len(h['toks']) >= 2 and any(t[0] in ('start', 'startend') for t in h['toks']) for h in d['hist'])

    def features(self, d):
        if d.get('kind') == 'wrap':
            return ['kind:wrap']
        if d.get('kind') == 'strip':
            return self.strip_features(d['text'])
        if d.get('kind') == 'stripparse':
            return ['kind:stripparse', 'parser:' + d['parser']] + \
                [f.replace('strip:', 'stripparse:') for f in self.strip_features(d['text'])[1:]]
        fs = {'parser:' + d['parser'], 'parses=%d' % len(d['hist'])}
        for h in d['hist']:
            fs.add('entry:' + h['entry'])
            text = render(h['toks'], h['rich'])
            toks = parsing.tokenize(text)
            doctype, mode, _ = spec_doc(toks)
            fs.add('mode:' + mode)
            if doctype:
                fs.add('doctype')
            names = []
            for t in toks:
                if t[0] == 'start' and t[1] not in VOID:
                    names.append(t[1])
                elif t[0] == 'end':
                    if t[1] not in names:
                        fs.add('stray-close')
                    elif names[-1] != t[1]:
                        fs.add('implicit-close')
                        del names[len(names) - 1 - names[::-1].index(t[1]):]
                    else:
                        names.pop()
            if names:
                fs.add('open-at-eof')
            for t in toks:
                if t[0] in ('start', 'startend'):
                    ks = [a[0] for a in t[2]]
                    if len(set(ks)) < len(ks):
                        fs.add('duplicate-attr')
                    if any(not spec_attrs([a]) for a in t[2]):
                        fs.add('invalid-attr-name')
                    if any(a[1] is None for a in t[2]):
                        fs.add('valueless-attr')
        return sorted(fs)

    def shrink(self, d):
        if d.get('kind') in ('wrap', 'strip', 'stripparse'):
            t = d['text']
            for i in range(len(t)):
                yield dict(d, text=t[:i] + t[i + 1:])
            return
        hist = d['hist']
        if len(hist) > 1:
            for i in range(len(hist)):
                yield {'parser': d['parser'], 'hist': hist[:i] + hist[i + 1:]}
        for i, h in enumerate(hist):
            toks = h['toks']
            for j in range(len(toks)):
                h2 = dict(h, toks=toks[:j] + toks[j + 1:])
                yield {'parser': d['parser'], 'hist': hist[:i] + [h2] + hist[i + 1:]}
            if h['rich']:
                yield {'parser': d['parser'], 'hist': hist[:i] + [dict(h, rich=0)] + hist[i + 1:]}
            if h['entry'] != 'str':
                yield {'parser': d['parser'], 'hist': hist[:i] + [dict(h, entry='str')] + hist[i + 1:]}
            for j, t in enumerate(toks):
                if t[0] in ('start', 'startend') and t[2]:
                    for k in range(len(t[2])):
                        t2 = [t[0], t[1], t[2][:k] + t[2][k + 1:]]
                        h2 = dict(h, toks=toks[:j] + [t2] + toks[j + 1:])
                        yield {'parser': d['parser'], 'hist': hist[:i] + [h2] + hist[i + 1:]}
        if d['parser'] != 'plain':
            yield {'parser': 'plain', 'hist': hist}

    # ---- both sides ------------------------------------------------------------------------------------------------
    def encode(self, d):
        if d.get('kind') == 'wrap':
            from ..core import enc
            return sx('wrap', enc(d['text']))
        if d.get('kind') == 'strip':
            from ..core import enc
            return sx('strip', enc(d['text']))
        if d.get('kind') == 'stripparse':
            from ..core import enc
            from AdvancedHTMLParser.utils import stripIEConditionals, addStartTag
            from AdvancedHTMLParser.constants import INVISIBLE_ROOT_TAG_START, INVISIBLE_ROOT_TAG_END
            st = stripIEConditionals(d['text'])
            w = '%s%s' % (addStartTag(st, INVISIBLE_ROOT_TAG_START), INVISIBLE_ROOT_TAG_END)
            return '(stripparse %s %s %s %s)' % (enc(d['text']), enc(st), parsing.toks_sx(parsing.tokenize(st)),
                                                 parsing.toks_sx(parsing.tokenize(w)))
        return '(' + ' '.join(parsing.toks_sx(parsing.tokenize(render(h['toks'], h['rich']))) for h in d['hist']) + ')'

    def run_history(self, d):
        """yields (text, parser or exception) after each parse."""
        tmpdir = tempfile.mkdtemp(prefix='ahp-c02-')
        try:
            parser = make_parser(d['parser'])
            for h in d['hist']:
                text = render(h['toks'], h['rich'])
                try:
                    parser = parse_via(d['parser'], parser, text, h['entry'], tmpdir)
                    yield text, parser, None
                except Exception as e:           # noqa
                    yield text, parser, e
                    return
        finally:
            import shutil
            shutil.rmtree(tmpdir, ignore_errors=True)

    def impl(self, d):
        if d.get('kind') == 'wrap':
            from ..core import enc
            from AdvancedHTMLParser.utils import addStartTag
            from AdvancedHTMLParser.constants import INVISIBLE_ROOT_TAG_START, INVISIBLE_ROOT_TAG_END
            return enc('%s%s' % (addStartTag(d['text'], INVISIBLE_ROOT_TAG_START), INVISIBLE_ROOT_TAG_END))
        if d.get('kind') == 'strip':
            from ..core import enc
            from AdvancedHTMLParser.utils import stripIEConditionals
            return enc(stripIEConditionals(d['text']))
        if d.get('kind') == 'stripparse':
            p = make_parser(d['parser'])
            try:
                p.parseStr(d['text'])
            except Exception as e:      # noqa
                return sx('raise', type(e).__name__)
            root = p.getRoot()
            second = root is not None and root.tagName == WRAPPER
            return sx('second' if second else 'first', parsing.doc_sx(p))
        out = []
        for text, parser, exc in self.run_history(d):
            if exc is not None:
                out.append(sx('raise', type(exc).__name__))
                break
            root = parser.getRoot()
            second = root is not None and root.tagName == WRAPPER
            out.append(sx('second' if second else 'first', parsing.doc_sx(parser)))
        return '(' + ' '.join(out) + ')'

    def compare(self, model_out, impl_out, d):
        # a history that raised stops on the implementation side; the model reports every parse
        if impl_out.endswith('Exception))') or '(raise ' in impl_out:
            n = impl_out.count('(first ') + impl_out.count('(second ') + 1
            m = model_out
            # compare only the prefix
            from ..core import parse_sx
            try:
                mo, io_ = parse_sx(model_out), parse_sx(impl_out)
                if mo[:len(io_)] == io_:
                    return None
            except Exception:
                pass
        return PropCheck.compare(self, model_out, impl_out, d)

    # ---- the property itself on the library --------------------------------------------------------------------------
    def oracle(self, d):
        if d.get('kind') == 'wrap':
            return self.wrap_oracle(d['text'])
        if d.get('kind') in ('strip', 'stripparse'):
            return self.strip_oracle(d['text'])
        for n, (text, parser, exc) in enumerate(self.run_history(d)):
            if exc is not None:
                return ('raises', 'parse %d of %r raised %s: %s' % (n, text, type(exc).__name__, exc))
            toks = parsing.tokenize(text)
            doctype, mode, blocks = spec_doc(toks)
            if (parser.doctype or None) != (doctype or None):
                return ('doctype', 'parse %d of %r: doctype %r, expected %r' % (n, text, parser.doctype, doctype))
            root = parser.getRoot()
            if mode == 'empty':
                if root is not None:
                    return ('tree', 'parse %d of %r: expected nothing parsed, got <%s>' % (n, text, root.tagName))
                continue
            if root is None:
                return ('tree', 'parse %d of %r: nothing parsed, expected %r' % (n, text, blocks))
            lib = parsing.py_tree(root)
            if mode == 'single':
                if root.tagName == WRAPPER:
                    lib_blocks = lib[4]
                    # a single element that came through the wrapper is still the same top-level list
                    diff = None if len(lib_blocks) == 1 else 'expected one top-level element'
                    diff = diff or tree_match(blocks[0], lib_blocks[0])
                else:
                    diff = tree_match(blocks[0], lib)
                exp_roots = [blocks[0][1]]
            else:
                if root.tagName != WRAPPER:
                    return ('tree', 'parse %d of %r: several top-level nodes expected, got single root <%s>' % (n, text, root.tagName))
                diff = tree_match(('e', WRAPPER, {}, False, blocks), lib)
                exp_roots = [b[1] for b in blocks if b[0] == 'e']
            if diff:
                return ('tree', 'parse %d of %r: %s' % (n, text, diff))
            got_roots = [e.tagName for e in parser.getRootNodes()]
            if got_roots != exp_roots:
                return ('rootNodes', 'parse %d of %r: getRootNodes %r, expected %r' % (n, text, got_roots, exp_roots))
            # getHTML keeps the top-level nodes and text: re-tokenise it and compare against the specification again
            html = parser.getHTML()
            if not isinstance(html, str):
                return ('getHTML', 'parse %d: getHTML returned %s' % (n, type(html).__name__))
            d2, m2, b2 = spec_doc(parsing.tokenize(html))
            if mode == 'multi' and doctype and b2 and b2[0][0] == 't' and b2[0][1].startswith('\n'):
                # the doctype line's own line break
                b2 = ([('t', b2[0][1][1:])] if b2[0][1][1:] else []) + b2[1:]
            if mode == 'single':
                b2 = [b for b in b2 if b[0] == 'e']
            want = blocks
            d_ = None
            if len(b2) != len(want):
                d_ = 'getHTML() shows %d top-level nodes, expected %d' % (len(b2), len(want))
            else:
                for a, b in zip(want, b2):
                    bb = b if b[0] == 't' else ('e', b[1], list(b[2].items()), b[3], self._as_lib(b[4]))
                    d_ = d_ or tree_match(a, bb, True)
            if d_:
                return ('getHTML', 'parse %d of %r: %s (getHTML=%r)' % (n, text, d_, html))
        return None

    def wrap_oracle(self, text):
        """the wrapper start goes directly after a leading doctype declaration as the tokenizer delimits it (optionally
        preceded by newlines then blanks), else in front of everything: nothing of the document may stay outside"""
        from AdvancedHTMLParser.utils import addStartTag
        w = addStartTag(text, '<xxxblank>') + '</xxxblank>'
        toks = parsing.tokenize(text)
        lead = 0
        if toks and toks[0][0] == 'decl':
            lead = 1
        elif len(toks) > 1 and toks[0][0] == 'data' and toks[1][0] == 'decl' and \
                toks[0][1].lstrip('\n').lstrip(' \t') == '':
            lead = 2
        wt = parsing.tokenize(w)
        if 'xxxblank' in text.lower():
            return None
        want = toks[:lead] + [['start', 'xxxblank', []]]
        if wt[:lead + 1] != want:
            # only when the text lexes the same inside the wrapper (no unterminated construct swallowing the end tag)
            if parsing.tokenize(text + '<i>')[:len(toks)] == toks:
                return ('wrap', 'addStartTag(%r) = %r: its tokens start with %r, expected %r' % (text, w, wt[:lead + 1], want))
        return None

    def strip_features(self, text):
        from AdvancedHTMLParser.utils import stripIEConditionals, IE_CONDITIONAL_PATTERN, DOCTYPE_MATCH
        ms = IE_CONDITIONAL_PATTERN.findall(text)
        out = stripIEConditionals(text)
        fs = ['kind:strip', 'strip:matches=%s' % (len(ms) if len(ms) < 4 else '4+')]
        if ms:
            fs.append('strip:changed' if out != text else 'strip:unchanged')
            if len(set(ms)) < len(ms):
                fs.append('strip:repeated-match')
            removed = text
            for m in ms:
                removed = removed.replace(m, '')
            if out != removed:
                fs.append('strip:html-added' + ('-after-doctype' if DOCTYPE_MATCH.match(removed) else ''))
            if text.count(ms[0]) > 1:
                fs.append('strip:match-occurs-twice')
            if any('-->' in m[:-3] for m in ms):
                fs.append('strip:greedy-over-arrow')
            if stripIEConditionals(out) != out:
                fs.append('strip:not-idempotent')
        elif '<!--' in text and 'if' in text:
            fs.append('strip:near-miss')
        if '\n' in text:
            fs.append('strip:multi-line')
        exp = ie_expected(text)
        fs.append('strip:theorem-' + (exp[0] if exp else 'none') + ('' if ms or not exp else '-no-marker'))
        return fs

    def strip_oracle(self, text):
        """`parseStr(text)` is the rest of `feed` (tokenize; on MultipleRootNodeException wrap and tokenize again) applied to
        `stripIEConditionals(text)` — stripped exactly once, whatever the stripping leaves behind"""
        from AdvancedHTMLParser.utils import stripIEConditionals
        stripped = stripIEConditionals(text)
        if not isinstance(stripped, str):
            return ('strip', 'stripIEConditionals(%r) returned %s' % (text, type(stripped).__name__))
        exp = ie_expected(text)
        if exp is not None and exp[1] != stripped:
            return ('strip-theorem', 'stripIEConditionals(%r) = %r, but the side conditions of stripIE_%s hold and give %r'
                    % (text, stripped, exp[0], exp[1]))
        for kind in ('plain', 'indexed'):
            outs = []
            for how in ('parseStr', 'bytes', 'raw'):
                p = make_parser(kind)
                try:
                    if how == 'parseStr':
                        p.parseStr(text)
                    elif how == 'bytes':
                        p.parseStr(text.encode('utf-8'))
                    else:
                        p.reset()
                        ie_raw_feed(p, stripped)
                    outs.append(parsing.doc_sx(p))
                except Exception as e:      # noqa
                    outs.append('raise ' + type(e).__name__)
            if outs[0] != outs[2] or outs[1] != outs[2]:
                return ('strip-parse', '%s parser: parseStr(%r) = %s / bytes %s, but feeding stripIEConditionals(text) = %r gives %s'
                        % (kind, text, outs[0][:300], outs[1][:300], stripped, outs[2][:300]))
        return None

    def _as_lib(self, blocks):
        return [b if b[0] == 't' else ('e', b[1], list(b[2].items()), b[3], self._as_lib(b[4])) for b in blocks]
