"""
C09 — the class attribute, className, classList and the rendered HTML never diverge.

Stream `C09` (wire: Driver/AttrsWire.lean): histories of addClass / removeClass / className= /
setAttribute('class') / removeAttribute('class') / attributes['class']= / del attributes['class'] (plus a little
noise on other attributes and mid-history reads), on elements created directly, parsed, cloned, copied, unpickled.
Every view is read on a fresh element per history prefix.
"""
import itertools

from ..core import PropCheck, Case
from .. import attrs_common as AC

OPERANDS = ['a', 'b', 'c', 'a b', ' a ', 'b  c', '', 'A', 'a-b']
NAMES = ['a', 'b', 'c', 'A', 'a-b', '', 'a b', 'None', ' a ']

# groups: the views of one group are read on one fresh element, every group on its own fresh element
VIEWS = ([[v] for v in (['classList'], ['classNames'], ['className'], ['attr', 'class'], ['item', 'class'], ['get', 'class'], ['attr', 'CLASS'])]
         + [[['hasClass', n] for n in NAMES]]
         + [[v] for v in (['has', 'class'], ['has', 'Class'], ['in', 'class'], ['keys'], ['iter'], ['items'], ['list'], ['dict'], ['domkeys'],
                          ['domitem', 'class'], ['startTag'], ['reparse'], ['clone'])])

COPY_VIEWS = ['clone', 'copy', 'deepcopy', 'pickle', 'repr']


def class_ops(operands, none_too=False):
    ops = []
    vals = list(operands) + ([None] if none_too else [])
    for s in operands:
        ops.append(['ac', s])
        ops.append(['rc', s])
    for s in vals:
        ops.append(['cn', s])
        ops.append(['sa', 'class', s])
        ops.append(['ms', 'class', s])
    ops.append(['ra', 'class'])
    ops.append(['md', 'class'])
    return ops


def words(s):
    """The space separated names of an operand (the specification's reading, ASCII space only)."""
    return [w for w in (s or '').split(' ') if w]


def is_class_key(n):
    return n.lower() == 'class'


def expected(prev, it):
    """Reference semantics of one history item on the class list (None = no expectation)."""
    k = it[0]
    if k == 'ac':
        out = list(prev)
        for w in words(it[1]):
            if w not in out:
                out.append(w)
        return out
    if k == 'rc':
        ws = words(it[1])
        if len(set(prev)) != len(prev):
            return None            # duplicates came in through className: which occurrence goes is not specified
        return [x for x in prev if x not in ws]
    if k == 'cn':
        return words(it[1])
    if k in ('sa', 'ms') and is_class_key(it[1]):
        return words(it[2])
    if k in ('ra', 'md') and is_class_key(it[1]):
        return []
    if k == 'sas':
        out = prev
        for n, v in it[1]:
            if is_class_key(n):
                out = words(v)
        return out
    if k == 'dot' and it[1] == 'className':
        return words(it[2] if isinstance(it[2], str) else '')
    return list(prev)


def odd_ws(s):
    """white space (`str.isspace()`: tab, newline, \\x1c-\\x1f, U+0085, U+00A0, U+2003, U+3000 ...) other than the ASCII space:
    outside the operand set of the property; `str.strip()` removes it at the ends of a value, `split(' ')` keeps it inside a name"""
    return any(c != ' ' and c.isspace() for c in s)


def has_odd_ws(it):
    return any(isinstance(x, str) and odd_ws(x) for x in it[1:])


# correspondence only (outside the operand set of the reference semantics): the same beyond ASCII / C's isspace
UNI_OPS = [['ac', '\xa0a'], ['cn', 'x\u3000y z'], ['cn', '\u2003a b\x85'], ['rc', 'a\xa0b'], ['ac', 'a \x1cb'], ['cn', '\xa0'],
           ['sa', 'class', 'b\xa0 a\u3000'], ['ac', 'a\xa0b']]


class Check(PropCheck):
    id = 'C09'
    stream = 'C09'
    exhaustive_in = ('quick', 'thorough')
    rule = ('histories over the operand set {a, b, c, "a b", " a ", "b  c", "", A, a-b} and the seven ways of writing the class '
            'attribute (47 operations): exhaustive to length 2 and, over a reduced operand set, length 3 (quick) / exhaustive '
            'to length 3 and reduced length 4 (thorough); seeded random histories of up to 30 items with noise on other '
            'attributes, style writes and mid-history reads, on elements created directly, parsed (irregular whitespace, '
            'value-less class, upper-case spelling), cloned, copied, unpickled; every view read on a fresh element per prefix. '
            'A case is non-trivial when its history writes the class attribute at least twice through two different paths '
            'or starts from a non-empty class.')
    assumptions = ['ASCII space is the only separator inside the operands of the reference semantics; the other white space of '
                   'str.isspace() (tabs, newlines, \\x1c, U+0085, U+00A0, U+2003, U+3000) is exercised in the correspondence stream '
                   'only (the model follows the code: str.strip() removes it at the ends of a value, inside it stays in one name)',
                   'the character-level re-parse of the start tag is done by the real parser on the library side and by '
                   'readBack (unescape of &quot;, bare name = no value) on the model side']

    # ---- generation -------------------------------------------------------------------------
    def cases(self, tier, rng):
        full = class_ops(OPERANDS)
        reduced = class_ops(['a', 'a b', ''])
        tiny = class_ops(['a', 'b  c'])

        def mk(hist, attrs=(), how='direct', views=VIEWS):
            hist = [list(h) for h in hist]
            # every prefix of an enumerated history is itself a case: observe the final state only
            return Case({'tag': 'div', 'how': how, 'attrs': [list(a) for a in attrs], 'hist': hist, 'views': views,
                         'chk': [len(hist)]}, 'exhaustive')
        yield mk([])
        for a in full:
            yield mk([a])
            yield mk([a], attrs=[['class', 'b a']])
        for a in full:
            for b in full:
                yield mk([a, b])
        if tier == 'thorough':
            for h in itertools.product(full, repeat=3):
                yield mk(h)
            for h in itertools.product(tiny, repeat=4):
                yield mk(h)
        else:
            for h in itertools.product(reduced, repeat=3):
                yield mk(h)
        # creation variants
        inits = [[['class', 'a']], [['class', '  a   b  ']], [['class', None]], [['CLASS', 'x y']], [['class', 'a a']],
                 [['id', 'i'], ['class', 'k'], ['title', 't']], [['class', '']], [['class', 'a'], ['class', 'b']],
                 [['class', 'None']], [['class', 'a\tb c']], [['class', '\xa0a b\u3000']], [['class', 'a\xa0b \x1cc']]]
        for attrs in inits:
            for how in ('direct', 'parsed', 'clone', 'copy', 'deepcopy', 'pickle'):
                c = mk([], attrs=attrs, how=how)
                c.origin = 'creation'
                yield c
                for a in reduced[:8]:
                    c = mk([a], attrs=attrs, how=how)
                    c.origin = 'creation'
                    yield c
        n = 6000 if tier == 'thorough' else 500
        for _ in range(n):
            yield Case(self.random_case(rng), 'random')

    def random_case(self, rng):
        full = class_ops(OPERANDS, none_too=True)
        n = rng.choice((1, 2, 3, 5, 8, 12, 20, 30))
        hist = []
        for _ in range(n):
            r = rng.random()
            if r < 0.68:
                it = list(rng.choice(full))
                if it[0] in ('sa', 'ms', 'ra', 'md') and rng.random() < 0.15:
                    it[1] = rng.choice(('CLASS', 'Class'))
            elif r < 0.74:
                it = rng.choice((['ac', 'a\tb'], ['cn', 'x\ty z'], ['cn', ' \ta b\n'], ['rc', 'a\tb'], ['ac', '\ta'], ['cn', 'a\t b'],
                                 ['rc', 'b'], ['ac', 'a \tb']) + tuple(UNI_OPS))
            elif r < 0.84:
                it = rng.choice((['sa', 'id', 'x'], ['ra', 'id'], ['ms', 'title', 't'], ['md', 'title'], ['st', 'color: red'],
                                 ['st', ''], ['ss', 'display', 'block'], ['ss', 'display', ''], ['sa', 'a b', 'x'],
                                 ['sas', [['id', 'y'], ['class', 'p q']]], ['dot', 'className', 'm n'], ['dot', 'id', 'z']))
            else:
                it = ['read', rng.choice(([['keys']], [['items']], [['startTag']], [['list']], [['get', 'id']], [['attr', 'class']],
                                           [['clone']], [['domkeys']], [['get', 'class']], [['attr', 'nokey']]))[0]]
            hist.append(it)
        attrs = rng.choice(([], [], [['class', 'a']], [['class', ' b  a ']], [['id', 'i'], ['class', 'c a'], ['title', 't']],
                            [['class', None]], [['CLASS', 'A a']], [['style', 'color: red'], ['class', 'z']],
                            [['class', '\u2003k\xa0l \x85']]))
        how = rng.choice(('direct', 'direct', 'parsed', 'parsed', 'clone', 'copy', 'deepcopy', 'pickle'))
        tag = rng.choice(('div', 'div', 'span', 'input', 'a'))
        cv = rng.choice(COPY_VIEWS)
        if AC.is_void(tag) and (how == 'pickle' or cv == 'pickle'):
            tag = 'div'            # unpickling a void element loses isSelfClosing (C17's subject, not an attribute matter)
        views = [g for g in VIEWS if g[0][0] != 'clone'] + [[[cv]]]
        if n <= 6:
            chk = list(range(n + 1))
        else:
            chk = sorted(set([n] + [rng.randint(0, n) for _ in range(3)]))
        return {'tag': tag, 'how': how, 'attrs': attrs, 'hist': hist, 'views': views, 'chk': chk}

    def nontrivial(self, d):
        kinds = set()
        writes = 0
        for it in d['hist']:
            if it[0] in ('ac', 'rc', 'cn') or (it[0] in ('sa', 'ms', 'ra', 'md') and is_class_key(it[1])):
                writes += 1
                kinds.add(it[0])
        return (writes >= 2 and len(kinds) >= 2) or any(is_class_key(n) and v for n, v in d['attrs'])

    def features(self, d):
        fs = ['len=%s' % (len(d['hist']) if len(d['hist']) < 6 else '6+'), 'how:' + d['how']]
        for it in d['hist']:
            fs.append('op:' + it[0] + (':class' if it[0] in ('sa', 'ms', 'ra', 'md') and is_class_key(it[1]) else ''))
            if has_odd_ws(it):
                fs.append('tab-or-newline-operand')
                if any(isinstance(x, str) and any(c.isspace() and c not in ' \t\n\r\x0b\x0c' for c in x) for x in it[1:]):
                    fs.append('non-ascii-or-separator-ws-operand')
            if it[0] in ('cn', 'sa', 'ms') and it[-1] is None:
                fs.append('none-value')
            if it[0] in ('ac', 'rc', 'cn') and isinstance(it[1], str) and len(words(it[1])) > 1:
                fs.append('multi-name-operand')
        for n, v in d['attrs']:
            if is_class_key(n):
                fs.append('init-class:' + ('valueless' if v is None else 'irregular' if v != ' '.join(words(v)) else 'plain'))
        return sorted(set(fs))

    def shrink(self, d):
        return AC.shrink_case(d)

    def extra_obligations(self):
        C = AC.consts()
        ok = 'class' not in C.TAG_ITEM_BINARY_ATTRIBUTES and 'class' not in C.TAG_ITEM_BINARY_ATTRIBUTES_STRING_ATTR
        return [("ClassPlain (hypothesis of the C09 view theorems): 'class' is not listed as a boolean attribute in constants.py", ok)]

    # ---- both sides --------------------------------------------------------------------------
    def encode(self, d):
        return AC.encode(d)

    def impl(self, d):
        return AC.impl(d)

    # ---- the property itself on the library ---------------------------------------------------
    def oracle(self, d):
        hist = d['hist']
        n = len(hist)
        steps = sorted(set(d['chk']) | {n})
        # expected list by the reference semantics, for every prefix
        exps = []
        cur = []
        for nm, v in d['attrs']:
            if is_class_key(nm):
                cur = words(v)
        odd0 = any(is_class_key(nm) and isinstance(v, str) and odd_ws(v) for nm, v in d['attrs'])
        exps.append(None if odd0 else cur)
        for it in hist:
            if exps[-1] is None or has_odd_ws(it):
                if it[0] in ('cn',) and not has_odd_ws(it):
                    exps.append(expected([], it))
                elif (it[0] in ('sa', 'ms') and is_class_key(it[1]) and not has_odd_ws(it)) or (it[0] in ('ra', 'md') and is_class_key(it[1])):
                    exps.append(expected([], it))
                else:
                    exps.append(None)
            else:
                exps.append(expected(exps[-1], it))
        for k in steps:
            r = self.check_state(d, k, exps[k])
            if r is not None:
                return r
        return None

    def check_state(self, d, k, exp):
        fresh = lambda: AC.replay(d, k)
        where = 'after %d of %d history items' % (k, len(d['hist']))
        L = list(fresh().classList)
        if exp is not None and L != exp:
            return ('transition', '%s: classList is %r, the operations give %r' % (where, L, exp))
        if any((not w) or (' ' in w) for w in L):
            return ('empty-name', '%s: classList %r has an empty name or a name with a space' % (where, L))
        joined = ' '.join(L)
        present = bool(L)

        def bad(view, got, want):
            return ('views-disagree', '%s: classList %r but %s gives %r (expected %r)' % (where, L, view, got, want))
        e = fresh()
        if list(e.classNames) != L:
            return bad('classNames', list(e.classNames), L)
        for view, get in (('className', lambda e: e.className), ("attributes['class']", lambda e: e.attributes['class']),
                          ("attributes.get('class')", lambda e: e.attributes.get('class')),
                          ("getAttribute('class')", lambda e: e.getAttribute('class')),
                          ("getAttribute('CLASS')", lambda e: e.getAttribute('CLASS'))):
            got = get(fresh())
            if not (got == joined or (got is None and not present)):
                return bad(view, got, joined)
        e = fresh()
        for nm in sorted(set(NAMES) | set(L)):
            got = e.hasClass(nm)
            if got != (nm in L):
                return bad('hasClass(%r)' % nm, got, nm in L)
        # presence: hasAttribute, in, keys, items, list, dict, node map, HTML
        for view, get in (("hasAttribute('class')", lambda e: e.hasAttribute('class')),
                          ("hasAttribute('CLASS')", lambda e: e.hasAttribute('CLASS')),
                          ("'class' in attributes", lambda e: 'class' in e.attributes),
                          ("'class' in attributes.keys()", lambda e: 'class' in list(e.attributes.keys())),
                          ("'class' in iter(attributes)", lambda e: 'class' in list(iter(e.attributes))),
                          ("'class' in attributesDOM", lambda e: 'class' in list(e.attributesDOM)),
                          ("attributesDOM.getNamedItem('class') is not None", lambda e: e.attributesDOM.getNamedItem('class') is not None)):
            got = get(fresh())
            if got != present:
                return ('presence', '%s: classList %r but %s is %r' % (where, L, view, got))
        for view, get in (('attributes.items()', lambda e: dict(e.attributes.items()).get('class')),
                          ('getAttributesList()', lambda e: dict(e.getAttributesList()).get('class')),
                          ('getAttributesDict()', lambda e: e.getAttributesDict().get('class')),
                          ("attributesDOM.getNamedItem('class').value", lambda e: (lambda nd: None if nd is None else nd.value)(e.attributesDOM.getNamedItem('class')))):
            got = get(fresh())
            want = joined if present else None
            if got != want:
                return ('presence' if (got is None) != (want is None) else 'views-disagree',
                        '%s: classList %r but the class entry of %s is %r' % (where, L, view, got))
        html = fresh().getStartTag()
        attrs = AC.start_tag_attrs(html)
        if attrs is None:
            return ('html', '%s: start tag %r does not tokenize as one start tag' % (where, html))
        cl = [v for nm, v in attrs if nm == 'class']
        if present:
            if cl != [joined]:
                return ('views-disagree' if cl else 'presence', '%s: classList %r but the start tag is %r' % (where, L, html))
        elif cl:
            return ('presence', '%s: no class names but the start tag is %r' % (where, html))
        odd = any(odd_ws(w) for w in L)     # outside the property's operand set (ASCII space only)
        rp = AC.reparse(fresh())
        if not odd and list(rp.classList) != L:
            return bad('re-parse of the start tag', list(rp.classList), L)
        for how in (() if odd else AC_COPIES):
            c = AC.make_copy(fresh(), how)
            if list(c.classList) != L or c.className != joined or c.hasAttribute('class') != present:
                return ('copy', '%s: classList %r but the %s has %r / %r' % (where, L, how, list(c.classList), c.getStartTag()))
        # a copy and its source are two elements: in-place class edits on one are not seen through the other (also along a
        # chain source -> copy -> copy of the copy, and for the element re-parsed from the start tag)
        for how in (() if odd else AC_COPIES + ('reparse',)):
            a = fresh()
            b = AC.reparse(a) if how == 'reparse' else AC.make_copy(a, how)
            c = AC.make_copy(b, 'clone')
            b.addClass('zzcopy')
            if L:
                b.removeClass(L[0])
            if list(a.classList) != L or a.className != joined or list(c.classList) != L:
                return ('aliased', '%s: addClass/removeClass on the %s changed the source or a clone of the copy: %r / %r'
                        % (where, how, list(a.classList), list(c.classList)))
            a.addClass('zzsrc')
            t = fresh()                 # the same two edits on an element nobody else holds
            t.addClass('zzcopy')
            if L:
                t.removeClass(L[0])
            want_b = list(t.classList)
            if list(b.classList) != want_b or b.hasClass('zzsrc'):
                return ('aliased', '%s: addClass on the source changed its %s: %r (expected %r)' % (where, how, list(b.classList), want_b))
        # classList is a copy
        e = fresh()
        cl = e.classList
        cl.append('zzz')
        if L:
            cl.remove(L[0])
        cl2 = e.classNames
        cl2.insert(0, 'yyy')
        if list(e.classList) != L or e.className != joined or e.hasClass('zzz') or e.hasClass('yyy'):
            return ('classList-aliased', '%s: mutating the returned classList changed the element: %r' % (where, list(e.classList)))
        # idempotence laws on this state
        for nm in [x for x in L if not odd_ws(x)][:3]:
            e = fresh()
            e.addClass(nm)
            if list(e.classList) != L:
                return ('law', '%s: addClass(%r) of a present name changed %r into %r' % (where, nm, L, list(e.classList)))
        for nm in ('q', 'a', 'zz'):
            if nm not in L:
                e = fresh()
                r = e.removeClass(nm)
                if list(e.classList) != L:
                    return ('law', '%s: removeClass(%r) of an absent name changed %r into %r' % (where, nm, L, list(e.classList)))
        return None


AC_COPIES = ('clone', 'copy', 'deepcopy', 'pickle', 'repr')
