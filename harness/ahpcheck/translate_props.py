"""
translate_props — regenerate, from the *source text* of AdvancedHTMLParser/constants.py and conversions.py, the
tables behind the typed DOM properties (C19, DESIGN §2.1):

    propLinks            TAG_ITEM_ATTRIBUTE_LINKS                (dot names common to all elements)
    tagProps             TAG_NAMES_TO_ADDITIONAL_ATTRIBUTES      (per-tag dot names, after the module-level updates)
    propRenames          TAG_ITEM_CHANGE_NAME_FROM_ITEM          (dot name -> HTML attribute name)
    booleanAttrs         TAG_ITEM_BINARY_ATTRIBUTES
    booleanStringAttrs   TAG_ITEM_BINARY_ATTRIBUTES_STRING_ATTR
    eventAttrs           ALL_JAVASCRIPT_EVENT_ATTRIBUTES
    specialRules         TAG_ITEM_ATTRIBUTES_SPECIAL_VALUES      (lambdas / helpers -> `Rule`, by AST pattern)
    validatedProps       TAG_ITEM_ATTRIBUTES_SPECIAL_VALIDATION
    rawTagAttrs          Tags.ADVANCED_TAG_RAW_ATTRIBUTES

The module is never imported or executed: a small interpreter walks the AST of the module-level statements
over a whitelisted subset of Python (literals, set/dict/tuple, names, comprehensions, `for`/`if`, the methods
copy/union/update/values/items/keys/get/startswith) with Python's own semantics (so `s.union('ab')` adds the
two characters).  Lambdas and `_special_value_*` helpers are matched against fixed shapes (converter name +
`em.getAttribute(<str>, <literal>)` + literal arguments bound through the converter's signature read from
conversions.py).  Anything else raises `Unreadable` — a broken tie, never a silent skip.
"""
import ast
import os

from .translate_tables import lean_str, lean_list


class Unreadable(ValueError):
    pass


class _Opaque(object):
    """A module-level name whose value could not be (or need not be) evaluated; using it is an error."""

    def __init__(self, why):
        self.why = why


class _Sym(object):
    """An imported or defined symbol that is used by name only (converters, singletons, exception types)."""

    def __init__(self, name):
        self.name = name

    def __repr__(self):
        return 'Sym(%s)' % self.name


class _Code(object):
    """A lambda / function kept as AST for pattern extraction."""

    def __init__(self, node):
        self.node = node


_METHODS = {
    (set, 'copy'), (set, 'union'), (set, 'update'), (set, 'add'),
    (dict, 'values'), (dict, 'items'), (dict, 'keys'), (dict, 'get'), (dict, 'copy'), (dict, 'update'),
    (str, 'startswith'), (str, 'endswith'), (str, 'lower'),
    (frozenset, 'union'), (frozenset, 'copy'),
}


class _Interp(object):
    def __init__(self, filename):
        self.filename = filename
        self.env = {}

    def fail(self, node, what):
        raise Unreadable('%s:%s: %s' % (os.path.basename(self.filename), getattr(node, 'lineno', '?'), what))

    # ---- expressions -----------------------------------------------------------------------
    def ev(self, n, env):
        if isinstance(n, ast.Constant):
            if n.value is None or isinstance(n.value, (str, int, bool)):
                return n.value
            self.fail(n, 'constant of type %s' % type(n.value).__name__)
        if isinstance(n, ast.UnaryOp) and isinstance(n.op, ast.USub):
            v = self.ev(n.operand, env)
            if isinstance(v, int) and not isinstance(v, bool):
                return -v
            self.fail(n, 'unary minus on a non-integer')
        if isinstance(n, ast.Name):
            if n.id in env:
                v = env[n.id]
            elif n.id in self.env:
                v = self.env[n.id]
            else:
                self.fail(n, 'unknown name %s' % n.id)
            if isinstance(v, _Opaque):
                self.fail(n, 'name %s is needed but unreadable (%s)' % (n.id, v.why))
            return v
        if isinstance(n, ast.Set):
            return set(self._hashable(self.ev(e, env), e) for e in n.elts)
        if isinstance(n, ast.Tuple):
            return tuple(self.ev(e, env) for e in n.elts)
        if isinstance(n, ast.List):
            return [self.ev(e, env) for e in n.elts]
        if isinstance(n, ast.Dict):
            d = {}
            for k, v in zip(n.keys, n.values):
                if k is None:
                    self.fail(n, 'dict unpacking')
                d[self._hashable(self.ev(k, env), k)] = self.ev(v, env)
            return d
        if isinstance(n, ast.Lambda):
            return _Code(n)
        if isinstance(n, ast.Subscript):
            c = self.ev(n.value, env)
            k = self.ev(n.slice, env)
            if isinstance(c, dict) and isinstance(k, str):
                if k not in c:
                    self.fail(n, 'missing key %r' % k)
                return c[k]
            self.fail(n, 'subscript of %s' % type(c).__name__)
        if isinstance(n, ast.Compare) and len(n.ops) == 1:
            a = self.ev(n.left, env)
            b = self.ev(n.comparators[0], env)
            op = n.ops[0]
            if isinstance(op, ast.In):
                return a in b
            if isinstance(op, ast.NotIn):
                return a not in b
            if isinstance(op, ast.Eq):
                return a == b
            if isinstance(op, ast.NotEq):
                return a != b
            self.fail(n, 'comparison operator')
        if isinstance(n, ast.BoolOp):
            vals = [self.ev(v, env) for v in n.values]
            if not all(isinstance(v, bool) for v in vals):
                self.fail(n, 'boolean operator on non-booleans')
            return all(vals) if isinstance(n.op, ast.And) else any(vals)
        if isinstance(n, ast.BinOp) and isinstance(n.op, ast.Mod):
            a = self.ev(n.left, env)
            b = self.ev(n.right, env)
            if isinstance(a, str) and isinstance(b, tuple) and all(isinstance(x, str) for x in b):
                return a % b
            self.fail(n, '% formatting')
        if isinstance(n, (ast.ListComp, ast.SetComp, ast.DictComp)):
            return self._comp(n, env)
        if isinstance(n, ast.Call):
            return self._call(n, env)
        self.fail(n, 'expression %s' % type(n).__name__)

    def _hashable(self, v, node):
        if v is None or isinstance(v, (str, int, tuple)):
            return v
        self.fail(node, 'unhashable element')

    def _call(self, n, env):
        if n.keywords:
            self.fail(n, 'keyword arguments in a table expression')
        if isinstance(n.func, ast.Name) and n.func.id in ('set', 'frozenset', 'tuple', 'list') and n.func.id not in self.env:
            args = [self.ev(a, env) for a in n.args]
            if len(args) > 1:
                self.fail(n, 'arity')
            ctor = {'set': set, 'frozenset': frozenset, 'tuple': tuple, 'list': list}[n.func.id]
            if args and not isinstance(args[0], (set, frozenset, tuple, list, dict, str)):
                self.fail(n, 'argument of %s()' % n.func.id)
            return ctor(*args)
        if isinstance(n.func, ast.Attribute):
            obj = self.ev(n.func.value, env)
            t = type(obj)
            if (t, n.func.attr) not in _METHODS:
                self.fail(n, 'method %s.%s' % (t.__name__, n.func.attr))
            args = [self.ev(a, env) for a in n.args]
            r = getattr(obj, n.func.attr)(*args)
            if n.func.attr in ('values', 'items', 'keys'):
                r = list(r)
            return r
        if isinstance(n.func, ast.Name) and isinstance(self.env.get(n.func.id), (_Sym, _Code)):
            # a call of an unknown function at module level (e.g. IndexSizeErrorException()): opaque value
            return _Opaque('result of calling %s' % n.func.id)
        self.fail(n, 'call')

    def _comp(self, n, env):
        out = []

        def rec(i, env):
            if i == len(n.generators):
                if isinstance(n, ast.DictComp):
                    out.append((self._hashable(self.ev(n.key, env), n.key), self.ev(n.value, env)))
                else:
                    out.append(self.ev(n.elt, env))
                return
            g = n.generators[i]
            if g.is_async:
                self.fail(n, 'async comprehension')
            it = self.ev(g.iter, env)
            if isinstance(it, (set, frozenset)):
                it = sorted(it, key=repr)
            if not isinstance(it, (list, tuple)):
                self.fail(g.iter, 'iteration over %s' % type(it).__name__)
            for x in it:
                e2 = dict(env)
                self._bind(g.target, x, e2)
                ok = True
                for c in g.ifs:
                    v = self.ev(c, e2)
                    if not isinstance(v, bool):
                        self.fail(c, 'non-boolean filter')
                    ok = ok and v
                if ok:
                    rec(i + 1, e2)
        rec(0, env)
        if isinstance(n, ast.ListComp):
            return out
        if isinstance(n, ast.SetComp):
            return set(self._hashable(x, n) for x in out)
        return dict(out)

    def _bind(self, target, value, env):
        if isinstance(target, ast.Name):
            env[target.id] = value
        elif isinstance(target, ast.Tuple) and isinstance(value, tuple) and len(value) == len(target.elts):
            for t, v in zip(target.elts, value):
                self._bind(t, v, env)
        else:
            self.fail(target, 'assignment target')

    # ---- statements ---------------------------------------------------------------------------
    def run(self, body, env=None, top=True):
        env = self.env if env is None else env
        for st in body:
            if isinstance(st, ast.Expr) and isinstance(st.value, ast.Constant):
                continue                                    # docstring
            if isinstance(st, ast.ImportFrom):
                for a in st.names:
                    self.env[a.asname or a.name] = _Sym(a.name)
                continue
            if isinstance(st, ast.Import):
                continue
            if isinstance(st, ast.FunctionDef):
                self.env[st.name] = _Code(st)
                continue
            if isinstance(st, ast.ClassDef):
                self.env[st.name] = _Sym(st.name)
                continue
            if isinstance(st, ast.Pass):
                continue
            if isinstance(st, ast.Assign) and len(st.targets) == 1:
                tgt = st.targets[0]
                if isinstance(tgt, ast.Name):
                    try:
                        v = self.ev(st.value, env)
                    except Unreadable as e:
                        if not top:
                            raise
                        v = _Opaque(str(e))             # lazily fatal: only if the name is needed later
                    env[tgt.id] = v
                    continue
                if isinstance(tgt, ast.Subscript):
                    c = self.ev(tgt.value, env)
                    k = self.ev(tgt.slice, env)
                    if not (isinstance(c, dict) and isinstance(k, str)):
                        self.fail(st, 'subscript assignment')
                    c[k] = self.ev(st.value, env)
                    continue
                self.fail(st, 'assignment target')
            if isinstance(st, ast.Expr) and isinstance(st.value, ast.Call):
                self.ev(st.value, env)
                continue
            if isinstance(st, ast.For) and not st.orelse:
                it = self.ev(st.iter, env)
                if not isinstance(it, (tuple, list)):
                    self.fail(st, 'for over %s' % type(it).__name__)
                for x in it:
                    self._bind(st.target, x, env)
                    self.run(st.body, env, top=False)
                continue
            if isinstance(st, ast.If):
                c = self.ev(st.test, env)
                if not isinstance(c, bool):
                    self.fail(st, 'non-boolean condition')
                self.run(st.body if c else st.orelse, env, top=False)
                continue
            self.fail(st, 'statement %s' % type(st).__name__)


# ---------------------------------------------------------------------------------------------
# rules

CONVERTERS = ('convertToIntOrNegativeOneIfUnset', 'convertToPositiveInt', 'convertPossibleValues',
              'convertToIntRange', 'convertToIntRangeCapped')


class _Rules(object):
    def __init__(self, interp, conv_tree, conv_file):
        self.I = interp
        self.sigs = {}
        for st in conv_tree.body:
            if isinstance(st, ast.FunctionDef) and st.name in CONVERTERS:
                a = st.args
                if a.vararg or a.kwarg or a.kwonlyargs or a.posonlyargs:
                    raise Unreadable('%s: signature of %s' % (conv_file, st.name))
                names = [x.arg for x in a.args]
                defaults = [None] * (len(names) - len(a.defaults)) + list(a.defaults)
                self.sigs[st.name] = list(zip(names, defaults))
        for c in CONVERTERS:
            if c not in self.sigs:
                raise Unreadable('%s: no def %s' % (conv_file, c))

    def fail(self, node, what):
        self.I.fail(node, what)

    # literal arguments ----------------------------------------------------------------------
    def lit(self, n, env=None):
        """None / str / int / bool literal (or a name bound to one) -> Lean `Lit`."""
        v = self.I.ev(n, env or {})
        return self.lit_value(v, n)

    def lit_value(self, v, n):
        if v is None:
            return '.none'
        if isinstance(v, bool):
            return '(.bool %s)' % ('true' if v else 'false')
        if isinstance(v, int):
            return '(.int (%d))' % v
        if isinstance(v, str):
            return '(.str %s)' % lean_str(v)
        self.fail(n, 'argument is not a None/str/int/bool literal')

    def opt_int(self, n, env=None):
        v = self.I.ev(n, env or {})
        if v is None:
            return 'none'
        if isinstance(v, int) and not isinstance(v, bool):
            return '(some (%d))' % v
        self.fail(n, 'bound is not None or an integer literal')

    def invalid(self, n, env=None):
        v = self.I.ev(n, env or {})
        if isinstance(v, _Sym):
            if v.name.endswith('Exception') or v.name.endswith('Error'):
                return '(.raise %s)' % lean_str(v.name)
            self.fail(n, 'invalidDefault names %s' % v.name)
        return '(.val %s)' % self.lit_value(v, n)

    def empty(self, n, env=None):
        v = self.I.ev(n, env or {})
        if isinstance(v, _Sym):
            if v.name == 'EMPTY_IS_INVALID':
                return '.invalid'
            self.fail(n, 'emptyValue names %s' % v.name)
        return '(.val %s)' % self.lit_value(v, n)

    def members(self, n, env=None):
        v = self.I.ev(n, env or {})
        if isinstance(v, (tuple, list)) and all(isinstance(x, str) for x in v):
            return lean_list([lean_str(x) for x in v])
        self.fail(n, 'possibleValues is not a tuple of strings')

    # em.getAttribute('name', <literal>) -----------------------------------------------------
    def get_attribute(self, n, em):
        if isinstance(n, ast.Call) and isinstance(n.func, ast.Attribute) and n.func.attr == 'getAttribute' \
                and isinstance(n.func.value, ast.Name) and n.func.value.id == em and not n.keywords \
                and len(n.args) in (1, 2) and isinstance(n.args[0], ast.Constant) and isinstance(n.args[0].value, str):
            d = self.lit(n.args[1]) if len(n.args) == 2 else '.none'
            return n.args[0].value, d
        return None

    def bind(self, call, fname, first_is_value=True):
        """Bind positional and keyword arguments of a converter call through its signature; returns name -> AST."""
        sig = self.sigs[fname]
        bound = {}
        if len(call.args) > len(sig):
            self.fail(call, 'too many arguments for %s' % fname)
        for (name, _), a in zip(sig, call.args):
            bound[name] = a
        for kw in call.keywords:
            if kw.arg is None or kw.arg not in [s[0] for s in sig] or kw.arg in bound:
                self.fail(call, 'keyword %s of %s' % (kw.arg, fname))
            bound[kw.arg] = kw.value
        for name, dflt in sig:
            if name not in bound:
                if dflt is None:
                    self.fail(call, 'missing argument %s of %s' % (name, fname))
                bound[name] = dflt
        return bound

    def conv_call(self, n, em, value_env=None):
        """converter(em.getAttribute(..), literal args)  |  em.getAttribute(..)  ->  Lean `Rule`."""
        ga = self.get_attribute(n, em)
        if ga is not None:
            return '(.conv .raw %s %s)' % (lean_str(ga[0]), ga[1])
        if isinstance(n, ast.Call) and isinstance(n.func, ast.Name):
            f = n.func.id
            target = self.I.env.get(f)
            if f in CONVERTERS and isinstance(target, _Sym) and target.name == f:
                b = self.bind(n, f)
                ga = self.get_attribute(b['val'], em)
                if ga is None:
                    self.fail(n, 'first argument of %s is not em.getAttribute(<str>, <literal>)' % f)
                attr, dflt = lean_str(ga[0]), ga[1]
                if f == 'convertToIntOrNegativeOneIfUnset':
                    c = '.intOrMinusOne'
                elif f == 'convertToPositiveInt':
                    c = '(.positiveInt %s)' % self.lit(b['invalidDefault'])
                elif f == 'convertPossibleValues':
                    c = '(.possible %s %s %s)' % (self.members(b['possibleValues']), self.invalid(b['invalidDefault']),
                                                  self.empty(b['emptyValue']))
                else:
                    kind = '.intRange' if f == 'convertToIntRange' else '.intCapped'
                    c = '(%s %s %s %s %s)' % (kind, self.opt_int(b['minValue']), self.opt_int(b['maxValue']),
                                              self.invalid(b['invalidDefault']), self.empty(b['emptyValue']))
                return '(.conv %s %s %s)' % (c, attr, dflt)
            if isinstance(target, _Code) and isinstance(target.node, ast.FunctionDef) and f == '_DOMTokenList_type' \
                    and len(n.args) == 1 and not n.keywords:
                ga = self.get_attribute(n.args[0], em)
                if ga is not None:
                    return '(.conv .tokens %s %s)' % (lean_str(ga[0]), ga[1])
        # em.getParentElementCustomFilter( lambda em : em.tagName == 'form' )
        if isinstance(n, ast.Call) and isinstance(n.func, ast.Attribute) and n.func.attr == 'getParentElementCustomFilter' \
                and isinstance(n.func.value, ast.Name) and n.func.value.id == em and len(n.args) == 1 and not n.keywords \
                and isinstance(n.args[0], ast.Lambda) and len(n.args[0].args.args) == 1:
            t = self.tag_test(n.args[0].body, n.args[0].args.args[0].arg)
            if t is not None:
                return '(.parentTag %s)' % lean_str(t)
        self.fail(n, 'special-value expression of an unknown shape')

    def tag_test(self, n, em):
        """em.tagName == 'x'  ->  'x'"""
        if isinstance(n, ast.Compare) and len(n.ops) == 1 and isinstance(n.ops[0], ast.Eq) \
                and isinstance(n.left, ast.Attribute) and n.left.attr == 'tagName' \
                and isinstance(n.left.value, ast.Name) and n.left.value.id == em \
                and isinstance(n.comparators[0], ast.Constant) and isinstance(n.comparators[0].value, str):
            return n.comparators[0].value
        return None

    def rule_of(self, code, as_validation=False):
        node = code.node
        if isinstance(node, ast.Lambda):
            if len(node.args.args) != 1 or node.args.defaults or as_validation:
                self.fail(node, 'lambda signature')
            return self.conv_call(node.body, node.args.args[0].arg)
        if isinstance(node, ast.FunctionDef):
            args = [a.arg for a in node.args.args]
            body = [s for s in node.body if not (isinstance(s, ast.Expr) and isinstance(s.value, ast.Constant))]
            if len(args) == 1 and not as_validation:
                em = args[0]
                # if em.tagName == 'x': return A   [else: return B | return B]
                if len(body) in (1, 2) and isinstance(body[0], ast.If):
                    t = self.tag_test(body[0].test, em)
                    thn = body[0].body
                    els = body[0].orelse if len(body) == 1 else body[1:]
                    if len(body) == 2 and body[0].orelse:
                        self.fail(node, 'shape of %s' % node.name)
                    if t is not None and len(thn) == 1 and isinstance(thn[0], ast.Return) and len(els) == 1 \
                            and isinstance(els[0], ast.Return) and thn[0].value is not None and els[0].value is not None:
                        return '(.byTag %s %s %s)' % (lean_str(t), self.conv_call(thn[0].value, em),
                                                      self.conv_call(els[0].value, em))
                self.fail(node, 'shape of %s' % node.name)
            if len(args) == 2:
                return self.max_length(node, args, body)
        self.fail(node, 'special-value function of an unknown shape')

    def max_length(self, node, args, body):
        """
        def f(em, newValue=NOT_PROVIDED):
            if newValue is NOT_PROVIDED:
                if not em.hasAttribute(A): return R
                curValue = em.getAttribute(A, D)
                invalidDefault = GI
            else:
                curValue = newValue
                invalidDefault = SI
            return convertToIntRange(curValue, minValue=.., maxValue=.., emptyValue=.., invalidDefault=invalidDefault)
        """
        em, nv = args
        d = node.args.defaults
        ok = (len(d) == 1 and isinstance(d[0], ast.Name) and len(body) == 2 and isinstance(body[0], ast.If)
              and isinstance(body[1], ast.Return))
        if not ok:
            self.fail(node, 'shape of %s' % node.name)
        sentinel = d[0].id
        t = body[0].test
        ok = (isinstance(t, ast.Compare) and len(t.ops) == 1 and isinstance(t.ops[0], ast.Is) and isinstance(t.left, ast.Name)
              and t.left.id == nv and isinstance(t.comparators[0], ast.Name) and t.comparators[0].id == sentinel)
        thn, els = body[0].body, body[0].orelse
        if not (ok and len(thn) == 3 and len(els) == 2):
            self.fail(node, 'shape of %s' % node.name)
        # then-branch
        g = thn[0]
        ok = (isinstance(g, ast.If) and not g.orelse and isinstance(g.test, ast.UnaryOp) and isinstance(g.test.op, ast.Not)
              and isinstance(g.test.operand, ast.Call) and isinstance(g.test.operand.func, ast.Attribute)
              and g.test.operand.func.attr == 'hasAttribute' and isinstance(g.test.operand.func.value, ast.Name)
              and g.test.operand.func.value.id == em and len(g.test.operand.args) == 1
              and isinstance(g.test.operand.args[0], ast.Constant) and isinstance(g.test.operand.args[0].value, str)
              and len(g.body) == 1 and isinstance(g.body[0], ast.Return) and g.body[0].value is not None)
        if not ok:
            self.fail(node, 'shape of %s (presence test)' % node.name)
        has_attr = g.test.operand.args[0].value
        absent = self.lit(g.body[0].value)

        def assign(st, name):
            if isinstance(st, ast.Assign) and len(st.targets) == 1 and isinstance(st.targets[0], ast.Name):
                return st.targets[0].id == name and st.value or None
            return None
        cur = assign(thn[1], 'curValue')
        gi = assign(thn[2], 'invalidDefault')
        cur2 = assign(els[0], 'curValue')
        si = assign(els[1], 'invalidDefault')
        if cur is None or gi is None or cur2 is None or si is None or not (isinstance(cur2, ast.Name) and cur2.id == nv):
            self.fail(node, 'shape of %s (assignments)' % node.name)
        ga = self.get_attribute(cur, em)
        if ga is None or ga[0] != has_attr:
            self.fail(node, 'shape of %s (getAttribute)' % node.name)
        call = body[1].value
        if not (isinstance(call, ast.Call) and isinstance(call.func, ast.Name) and call.func.id == 'convertToIntRange'
                and isinstance(self.I.env.get('convertToIntRange'), _Sym)):
            self.fail(node, 'shape of %s (converter)' % node.name)
        b = self.bind(call, 'convertToIntRange')
        if not (isinstance(b['val'], ast.Name) and b['val'].id == 'curValue'
                and isinstance(b['invalidDefault'], ast.Name) and b['invalidDefault'].id == 'invalidDefault'):
            self.fail(node, 'shape of %s (converter arguments)' % node.name)
        return '(.maxLength %s %s %s %s %s %s %s %s)' % (
            lean_str(has_attr), absent, ga[1], self.opt_int(b['minValue']), self.opt_int(b['maxValue']),
            self.empty(b['emptyValue']), self.invalid(gi), self.invalid(si))


# ---------------------------------------------------------------------------------------------

TYPES = '''
/-! ### typed DOM properties (C19): vocabulary of the generated tables (fixed text) -/

/-- A literal argument in the source: `None`, a string, an integer, a boolean. -/
inductive Lit where
  | none
  | str (s : String)
  | int (n : Int)
  | bool (b : Bool)
  deriving DecidableEq, Repr, Inhabited

/-- `invalidDefault`: a value to return, or an exception type to raise. -/
inductive Inv where
  | val (l : Lit)
  | raise (exc : String)
  deriving DecidableEq, Repr, Inhabited

/-- `emptyValue`: a value to return, or `EMPTY_IS_INVALID`. -/
inductive Emp where
  | val (l : Lit)
  | invalid
  deriving DecidableEq, Repr, Inhabited

/-- A converter of conversions.py together with its literal arguments. -/
inductive Conv where
  | raw                                                             -- no conversion: the attribute value itself
  | tokens                                                          -- DOMTokenList(value)
  | intOrMinusOne                                                   -- convertToIntOrNegativeOneIfUnset
  | positiveInt (invalid : Lit)                                     -- convertToPositiveInt
  | possible (members : List String) (invalid : Inv) (empty : Emp)  -- convertPossibleValues
  | intRange (lo hi : Option Int) (invalid : Inv) (empty : Emp)     -- convertToIntRange
  | intCapped (lo hi : Option Int) (invalid : Inv) (empty : Emp)    -- convertToIntRangeCapped
  deriving DecidableEq, Repr, Inhabited

/-- One entry of TAG_ITEM_ATTRIBUTES_SPECIAL_VALUES. -/
inductive Rule where
  | conv (c : Conv) (attr : String) (dflt : Lit)                    -- c(em.getAttribute(attr, dflt))
  | parentTag (name : String)                                       -- nearest ancestor with that tag name
  | byTag (tag : String) (thenR elseR : Rule)                       -- if em.tagName == tag: thenR else: elseR
  | maxLength (attr : String) (absent dflt : Lit) (lo hi : Option Int) (empty : Emp) (getInvalid setInvalid : Inv)
  deriving DecidableEq, Repr, Inhabited
'''


def _sorted_strs(v, what):
    if not isinstance(v, (set, frozenset)) or not all(isinstance(x, str) for x in v):
        raise Unreadable('%s is not a set of strings' % what)
    return sorted(v)


def read(repo):
    """Everything the generated tables contain, as Python data (also used by tests of the translator)."""
    base = os.path.join(repo, 'AdvancedHTMLParser')
    cfile = os.path.join(base, 'constants.py')
    vfile = os.path.join(base, 'conversions.py')
    tfile = os.path.join(base, 'Tags.py')
    ctree = ast.parse(open(cfile, encoding='utf-8').read(), cfile)
    vtree = ast.parse(open(vfile, encoding='utf-8').read(), vfile)
    I = _Interp(cfile)
    I.run(ctree.body)
    R = _Rules(I, vtree, vfile)

    def need(name):
        if name not in I.env:
            raise Unreadable('constants.py: no module-level %s' % name)
        v = I.env[name]
        if isinstance(v, _Opaque):
            raise Unreadable('constants.py: %s is unreadable: %s' % (name, v.why))
        return v

    out = {}
    out['propLinks'] = _sorted_strs(need('TAG_ITEM_ATTRIBUTE_LINKS'), 'TAG_ITEM_ATTRIBUTE_LINKS')
    tp = need('TAG_NAMES_TO_ADDITIONAL_ATTRIBUTES')
    if not isinstance(tp, dict) or not all(isinstance(k, str) for k in tp):
        raise Unreadable('TAG_NAMES_TO_ADDITIONAL_ATTRIBUTES is not a dict keyed by strings')
    out['tagProps'] = [(k, _sorted_strs(tp[k], 'TAG_NAMES_TO_ADDITIONAL_ATTRIBUTES[%r]' % k)) for k in sorted(tp)]
    rn = need('TAG_ITEM_CHANGE_NAME_FROM_ITEM')
    if not isinstance(rn, dict) or not all(isinstance(k, str) and isinstance(v, str) for k, v in rn.items()):
        raise Unreadable('TAG_ITEM_CHANGE_NAME_FROM_ITEM is not a dict of strings')
    out['propRenames'] = sorted(rn.items())
    out['booleanAttrs'] = _sorted_strs(need('TAG_ITEM_BINARY_ATTRIBUTES'), 'TAG_ITEM_BINARY_ATTRIBUTES')
    out['booleanStringAttrs'] = _sorted_strs(need('TAG_ITEM_BINARY_ATTRIBUTES_STRING_ATTR'), 'TAG_ITEM_BINARY_ATTRIBUTES_STRING_ATTR')
    out['eventAttrs'] = _sorted_strs(need('ALL_JAVASCRIPT_EVENT_ATTRIBUTES'), 'ALL_JAVASCRIPT_EVENT_ATTRIBUTES')
    sv = need('TAG_ITEM_ATTRIBUTES_SPECIAL_VALUES')
    if not isinstance(sv, dict):
        raise Unreadable('TAG_ITEM_ATTRIBUTES_SPECIAL_VALUES is not a dict')
    rules = []
    for k in sorted(sv):
        if not isinstance(k, str) or not isinstance(sv[k], _Code):
            raise Unreadable('TAG_ITEM_ATTRIBUTES_SPECIAL_VALUES[%r] is not a lambda or a function' % (k,))
        rules.append((k, R.rule_of(sv[k])))
    out['specialRules'] = rules
    va = need('TAG_ITEM_ATTRIBUTES_SPECIAL_VALIDATION')
    if not isinstance(va, dict):
        raise Unreadable('TAG_ITEM_ATTRIBUTES_SPECIAL_VALIDATION is not a dict')
    vals = []
    for k in sorted(va):
        c = va[k]
        if not (isinstance(k, str) and isinstance(c, _Code) and isinstance(c.node, ast.FunctionDef) and len(c.node.args.args) == 2):
            raise Unreadable('TAG_ITEM_ATTRIBUTES_SPECIAL_VALIDATION[%r] is not a two-argument function' % (k,))
        vals.append((k, R.rule_of(c, as_validation=True)))
    out['validatedProps'] = vals
    # Tags.py: ADVANCED_TAG_RAW_ATTRIBUTES = set([...])
    ttree = ast.parse(open(tfile, encoding='utf-8').read(), tfile)
    raw = None
    for st in ttree.body:
        if isinstance(st, ast.Assign) and len(st.targets) == 1 and isinstance(st.targets[0], ast.Name) \
                and st.targets[0].id == 'ADVANCED_TAG_RAW_ATTRIBUTES':
            raw = _Interp(tfile).ev(st.value, {})
    if raw is None:
        raise Unreadable('Tags.py: no ADVANCED_TAG_RAW_ATTRIBUTES')
    out['rawTagAttrs'] = _sorted_strs(raw, 'ADVANCED_TAG_RAW_ATTRIBUTES')
    return out


def generate(repo):
    t = read(repo)
    S = lambda xs: lean_list([lean_str(x) for x in xs])
    parts = [TYPES]
    parts.append('def propLinks : List String :=\n  %s' % S(t['propLinks']))
    rows = ['(%s, %s)' % (lean_str(k), S(v).replace('\n   ', '\n     ')) for k, v in t['tagProps']]
    parts.append('def tagProps : List (String × List String) :=\n  [%s]' % ',\n   '.join(rows))
    parts.append('def propRenames : List (String × String) :=\n  %s'
                 % lean_list(['(%s, %s)' % (lean_str(a), lean_str(b)) for a, b in t['propRenames']], per_line=4))
    parts.append('def booleanAttrs : List String :=\n  %s' % S(t['booleanAttrs']))
    parts.append('def booleanStringAttrs : List String :=\n  %s' % S(t['booleanStringAttrs']))
    parts.append('def eventAttrs : List String :=\n  %s' % S(t['eventAttrs']))
    parts.append('def specialRules : List (String × Rule) :=\n  [%s]'
                 % ',\n   '.join('(%s, %s)' % (lean_str(k), r) for k, r in t['specialRules']))
    parts.append('def validatedProps : List (String × Rule) :=\n  [%s]'
                 % ',\n   '.join('(%s, %s)' % (lean_str(k), r) for k, r in t['validatedProps']))
    parts.append('def rawTagAttrs : List String :=\n  %s' % S(t['rawTagAttrs']))
    parts.append('')
    return parts
