"""
translate_xpath — tables of `xpath/_body.py` for C14e (picked up by translate_tables._extra_generators).

Extracted from the source text by AST pattern, fail closed (a shape that cannot be read raises):
  * xpathBodyElementOrder   the lists summed into ALL_BODY_ELEMENT_RES, in order
  * xpathComparisonOrder    operator strings in the order their regexes are appended to COMPARISON_RES
  * xpathComparisonRelation (operator string, Python comparison the class applies in _doComparison)
  * xpathOperationOrder     operator strings in the order of OPERATION_RES ('||' for the concat operator)
  * xpathOperationRelation  (operator string, Python arithmetic operator applied in doCalculation)
  * xpathBooleanRelation    (operator string, Python boolean operator applied in _doBooleanOp)
  * xpathPassOrder          the classes of ORDERED_BE_TYPES_TO_PROCESS_VALUES in evaluateLevelForTags, in order
"""
import ast
import os

from .translate_tables import lean_str, lean_list


def _class_attr(cls, name):
    for n in cls.body:
        if isinstance(n, ast.Assign) and len(n.targets) == 1 and isinstance(n.targets[0], ast.Name) and n.targets[0].id == name:
            if isinstance(n.value, ast.Constant) and isinstance(n.value.value, str):
                return n.value.value
    return None


def _method(cls, name):
    for n in cls.body:
        if isinstance(n, ast.FunctionDef) and n.name == name:
            return n
    return None


def _single_return(fn, what):
    rets = [n for n in ast.walk(fn) if isinstance(n, ast.Return)]
    if len(rets) != 1 or rets[0].value is None:
        raise ValueError('%s: expected exactly one return' % what)
    return rets[0].value


def _names(node):
    return node.id if isinstance(node, ast.Name) else None


def generate(repo):
    """Never raises: a source shape that cannot be read yields tables holding the marker "?" (+ the reason), which
    breaks C14's table obligations — and only those (other properties regenerate the same file)."""
    try:
        return _generate(repo)
    except Exception as e:     # fail closed for C14 only
        why = lean_str('unreadable: %s' % e)
        out = []
        for name in ('xpathBodyElementOrder', 'xpathComparisonOrder', 'xpathOperationOrder', 'xpathPassOrder'):
            out.append('def %s : List String :=\n  ["?", %s]' % (name, why))
        for name in ('xpathComparisonRelation', 'xpathOperationRelation', 'xpathBooleanRelation'):
            out.append('def %s : List (String × String) :=\n  [("?", %s)]' % (name, why))
        out.append('')
        return out


def _generate(repo):
    path = os.path.join(repo, 'AdvancedHTMLParser', 'xpath', '_body.py')
    tree = ast.parse(open(path, encoding='utf-8').read(), path)
    classes = {n.name: n for n in tree.body if isinstance(n, ast.ClassDef)}

    def bases(cls):
        return [b.id for b in cls.bases if isinstance(b, ast.Name)]

    # order of appends per list
    appends = {}
    for n in tree.body:
        if isinstance(n, ast.Expr) and isinstance(n.value, ast.Call) and isinstance(n.value.func, ast.Attribute) \
                and n.value.func.attr == 'append' and isinstance(n.value.func.value, ast.Name) and len(n.value.args) == 1 \
                and isinstance(n.value.args[0], ast.Tuple) and len(n.value.args[0].elts) == 2:
            cls = _names(n.value.args[0].elts[1])
            if cls is None:
                raise ValueError('append to %s: class is not a name' % n.value.func.value.id)
            appends.setdefault(n.value.func.value.id, []).append(cls)

    # ALL_BODY_ELEMENT_RES = A + B + C ...
    order = None
    for n in tree.body:
        if isinstance(n, ast.Assign) and len(n.targets) == 1 and _names(n.targets[0]) == 'ALL_BODY_ELEMENT_RES':
            parts = []

            def flat(e):
                if isinstance(e, ast.BinOp) and isinstance(e.op, ast.Add):
                    flat(e.left)
                    flat(e.right)
                elif isinstance(e, ast.Name):
                    parts.append(e.id)
                else:
                    raise ValueError('ALL_BODY_ELEMENT_RES is not a sum of names')
            flat(n.value)
            order = parts
    if order is None:
        raise ValueError('ALL_BODY_ELEMENT_RES not found')

    # comparisons
    cmp_order, cmp_rel = [], []
    for cname in appends.get('COMPARISON_RES', []):
        cls = classes[cname]
        op = _class_attr(cls, 'COMPARISON_OPERATOR_STR')
        fn = _method(cls, '_doComparison')
        if op is None or fn is None:
            raise ValueError('%s: no COMPARISON_OPERATOR_STR / _doComparison' % cname)
        r = _single_return(fn, cname)
        if not (isinstance(r, ast.Call) and _names(r.func) == 'BodyElementValue_Boolean' and len(r.args) == 1
                and isinstance(r.args[0], ast.Compare) and len(r.args[0].ops) == 1
                and _names(r.args[0].left) == 'leftSideValue' and _names(r.args[0].comparators[0]) == 'rightSideValue'):
            raise ValueError('%s._doComparison: unexpected shape' % cname)
        cmp_order.append(op)
        cmp_rel.append((op, type(r.args[0].ops[0]).__name__))

    # operations
    op_order, op_rel = [], []
    for cname in appends.get('OPERATION_RES', []):
        cls = classes[cname]
        if 'BodyElementOperation_Math' in bases(cls):
            op = _class_attr(cls, 'MATH_OPERATOR_STR')
            fn = _method(cls, 'doCalculation')
            if op is None or fn is None:
                raise ValueError('%s: no MATH_OPERATOR_STR / doCalculation' % cname)
            binops = [n for n in ast.walk(fn) if isinstance(n, ast.BinOp)
                      and _names(n.left) == 'leftSideValue' and _names(n.right) == 'rightSideValue']
            if len(binops) != 1:
                raise ValueError('%s.doCalculation: unexpected shape' % cname)
            op_order.append(op)
            op_rel.append((op, type(binops[0].op).__name__))
        elif cname == 'BodyElementOperation_Concat':
            fn = _method(cls, 'performOperation')
            binops = [n for n in ast.walk(fn) if isinstance(n, ast.BinOp)
                      and _names(n.left) == 'leftSideValue' and _names(n.right) == 'rightSideValue']
            if len(binops) != 1:
                raise ValueError('BodyElementOperation_Concat.performOperation: unexpected shape')
            op_order.append('||')
            op_rel.append(('||', type(binops[0].op).__name__))
        else:
            raise ValueError('unknown operation class %s' % cname)

    # boolean ops
    bool_rel = []
    for cname in appends.get('BOOLEAN_OPS_RES', []):
        cls = classes[cname]
        op = _class_attr(cls, 'BOOLEAN_OP_STR')
        fn = _method(cls, '_doBooleanOp')
        if op is None or fn is None:
            raise ValueError('%s: no BOOLEAN_OP_STR / _doBooleanOp' % cname)
        r = _single_return(fn, cname)
        if not (isinstance(r, ast.Call) and _names(r.func) == 'BodyElementValue_Boolean' and len(r.args) == 1
                and isinstance(r.args[0], ast.BoolOp) and len(r.args[0].values) == 2
                and _names(r.args[0].values[0]) == 'leftSideValue' and _names(r.args[0].values[1]) == 'rightSideValue'):
            raise ValueError('%s._doBooleanOp: unexpected shape' % cname)
        bool_rel.append((op, type(r.args[0].op).__name__))

    # pass order in evaluateLevelForTags
    pass_order = None
    fn = _method(classes['BodyLevel'], 'evaluateLevelForTags')
    for n in ast.walk(fn):
        if isinstance(n, ast.Assign) and len(n.targets) == 1 and _names(n.targets[0]) == 'ORDERED_BE_TYPES_TO_PROCESS_VALUES':
            if not isinstance(n.value, ast.List):
                raise ValueError('ORDERED_BE_TYPES_TO_PROCESS_VALUES is not a list literal')
            pass_order = []
            for e in n.value.elts:
                if not (isinstance(e, ast.Tuple) and len(e.elts) == 2 and _names(e.elts[0])):
                    raise ValueError('ORDERED_BE_TYPES_TO_PROCESS_VALUES: unexpected entry')
                pass_order.append(e.elts[0].id)
    if pass_order is None:
        raise ValueError('ORDERED_BE_TYPES_TO_PROCESS_VALUES not found')

    def pairs(ps):
        return lean_list(['(%s, %s)' % (lean_str(a), lean_str(b)) for a, b in ps], per_line=4)

    out = []
    out.append('def xpathBodyElementOrder : List String :=\n  %s' % lean_list(map(lean_str, order)))
    out.append('def xpathComparisonOrder : List String :=\n  %s' % lean_list(map(lean_str, cmp_order)))
    out.append('def xpathComparisonRelation : List (String × String) :=\n  %s' % pairs(cmp_rel))
    out.append('def xpathOperationOrder : List String :=\n  %s' % lean_list(map(lean_str, op_order)))
    out.append('def xpathOperationRelation : List (String × String) :=\n  %s' % pairs(op_rel))
    out.append('def xpathBooleanRelation : List (String × String) :=\n  %s' % pairs(bool_rel))
    out.append('def xpathPassOrder : List String :=\n  %s' % lean_list(map(lean_str, pass_order)))
    out.append('')
    return out
