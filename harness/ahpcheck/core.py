"""
ahpcheck.core — the pipeline every property check runs (DESIGN §3.2):

  1. regenerate lean/AHP/Gen/Tables.lean from $AHP_REPO (translator)
  2. re-check the proofs:  lake build AHP.Props.<id> ahp-driver
  3. audit: forbidden words + `#print axioms` of every property theorem
  4. correspondence: same cases through the Lean driver (model) and the real library (impl); diff
  5. direct property oracle on the implementation for every case
  6. verdict + evidence

Exit codes: 0 held on everything explored; 1 VIOLATION; 2 the machinery itself failed.
"""
import hashlib
import io
import json
import os
import random
import re
import shutil
import subprocess
import sys
import tempfile
import time
import traceback

VERIF = os.path.dirname(os.path.dirname(os.path.dirname(os.path.abspath(__file__))))
LEAN_DIR = os.path.join(VERIF, 'lean')
DRIVER = os.path.join(LEAN_DIR, '.lake', 'build', 'bin', 'ahp-driver')
REPO = os.environ.get('AHP_REPO', '/repo')
ALLOWED_AXIOMS = {'propext', 'Classical.choice', 'Quot.sound'}
FORBIDDEN = re.compile(r'\bsorry\b|\badmit\b|^\s*axiom\s|native_decide|bv_decide|implemented_by|\bunsafe\s|maxHeartbeats\s+0\b', re.M)

TRUSTED_BASE = [
    "Lean 4.33.0 kernel (thorough tier: re-checked by leanchecker)",
    "axioms of every property theorem within {propext, Classical.choice, Quot.sound} (printed by #print axioms on every run; no native_decide, no bv_decide, no sorry)",
    "Lean compiler/runtime for the native driver that executes the model's definitions",
    "harness/translate_tables.py (regenerates AHP/Gen/Tables.lean from the source on every run)",
    "the correspondence check: generators, adapters, canonicalisation, differ (harness/ahpcheck)",
    "CPython 3.12, stdlib html.parser / pickle / threading, QueryableList 3.1.0 as installed",
    "the hand-written model functions agree with the Python source outside the generated inputs (not proved)",
]


class MachineryError(Exception):
    pass


def setup_impl_path():
    """Make `import AdvancedHTMLParser` resolve to the current working tree of $AHP_REPO."""
    if sys.path[0] != REPO:
        sys.path.insert(0, REPO)
    import warnings
    warnings.simplefilter('ignore')
    import AdvancedHTMLParser
    got = os.path.realpath(os.path.dirname(AdvancedHTMLParser.__file__))
    want = os.path.realpath(os.path.join(REPO, 'AdvancedHTMLParser'))
    if got != want:
        raise MachineryError('the library was imported from %s, not from %s' % (got, want))
    import pdb

    def _no_debugger(*a, **k):
        raise DebuggerEntered('pdb.set_trace() reached')
    pdb.set_trace = _no_debugger


class DebuggerEntered(BaseException):
    pass


# --------------------------------------------------------------------------------------------
# s-expression wire format (mirror of AHP.Sexp in lean/AHP/Model/Basic.lean)

_PLAIN = set('abcdefghijklmnopqrstuvwxyzABCDEFGHIJKLMNOPQRSTUVWXYZ0123456789_.-')


def enc(s):
    """A string atom."""
    return '"' + ''.join(c if c in _PLAIN else '%%%x;' % ord(c) for c in s)


def dec(atom):
    assert atom.startswith('"'), atom
    return re.sub(r'%([0-9a-fA-F]+);', lambda m: chr(int(m.group(1), 16)), atom[1:])


def opt(s):
    return 'none' if s is None else enc(s)


def sx(*items):
    """Render a list; items are already-rendered strings or nested python lists/ints."""
    return '(' + ' '.join(_sx1(i) for i in items) + ')'


def _sx1(i):
    if isinstance(i, str):
        return i
    if isinstance(i, bool):
        return 'true' if i else 'false'
    if isinstance(i, int):
        return str(i)
    if isinstance(i, (list, tuple)):
        return '(' + ' '.join(_sx1(j) for j in i) + ')'
    raise TypeError(repr(i))


def parse_sx(text):
    toks = re.findall(r'\(|\)|[^\s()]+', text)
    pos = 0

    def rd():
        nonlocal pos
        t = toks[pos]
        pos += 1
        if t == '(':
            out = []
            while toks[pos] != ')':
                out.append(rd())
            pos += 1
            return out
        return t
    v = rd()
    assert pos == len(toks), text
    return v


# --------------------------------------------------------------------------------------------

class Case(object):
    """One generated case.  `data` is JSON-serialisable and is what replays store."""
    __slots__ = ('data', 'origin')

    def __init__(self, data, origin='random'):
        self.data = data
        self.origin = origin

    def key(self):
        return hashlib.sha1(json.dumps(self.data, sort_keys=True, ensure_ascii=True).encode()).hexdigest()


class PropCheck(object):
    """Base class of a property check.  Subclasses live in ahpcheck/props/cNN.py."""
    id = None                 # 'C18'
    stream = None             # driver stream name
    technique = 'Lean 4 proof over a hand-written model + correspondence check against the library'
    rule = ''                 # how cases are generated and what makes one non-trivial
    assumptions = []
    props_module = None       # default AHP.Props.<id>
    extra_modules = ()        # further theorem modules (e.g. 'AHP.Props.AttrStores') built, audited and counted with the property's own
    exhaustive_in = ()        # tiers in which the enumerated part is complete

    # ---- to implement -------------------------------------------------------------------
    def cases(self, tier, rng):
        """yield Case objects (corpus handled by core)."""
        raise NotImplementedError

    def encode(self, data):
        """case data -> one-line payload for the Lean driver."""
        raise NotImplementedError

    def impl(self, data):
        """run the real library; return the canonical observable string (same format as the model's)."""
        raise NotImplementedError

    def oracle(self, data):
        """the property itself evaluated on the real library: None if it holds, else (kind, detail)."""
        raise NotImplementedError

    def nontrivial(self, data):
        return True

    def features(self, data):
        return []

    def shrink(self, data):
        """yield smaller variants of data (may be empty)."""
        return []

    def compare(self, model_out, impl_out, data):
        """None when they agree, else a description. Default: string equality."""
        if model_out == impl_out:
            return None
        return 'model=%s impl=%s' % (model_out[:400], impl_out[:400])

    def extra_evidence(self):
        """further measured numbers for the evidence file"""
        return {}

    def extra_obligations(self):
        """additional named obligations discharged outside Lean theorems (none by default)."""
        return []


# --------------------------------------------------------------------------------------------
# Lean side

def _run(cmd, cwd=None, timeout=None, input=None):
    p = subprocess.run(cmd, cwd=cwd, stdout=subprocess.PIPE, stderr=subprocess.STDOUT, timeout=timeout,
                       input=input, text=True)
    return p.returncode, p.stdout


def regenerate_tables():
    from . import translate_tables
    return translate_tables.regenerate(REPO, os.path.join(LEAN_DIR, 'AHP', 'Gen', 'Tables.lean'))


def lake_build(targets, clean=False):
    if clean:
        shutil.rmtree(os.path.join(LEAN_DIR, '.lake'), ignore_errors=True)
    rc, out = _run(['lake', 'build'] + list(targets), cwd=LEAN_DIR, timeout=3600)
    return rc == 0, out


def strip_lean_comments(src):
    out = []
    i = 0
    depth = 0
    n = len(src)
    while i < n:
        if src.startswith('/-', i):
            depth += 1
            i += 2
        elif depth and src.startswith('-/', i):
            depth -= 1
            i += 2
        elif depth:
            if src[i] == '\n':
                out.append('\n')
            i += 1
        elif src.startswith('--', i):
            while i < n and src[i] != '\n':
                i += 1
        else:
            out.append(src[i])
            i += 1
    return ''.join(out)


def forbidden_words():
    hits = []
    for top in ('AHP', 'Driver'):
        for root, _, files in os.walk(os.path.join(LEAN_DIR, top)):
            for f in files:
                if not f.endswith('.lean'):
                    continue
                p = os.path.join(root, f)
                src = strip_lean_comments(open(p, encoding='utf-8').read())
                for m in FORBIDDEN.finditer(src):
                    line = src.count('\n', 0, m.start()) + 1
                    hits.append('%s:%d: %s' % (os.path.relpath(p, LEAN_DIR), line, m.group(0).strip()))
    return hits


def theorem_names(props_file):
    """Fully qualified names of the theorems declared in a Props file (namespace-aware)."""
    src = strip_lean_comments(open(props_file, encoding='utf-8').read())
    ns = []
    names = []
    for line in src.split('\n'):
        m = re.match(r'\s*namespace\s+(\S+)', line)
        if m:
            ns.append(m.group(1))
            continue
        m = re.match(r'\s*end\s+(\S+)\s*$', line)
        if m and ns and ns[-1] == m.group(1):
            ns.pop()
            continue
        m = re.match(r'\s*(?:@\[[^\]]*\]\s*)?(?:protected\s+)?theorem\s+([^\s:({\[]+)', line)
        if m:
            names.append('.'.join(ns + [m.group(1)]))
    return names


def print_axioms(module, names):
    """Run `#print axioms` for each theorem; returns {name: [axioms]} ; raises MachineryError on failure."""
    if not names:
        return {}
    d = tempfile.mkdtemp(prefix='ahp-audit-')
    try:
        f = os.path.join(d, 'Audit.lean')
        with open(f, 'w') as fh:
            fh.write('import %s\n' % module)
            for n in names:
                fh.write('#print axioms %s\n' % n)
        rc, out = _run(['lake', 'env', 'lean', f], cwd=LEAN_DIR, timeout=1800)
    finally:
        shutil.rmtree(d, ignore_errors=True)
    res = {}
    # "'X' depends on axioms: [a, b]"  or  "'X' does not depend on any axioms"
    for m in re.finditer(r"^'(.+)' depends on axioms: \[([^\]]*)\]", out, re.M):
        res[m.group(1)] = [a.strip() for a in m.group(2).replace('\n', ' ').split(',') if a.strip()]
    for m in re.finditer(r"^'(.+)' does not depend on any axioms", out, re.M):
        res[m.group(1)] = []
    missing = [n for n in names if n not in res]
    if rc != 0 or missing:
        raise MachineryError('axiom audit failed (rc=%s, missing=%s):\n%s' % (rc, missing, out[-3000:]))
    return res


def run_driver(stream, payloads):
    """payloads: list of strings (one line each).  Returns list of result strings."""
    if not payloads:
        return []
    text = ''.join('%d\t%s\n' % (i, p) for i, p in enumerate(payloads))
    p = subprocess.run([DRIVER, stream], input=text.encode('utf-8'), stdout=subprocess.PIPE, stderr=subprocess.PIPE,
                       timeout=3600)
    if p.returncode != 0:
        raise MachineryError('driver exited %s: %s' % (p.returncode, p.stderr.decode('utf-8', 'replace')[-2000:]))
    out = [None] * len(payloads)
    for line in p.stdout.decode('utf-8').split('\n'):
        if not line:
            continue
        i, _, r = line.partition('\t')
        out[int(i)] = r
    if any(o is None for o in out):
        raise MachineryError('driver returned %d of %d results' % (sum(o is not None for o in out), len(out)))
    return out


# --------------------------------------------------------------------------------------------
# known findings

def load_findings(prop_id):
    p = os.path.join(VERIF, 'known_findings.json')
    if not os.path.exists(p):
        return []
    doc = json.load(open(p))
    return [f for f in doc.get('findings', []) if f.get('property') == prop_id]


def finding_matches(finding, data, failure):
    """A finding matches a failure of the same kind on its recorded input (exact case) or on the recorded
    call-site pattern (regex over the canonical JSON of the case)."""
    m = finding.get('match', {})
    if 'kind' in m and m['kind'] != failure[0]:
        return False
    if 'case' in m and m['case'] == data:
        return True
    if 'case_regex' in m and re.search(m['case_regex'], json.dumps(data, sort_keys=True)) is not None:
        return True
    if 'detail_regex' in m and re.search(m['detail_regex'], failure[1], re.S) is not None:
        return True
    return False


# --------------------------------------------------------------------------------------------

def quiet_call(fn, *a):
    """Run fn with stderr silenced (the library prints warnings)."""
    old = sys.stderr
    sys.stderr = io.StringIO()
    try:
        return fn(*a)
    finally:
        sys.stderr = old


class CaseTimeout(BaseException):
    pass


class _CaseTimer(object):
    """per-case watchdog for Python-level loops (a seeded change can make a search or a mutator loop forever);
    C-level hangs (regular expressions) are handled by the properties that can meet them (C03's worker process)"""

    def __init__(self):
        self.seconds = float(os.environ.get('AHP_CASE_TIMEOUT', '30'))

    def __enter__(self):
        import signal
        import threading
        self.active = threading.current_thread() is threading.main_thread() and self.seconds > 0
        if self.active:
            def on_alarm(signum, frame):
                raise CaseTimeout('case exceeded %.0f s' % self.seconds)
            self.old = signal.signal(signal.SIGALRM, on_alarm)
            signal.setitimer(signal.ITIMER_REAL, self.seconds)

    def __exit__(self, *a):
        if self.active:
            import signal
            signal.setitimer(signal.ITIMER_REAL, 0)
            signal.signal(signal.SIGALRM, self.old)
        return False


def safe_encode(check, data):
    """The wire form of a case. Some encodings read the library (the tree a parse produced): when that raises, the case still
    goes to both sides — the driver answers `bad-case`, the implementation side whatever it does — and the oracle judges it."""
    try:
        return quiet_call(check.encode, data)
    except Exception as e:
        return '(encode-raised %s)' % type(e).__name__


def safe_impl(check, data):
    try:
        with _CaseTimer():
            return quiet_call(check.impl, data)
    except CaseTimeout:
        return '(impl-timeout)'
    except DebuggerEntered as e:
        return '(impl-debugger)'
    except RecursionError:
        return '(impl-raised RecursionError)'
    except Exception as e:
        return '(impl-raised %s)' % type(e).__name__


def safe_oracle(check, data):
    try:
        with _CaseTimer():
            return quiet_call(check.oracle, data)
    except CaseTimeout as e:
        return ('timeout', 'the property oracle did not finish: %s' % e)
    except DebuggerEntered:
        return ('debugger', 'pdb.set_trace() reached')
    except Exception as e:
        return ('oracle-raised', '%s: %s\n%s' % (type(e).__name__, e, traceback.format_exc()[-1500:]))


def shrink_case(check, data, still_fails, budget=400):
    """Greedy structure-aware shrinking with the property's own candidates."""
    cur = data
    improved = True
    n = 0
    while improved and n < budget:
        improved = False
        for cand in check.shrink(cur):
            n += 1
            if n >= budget:
                break
            try:
                if still_fails(cand):
                    cur = cand
                    improved = True
                    break
            except Exception:
                continue
    return cur


def write_replay(prop_id, payload):
    os.makedirs(os.path.join(VERIF, 'replays'), exist_ok=True)
    h = hashlib.sha1(json.dumps(payload, sort_keys=True, default=str).encode()).hexdigest()[:12]
    path = os.path.join('replays', '%s-%s.json' % (prop_id, h))
    payload = dict(payload)
    payload['replay_cmd'] = './check %s --replay %s' % (prop_id, path)
    with open(os.path.join(VERIF, path), 'w') as fh:
        json.dump(payload, fh, indent=1, sort_keys=True, default=str)
    return path


def run_check(check, tier, seed):
    t0 = time.time()
    setup_impl_path()
    prop_id = check.id
    props_module = check.props_module or ('AHP.Props.' + prop_id)
    props_file = os.path.join(LEAN_DIR, *props_module.split('.')) + '.lean'
    lines = []          # stdout lines that matter
    notes = []
    broken = []         # (what, detail): proof obligations / tie that no longer check

    # checks started side by side share lean/: regenerating the tables, building and auditing are serialised
    # (the lock is dropped before the cases run; it also ends with the process)
    build_lock = open(os.path.join(VERIF, '.check.lock'), 'w')
    try:
        import fcntl
        fcntl.flock(build_lock, fcntl.LOCK_EX)
    except (ImportError, OSError):
        pass

    # 1. translator
    tables_changed = False
    try:
        tables_changed = regenerate_tables()
    except Exception as e:
        broken.append(('translator', 'cannot read the source tables: %s' % e))

    # 2. proofs + driver
    ok, out = lake_build(['ahp-driver'], clean=False)
    if not ok:
        if tables_changed or broken:
            broken.append(('driver-build', out[-3000:]))
        else:
            print(out[-4000:])
            print('MACHINERY-ERROR: the driver does not build')
            return 2
    extra_mods = list(check.extra_modules)
    ok, out = lake_build([props_module] + extra_mods)
    names = theorem_names(props_file)
    mod_names = {props_module: list(names)}
    for em in extra_mods:
        mod_names[em] = theorem_names(os.path.join(LEAN_DIR, *em.split('.')) + '.lean')
        names = names + mod_names[em]
    obligations = len(names)
    discharged = 0
    axioms = {}
    checker_cmd = 'cd lean && lake build %s && lake env lean <audit: #print axioms of %d theorems>' % (' '.join([props_module] + extra_mods), len(names))
    if not ok:
        failing = sorted(set(re.findall(r'error: (\S+\.lean:\d+:\d+)', out)))
        broken.append(('proof', 'lake build %s failed at %s\n%s' % (props_module, failing, out[-3000:])))
    else:
        # 3. audit
        hits = forbidden_words()
        if hits:
            print('\n'.join(hits))
            print('MACHINERY-ERROR: forbidden constructs in the Lean sources')
            return 2
        try:
            axioms = {}
            for mod, ns in mod_names.items():
                axioms.update(print_axioms(mod, ns))
        except MachineryError as e:
            print(str(e))
            print('MACHINERY-ERROR: axiom audit')
            return 2
        bad = {n: a for n, a in axioms.items() if not set(a) <= ALLOWED_AXIOMS}
        if bad:
            print('MACHINERY-ERROR: theorems depend on axioms outside the trusted base: %s' % bad)
            return 2
        discharged = len(names)
        if tier == 'thorough' and os.environ.get('AHP_NO_LEANCHECKER') != '1':
            rc, lo = _run(['lake', 'env', 'leanchecker', props_module] + extra_mods, cwd=LEAN_DIR, timeout=3600)
            checker_cmd += ' && lake env leanchecker %s' % ' '.join([props_module] + extra_mods)
            if rc != 0:
                print(lo[-3000:])
                print('MACHINERY-ERROR: leanchecker rejected %s' % props_module)
                return 2
    for ob in check.extra_obligations():
        obligations += 1
        if ob[1]:
            discharged += 1
        else:
            broken.append(('obligation', ob[0]))

    build_lock.close()

    # 4./5. cases
    from . import srccov
    if os.environ.get('AHP_SRCCOV', '1') != '0':
        srccov.start(REPO)
    from . import noise
    quiet_call(noise.prelude, sys.modules.get(type(check).__module__))
    rng = random.Random(seed)
    findings = load_findings(prop_id)
    seen = set()
    cases = []
    corpus_dir = os.path.join(VERIF, 'corpus', prop_id)
    if os.path.isdir(corpus_dir):
        for f in sorted(os.listdir(corpus_dir)):
            if f.endswith('.json'):
                cases.append(Case(json.load(open(os.path.join(corpus_dir, f)))['case'], 'corpus'))
    for c in check.cases(tier, rng):
        cases.append(c)
    payloads = []
    for c in cases:
        payloads.append(safe_encode(check, c.data))
    driver_ok = not any(b[0] == 'driver-build' for b in broken)
    model_out = None
    if driver_ok:
        try:
            model_out = run_driver(check.stream, payloads)
        except MachineryError as e:
            print(str(e))
            print('MACHINERY-ERROR: driver run')
            return 2
    hist = {}
    origins = {}
    nontrivial = 0
    disagreements = []
    failures = []       # (case, failure)
    known_hit = {}
    for i, c in enumerate(cases):
        k = c.key()
        fresh = k not in seen
        seen.add(k)
        origins[c.origin] = origins.get(c.origin, 0) + 1
        if fresh and check.nontrivial(c.data):
            nontrivial += 1
        for f in check.features(c.data):
            hist[f] = hist.get(f, 0) + 1
        quiet_call(noise.between, i)
        if model_out is not None:
            impl_out = safe_impl(check, c.data)
            d = check.compare(model_out[i], impl_out, c.data)
            if d is not None:
                disagreements.append((c, d))
        fail = safe_oracle(check, c.data)
        if fail is not None:
            failures.append((c, fail))

    # known findings: replay each recorded input
    for f in findings:
        data = f.get('match', {}).get('case')
        if data is not None:
            fail = safe_oracle(check, data)
            if fail is not None and finding_matches(f, data, fail):
                known_hit[f['id']] = f
    new_failures = []
    for c, fail in failures:
        hit = None
        for f in findings:
            if finding_matches(f, c.data, fail):
                hit = f
                break
        if hit is not None:
            known_hit[hit['id']] = hit
        else:
            new_failures.append((c, fail))
    for fid, f in sorted(known_hit.items()):
        lines.append('KNOWN-FINDING: property=%s %s' % (prop_id, f.get('what', fid)))

    violations = 0
    replay_paths = []
    if new_failures:
        c, fail = new_failures[0]
        kind = fail[0]

        def still(d):
            r = safe_oracle(check, d)
            return r is not None and r[0] == kind and not any(finding_matches(f, d, r) for f in findings)
        small = shrink_case(check, c.data, still)
        fail2 = safe_oracle(check, small) or fail
        mo = None
        try:
            mo = run_driver(check.stream, [safe_encode(check, small)])[0] if driver_ok else None
        except Exception:
            pass
        path = write_replay(prop_id, {
            'property': prop_id, 'kind': 'property-fails-on-implementation', 'case': small, 'original_case': c.data,
            'failure': list(fail2), 'model_output': mo, 'impl_output': safe_impl(check, small), 'seed': seed, 'tier': tier,
            'other_failures': len(new_failures) - 1,
        })
        violations = len(new_failures)
        lines.append('VIOLATION property=%s replay=%s' % (prop_id, path))
        replay_paths.append(path)
    elif broken or disagreements:
        # something no longer checks but the property oracle found nothing: widen the search
        found = None
        if tier != 'thorough':
            rng2 = random.Random(seed + 7919)
            n = 0
            for c in check.cases('thorough', rng2):
                n += 1
                if n > int(os.environ.get('AHP_WIDEN', '20000')):
                    break
                fail = safe_oracle(check, c.data)
                if fail is not None and not any(finding_matches(f, c.data, fail) for f in findings):
                    found = (c, fail)
                    break
        if found is not None:
            c, fail = found
            kind = fail[0]
            small = shrink_case(check, c.data, lambda d: (safe_oracle(check, d) or (None,))[0] == kind)
            path = write_replay(prop_id, {
                'property': prop_id, 'kind': 'property-fails-on-implementation', 'case': small, 'original_case': c.data,
                'failure': list(safe_oracle(check, small) or fail), 'seed': seed, 'tier': tier,
                'broken': [list(b) for b in broken], 'first_disagreement': _dis(disagreements),
            })
            lines.append('VIOLATION property=%s replay=%s' % (prop_id, path))
        else:
            path = write_replay(prop_id, {
                'property': prop_id, 'kind': 'no-longer-shown-to-hold',
                'broken': [list(b) for b in broken],
                'correspondence_stream': check.stream,
                'disagreements': len(disagreements),
                'first_disagreement': _dis(disagreements),
                'seed': seed, 'tier': tier,
            })
            lines.append('VIOLATION property=%s replay=%s no-failing-input-found' % (prop_id, path))
        violations = 1
        replay_paths.append(path)

    srccov.stop()
    wall = time.time() - t0
    samples = []
    for c in cases[:2] + cases[len(cases) // 2: len(cases) // 2 + 1] + cases[-1:]:
        samples.append({'origin': c.origin, 'case': c.data})
    ev = {
        'property_id': prop_id,
        'tier': tier,
        'seed': seed,
        'level': 'proof',
        'coverage': {
            'obligations': max(obligations, 1),
            'discharged': discharged,
            'theorems': names,
            'axioms': axioms,
            'checker_cmd': checker_cmd,
            'trusted_base': TRUSTED_BASE,
            'evaluations': len(cases),
            'distinct_nontrivial': nontrivial,
            'distinct': len(seen),
            'rule': check.rule,
            'samples': samples,
            'exhaustive': tier in check.exhaustive_in,
            'origins': origins,
            'input_distribution': dict(sorted(hist.items())),
            'correspondence': {'stream': check.stream, 'compared': len(cases) if model_out is not None else 0,
                               'disagreements': len(disagreements)},
            'tables_regenerated_differ_from_committed': bool(tables_changed),
            'broken': [b[0] for b in broken],
            'known_findings_reproduced': sorted(known_hit),
            'extra': check.extra_evidence(),
            'source_coverage': srccov.report(REPO, VERIF, prop_id),
        },
        'assumptions': list(check.assumptions),
        'wall_s': round(wall, 2),
        'violations': violations,
    }
    os.makedirs(os.path.join(VERIF, 'evidence'), exist_ok=True)
    with open(os.path.join(VERIF, 'evidence', prop_id + '.json'), 'w') as fh:
        json.dump(ev, fh, indent=1, sort_keys=True, default=str)
    for l in lines:
        print(l)
    print('%s %s seed=%d: %d theorems (%d discharged), %d cases (%d distinct non-trivial), %d disagreements, '
          '%d property failures (%d known), %.1fs' % (prop_id, tier, seed, obligations, discharged, len(cases), nontrivial,
                                                      len(disagreements), len(failures), len(failures) - len(new_failures), wall))
    return 1 if violations else 0


def _dis(disagreements):
    if not disagreements:
        return None
    c, d = disagreements[0]
    return {'case': c.data, 'difference': d}


def replay(check, path):
    setup_impl_path()
    doc = json.load(open(os.path.join(VERIF, path) if not os.path.isabs(path) else path))
    data = doc.get('case') or (doc.get('first_disagreement') or {}).get('case')
    if data is None:
        print(json.dumps(doc, indent=1)[:4000])
        print('replay: this file names the obligation / stream that no longer checks; there is no input to run')
        return 1
    print('case:', json.dumps(data))
    try:
        mo = run_driver(check.stream, [safe_encode(check, data)])[0]
    except Exception as e:
        mo = 'driver failed: %s' % e
    io_ = safe_impl(check, data)
    print('model :', mo)
    print('impl  :', io_)
    fail = safe_oracle(check, data)
    print('oracle:', fail)
    return 1 if (fail is not None or check.compare(mo, io_, data) is not None) else 0
