"""
ahpcheck.noise — legitimate use of the library on *throwaway* objects, interleaved with the cases of every check.

A property quantified over every document / element / history must hold whatever else the process has done with the library
before. The generators build fresh objects per case, so state kept at module or class level (memo tables keyed by attribute
text, negative caches of dot-access names, a scratch parser shared by classmethods, parse state moved from the instance to the
class) would never be touched in a way that matters. This module does the touching: before the cases (`prelude`) and between
them (`between`, rotating through a few kinds). Every operation is one a user may perform and that the unchanged library
keeps to the throwaway object; exceptions are swallowed (the noise is not under test). Derived from the seeded-change rounds
(DESIGN §10): C01-r3m2, C11-r3m3, C17-r3m2 (style-text memo owned by the first parse), C09-r3m1 (class-text memo), C19-r3m1
(negative cache of dot-access misses), C03-r3m1 (formatter parse state at class level), C20-r3m1 (shared scratch parser).
"""
import os

_styles = ['color: red', 'color: red; float: left', 'padding-top: 5px', 'display: none', 'color: red; margin: 0',
           'display: block', 'float: left; padding-top: 1px; display: none', 'top: 1px', 'font-weight: bold', 'x: y',
           'color: blue; width: 5px', 'a: c', 'color: RED']
_classes = ['k', 'k l', 'a', 'a b', 'x', 'x y', 'a-b', 'A b-c', 'old', 'zz']
_vocab_done = set()
ENABLED = os.environ.get('AHP_NOISE', '1') != '0'


def learn_vocab(module):
    """style / class strings of a property module's own generators (module-level tuples and lists whose name says so)"""
    if module is None or module.__name__ in _vocab_done:
        return
    _vocab_done.add(module.__name__)
    for name in dir(module):
        v = getattr(module, name)
        if not isinstance(v, (list, tuple)):
            continue
        up = name.upper()
        vals = []
        for x in v:
            if isinstance(x, str):
                vals.append(x)
            elif isinstance(x, (list, tuple)) and len(x) == 2 and isinstance(x[0], str) and isinstance(x[1], str):
                if x[0] == 'style' and 'STYLE' not in up:
                    _styles.append(x[1])
                if x[0] == 'class' and 'CLASS' not in up:
                    _classes.append(x[1])
        if 'STYLE' in up:
            _styles.extend(s for s in vals if s not in _styles)
        elif 'CLASS' in up:
            _classes.extend(s for s in vals if s not in _classes)


def _canon(AHP, s):
    """canonical spelling of a style text; the element it is read from is edited in place afterwards (it may be the first
    parse of that text)"""
    try:
        t = AHP.AdvancedTag('div', [('style', s)])
        c = str(t.style)
        t.style.setProperty('noise-prop', '0')
        t.style.color = 'noise-red'
        for n in [x.split(':')[0].strip() for x in c.split(';') if ':' in x][1:]:
            t.style.setProperty(n, '')
        return c
    except Exception:
        return ''


def _style_noise(AHP, s):
    """an element whose style is the *first* parse of its canonical text (written in another spelling), then edited in place"""
    canon = _canon(AHP, s)
    if not canon:
        return
    for spelled in (canon.replace(': ', ':') + ';', canon.upper() if canon.upper() != canon else canon + ' ;'):
        t = AHP.AdvancedTag('div', [('style', spelled)])
        t.style.color = 'noise-blue'
        t.style.setProperty('noise-prop', '1')
        t.setStyle('float', '')
        str(t)
    t = AHP.AdvancedTag('div')
    t.style = canon
    t.style.color = 'noise-green'
    t.outerHTML
    p = AHP.AdvancedHTMLParser()
    p.parseStr('<p style="%s;">x</p>' % canon.replace(': ', ':').replace('"', ''))
    e = p.getRoot()
    if e is not None:
        e.style.setProperty('noise-prop', '2')
        e.style.display = ''


def _class_noise(AHP, c):
    for spelled in (c, ' ' + c + '  '):
        t = AHP.AdvancedTag('span', [('class', spelled)])
        t.addClass('noise-added')
        ws = [w for w in c.split(' ') if w]
        if ws:
            t.removeClass(ws[0])
        str(t)
        t.getAttributesList()
    p = AHP.AdvancedHTMLParser()
    p.parseStr('<i class="%s">x</i>' % c.replace('"', ''))
    e = p.getRoot()
    if e is not None:
        e.addClass('noise-added')
        e.classList
        e.className = 'noise-set'


def _dot_noise(AHP):
    """read every linked property name on element types that do not have it, and on one that does"""
    C = AHP.constants
    names = set()
    for attr in ('TAG_ITEM_ATTRIBUTE_LINKS', 'COMMON_INPUT_ATTRS'):
        v = getattr(C, attr, None)
        if isinstance(v, (set, frozenset, list, tuple)):
            names.update(x for x in v if isinstance(x, str))
    v = getattr(C, 'TAG_NAMES_TO_ADDITIONAL_ATTRIBUTES', None)
    if isinstance(v, dict):
        for s in v.values():
            names.update(x for x in s if isinstance(x, str))
    for tag in ('div', 'xyz', 'p'):
        t = AHP.AdvancedTag(tag)
        for n in sorted(names):
            try:
                getattr(t, n)
            except Exception:
                pass


def _fragment_noise(AHP):
    P = AHP.AdvancedHTMLParser
    for cls in (P, AHP.IndexedAdvancedHTMLParser):
        for frag in ('<a></a><b></b>', 'x<a>y</a>', '<p>x</p><p>y</p>z'):
            try:
                cls.createElementFromHTML(frag)
            except Exception:
                pass
    t = AHP.AdvancedTag('div')
    for frag in ('<b>one</b>', 'x', '<p>1</p><p>2</p>', ' <span class="k">y</span>\n', '<i>a</i>b'):
        try:
            t.appendInnerHTML(frag)
        except Exception:
            pass


def _formatter_noise(AHP):
    from AdvancedHTMLParser import Formatter as F
    for cls in (F.AdvancedHTMLFormatter, F.AdvancedHTMLMiniFormatter, F.AdvancedHTMLSlimTagFormatter, F.AdvancedHTMLSlimTagMiniFormatter):
        try:
            f = cls()
            f.feed('<!DOCTYPE noise><div><pre><span>never closed')
        except Exception:
            pass
    try:
        p = AHP.AdvancedHTMLParser()
        p.feed('<ul><li>never closed')
        v = AHP.ValidatingAdvancedHTMLParser()
        try:
            v.parseStr('<a><b x;y="1"></a>')
        except Exception:
            pass
    except Exception:
        pass


def _xpath_noise(AHP):
    try:
        p = AHP.AdvancedHTMLParser()
        p.parseStr('<div><p n="1" title="a  b">x</p><p n="2" title="a b">y</p></div>')
        for e in ('//p[@title = "a  b"]', '//p[@title = "a b"]', '//P[last()]', '//p[position() = 1]', '//p[@n = 1]', '//p[@n = 2]',
                  '//p[', '//p[@@]'):
            try:
                p.getElementsByXPathExpression(e)
            except Exception:
                pass
    except Exception:
        pass


def prelude(module=None):
    if not ENABLED:
        return
    import AdvancedHTMLParser as AHP
    learn_vocab(module)
    for fn in (_dot_noise, _fragment_noise, _formatter_noise, _xpath_noise):
        try:
            fn(AHP)
        except Exception:
            pass
    for s in list(_styles):
        try:
            _style_noise(AHP, s)
        except Exception:
            pass
    for c in list(_classes):
        try:
            _class_noise(AHP, c)
        except Exception:
            pass


def between(i):
    """cheap noise before the i-th case"""
    if not ENABLED or i % 7:
        return
    import AdvancedHTMLParser as AHP
    k = i // 7
    try:
        kind = k % 6
        if kind == 0:
            _style_noise(AHP, _styles[(k // 6) % len(_styles)])
        elif kind == 1:
            _class_noise(AHP, _classes[(k // 6) % len(_classes)])
        elif kind == 2:
            _fragment_noise(AHP)
        elif kind == 3:
            _formatter_noise(AHP)
        elif kind == 4 and (k // 6) % 8 == 0:
            _dot_noise(AHP)
        elif kind == 5:
            _xpath_noise(AHP)
    except Exception:
        pass
