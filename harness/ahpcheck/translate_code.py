"""
translate_code — regenerate lean/AHP/Gen/Code.lean: the *code* of the pure leaf functions of the library, as data.

Where `translate_tables` / `translate_props` regenerate TABLES, this module dumps the Python `ast` of whole functions
(all of `conversions.py`; see `MODULES`) into values of `AHP.PyAst.Fun` (lean/AHP/Model/PyAst.lean: the subset and its
interpreter).  `lean/AHP/Props/C19Code.lean` proves that interpreting the dump equals the hand-written model for EVERY
argument value, so an edit of a function breaks a proof obligation, not only the cases somebody generated.

The dump is deliberately dumb: one Lean constructor per Python node, no evaluation, no simplification.  The only
decisions taken here are Python's static ones:
  * a name is a local variable iff it is a parameter or assigned in the function body (`Expr.var`), otherwise it must be
    a module-level singleton object `X = C()` of a feature-less class (`Expr.singleton`) or a builtin exception class
    that the module does not rebind (`Expr.excClass`);
  * `f(...)` names a builtin of the interpreter (`int bool str hasattr issubclass`, not rebound by the module), the
    py3 `utils.tostr` (imported locally; its definition is checked to be `return str(value)`), or a function defined
    EARLIER in the same module (`Expr.call`); calling a local variable is `Expr.callv`;
  * `a and b and c` is dumped as `a and (b and c)` (same value, same evaluation order);
  * a module-level name bound exactly once, to a tuple of constants (`POSSIBLE_VALUES_ON_OFF`), is dumped as that tuple;
  * a function imported at module level from a sibling module that is dumped as a whole (`from .conversions import …`) is
    callable like an earlier function of the module (the Lean side runs the module after the imported one:
    `conversions ++ constants`); `IndexSizeErrorException` imported from `.exceptions` is an exception class, after checking
    that its base class is the one the interpreter assumes (`ValueError`).
  * a module-level name bound exactly once, to an integer constant (`MAX_CACHED_EXPRESSIONS = 10`), is NOT inlined: it is
    dumped as `Expr.global` (read at call time; a parameter of the theorems);
  * methods of a class (`CLASSES`): the first parameter (`self`) may only occur as `self.<name>`, never alone and never
    assigned; `self.f.m(args)` as an expression STATEMENT is `Stmt.fieldCall` (the mutating methods live there),
    `self.f = e` / `self.f[k] = v` / `del self.f[k]` are `Stmt.setAttr/setItem/delItem`; `self.m(args)` is allowed only
    for a static method `m` of the class whose body is checked to be the expected wrapper around a primitive
    (`getKeyForExpressionStr`: sha1 of the encoded text) — it becomes a parameter of the interpreter (`Ctx.selfMeth`);
    `[]`, `{}`, `threading.Lock()` (module `threading` imported, not rebound) are `Expr.newList/newDict/newLock`;
  * the name of `except T as name` must not occur outside that handler (Python unbinds it there);
  * `@staticmethod`s of a class listed in `STATIC_METHODS` are dumped as plain functions; `OrderedDict()` (imported once from
    `collections`, not rebound) is `Expr.newDict` (a dict keeps insertion order); `x.append(v)` / `x.remove(v)` as an
    expression statement on a local variable is `Stmt.varCall`, `x[k] = v` on a local variable is `Stmt.setItemVar`.
  * methods of a `list` subclass with fields (`LIST_CLASSES`: `Tags.TagCollection`) are dumped in the order given there, which
    must be a dependency order: a method may refer (`self.m(args)` as a statement, the bound method `x.m` as a value, the
    constructor `TagCollection(args)` = `__init__`) only to methods EARLIER in that order (`Ctx.meths`: no recursion).  The bare
    `self` may occur only as `list.m(self, args)` (a statement: `Stmt.baseCall`, the list the object IS), `self[:]`
    (`Expr.sliceAll`), `list(self)` and `return self`; `x.m` for a local `x` and a method `m` of the class is the bound method
    (`Expr.boundMeth`: it names the variable, which must be bound once, before); `x.m(args)` as an expression statement for a
    method `m` of the class or a mutator is `Stmt.varCall` (the interpreter dispatches on what `x` holds); `set()` is
    `Expr.newSet`.  Checked on the way: the class has `list` as its only base and defines none of `__getitem__ __iter__ __len__
    __contains__ __getattr__ __getattribute__ __setattr__` (so that `self[:]`, `list(self)`, `self.f = v` are the builtin ones);
    `AdvancedTag.getUid` is `return self.uid` and `AdvancedTag.__eq__` compares the uids (`ELEMENT_METHODS`): the interpreter takes
    an element to be its uid.  Module-level functions that build such an object (`uniqueTags`) are dumped after the class.
  * methods of a class whose dot access is overridden (`ATTR_CLASSES`: `SpecialAttributes.StyleAttribute`): `self.f` is the
    plain attribute only for the names in the class constant `RESERVED_ATTRIBUTES` (`__getattribute__` / `__setattr__` hand
    those to `object`): every `self.f` of a dumped method must be one of them.  `x = self.f` as a top-level statement, `x`
    bound nowhere else and `self.f` not assigned in the function, makes `x` a second name of that object: the statement is
    `Stmt.alias`, later reads of `x` are `Expr.avar` (read THROUGH the field), `x[k] = v` / `del x[k]` are
    `Stmt.setItemRef/delItemRef`.  `[e for a, b in d.items()]` (one generator, no condition, `a`/`b` bound nowhere else) is
    `Expr.compItems`; `C.CONST` for a class-level tuple of constants is dumped as that tuple; `C.m(args)` for a static method
    dumped under `STATIC_METHODS` is a call of that function; `object.__getattribute__(self, n)` is `Expr.objAttr` (the plain
    attribute with a computed name); `object.__setattr__(self, n, v)` is `Expr.outside` (NOT modelled: it evaluates to an
    error; the theorems exclude the reserved names); `self.m()` for a method `m` listed with its exact body (`_ensureHtmlAttribute`:
    it writes the tag's attribute store, not the style object) is a parameter (`Ctx.selfMeth`).
Everything outside the subset raises `Untranslatable` with file:line — a broken tie, never a skip.  The module is never
imported or executed.
"""
import ast
import os
import warnings

from .translate_tables import lean_str


class Untranslatable(ValueError):
    pass


# module -> names of the functions to dump (None: every top-level function, and the module-level statements must
# all be of a recognised shape)
MODULES = [
    ('conversions.py', 'conversions', None),
    ('constants.py', 'constants', ['_special_value_rows', '_special_value_cols', '_special_value_autocomplete',
                                   '_special_value_size', '_special_value_maxLength']),
    ('utils.py', 'utils', ['escapeQuotes', 'unescapeQuotes']),
    ('Tags.py', 'tags', ['isValidAttributeName']),
]

# exception classes of the library that may be named, with the base class the interpreter assumes (PyAst.errIsA)
LIBRARY_EXC = {('exceptions', 'IndexSizeErrorException'): 'ValueError'}

# classes: (file, lean name of the list, class, methods to dump in this order, static methods taken as primitives with the
# exact body (ast.unparse of the statements after the docstring) they must have and the module-level imports they rely on)
CLASSES = [
    ('xpath/_cache.py', 'xpath_cache', 'XPathExpressionCacheType',
     ['__init__', 'getCachedExpression', 'setCachedExpression'],
     {'getKeyForExpressionStr': (['expressionStr'],
                                 ['expressionStr = ensureStringEncoded(expressionStr)',
                                  'return sha1(expressionStr).hexdigest()'],
                                 [('hashlib', 0, 'sha1'), ('compat', 2, 'ensureStringEncoded')])}),
]

# static methods of a class dumped as plain functions (a static method sees its parameters and the module, not the class):
# (file, lean name of the list, class, names in this order)
STATIC_METHODS = [
    ('SpecialAttributes.py', 'special_attributes', 'StyleAttribute', ['camelCaseToDashName', 'styleToDict']),
]

# subclasses of `list` with fields: (file, lean name of the list, class, methods in DEPENDENCY order, module-level functions
# dumped after the class (they may construct it and see all the dumped methods), lean name of that list)
LIST_CLASSES = [
    ('Tags.py', 'tag_collection', 'TagCollection',
     ['_hasTag', 'append', 'remove', 'all', '__iadd__', '__isub__', '__init__', '__add__', '__sub__'],
     ['uniqueTags'], 'tag_collection_funs'),
]
# special methods a LIST_CLASSES class must not define (the interpreter gives `self[:]`, `list(self)`, `self.f = v` the meaning
# they have on a plain list / a plain object)
LIST_CLASS_FORBIDDEN = ('__getitem__', '__iter__', '__len__', '__contains__', '__getattr__', '__getattribute__', '__setattr__')
# what the interpreter assumes about the elements a collection holds (PyAst: an element is its uid): (file, class, method,
# parameters, the exact statements after the docstring)
ELEMENT_METHODS = [
    ('Tags.py', 'AdvancedTag', 'getUid', ['self'], ['return self.uid']),
    ('Tags.py', 'AdvancedTag', '__eq__', ['self', 'other'],
     ['if type(other) != type(self):\n    return False', 'return self.uid == other.uid']),
]

# classes with overridden dot access: (file, lean name of the list, class, methods to dump, methods of self taken as
# parameters with (parameters, exact statements after the docstring), the class constant listing the names with plain access,
# the dumped static methods (STATIC_METHODS) callable as Class.m(...))
ATTR_CLASSES = [
    ('SpecialAttributes.py', 'style_attribute', 'StyleAttribute',
     ['isEmpty', 'setProperty', '_asStr', '__getattribute__', '__setattr__'],
     {'_ensureHtmlAttribute': (['self'],
                               ['tag = self.tag',
                                "if tag:\n    styleDict = self._styleDict\n    tagAttributes = tag._attributes\n"
                                "    if not issubclass(tagAttributes.__class__, SpecialAttributesDict):\n        return\n"
                                "    if not styleDict:\n        tagAttributes._direct_del('style')\n"
                                "    else:\n        tagAttributes._direct_set('style', self)"])},
     'RESERVED_ATTRIBUTES', ['camelCaseToDashName']),
]

# parser classes: methods of which `self` is a record of plain fields, one of them the list of open elements (`_inTag`) used
# through a second name; the items of that list are elements of which only the attributes listed are read (`l[i].tagName`:
# `Expr.elemAttr`, a parameter of the interpreter): (file, lean name of the list, class, methods to dump, attributes of items,
# library exception classes the methods raise with the base class they must have, functions of other dumped modules they call:
# name -> (module file, lean list it is dumped in), the base class whose methods may be called as `return Base.m(self, …)`
# (`Stmt.retBase`, a parameter of the interpreter) with the sibling module it must be imported from, or None)
PARSER_CLASSES = [
    ('Parser.py', 'parser', 'AdvancedHTMLParser', ['handle_endtag'], ('tagName',), {}, {}, None),
    ('Validator.py', 'validator', 'ValidatingAdvancedHTMLParser', ['handle_endtag', 'handle_starttag'], ('tagName',),
     {('exceptions', 'InvalidCloseException'): 'HTMLValidationException',
      ('exceptions', 'MissedCloseException'): 'HTMLValidationException',
      ('exceptions', 'InvalidAttributeNameException'): 'HTMLValidationException'},
     {'isValidAttributeName': ('Tags.py', 'tags')}, ('AdvancedHTMLParser', 'Parser.py')),
    ('Tags.py', 'advanced_tag', 'AdvancedTag', ['getStartTag', 'getEndTag'], (), {}, {'escapeQuotes': ('utils.py', 'utils')},
     None),
]
# PARSER_CLASSES classes that override dot access: class -> (the exact first statement `__getattribute__` must have — then
# `self.f` is the plain attribute whenever the object has one —, module constants (sets of texts) the methods may name, with
# the sibling module they are imported from: `Expr.global`, supplied by the theorems from the regenerated tables).  The dumped
# methods of such a class must not assign to `self.<name>` (`__setattr__` is not modelled).
PARSER_CLASS_DOT_ACCESS = {
    'AdvancedTag': ('try:\n    return object.__getattribute__(self, name)\nexcept:\n    pass',
                    {'TAG_ITEM_BINARY_ATTRIBUTES': 'constants.py', 'PREFORMATTED_TAGS': 'constants.py',
                     'PRESERVE_CONTENTS_TAGS': 'constants.py'}),
}
# special methods a PARSER_CLASSES class must not define (`self.f` is then the plain attribute)
PARSER_CLASS_FORBIDDEN = ('__getattr__', '__getattribute__', '__setattr__')

BUILTIN_FUNCS = ('int', 'bool', 'str', 'hasattr', 'issubclass', 'len', 'list')
# methods that change their receiver: `x.m(args)` as an expression statement on a local variable is `Stmt.varCall`
MUTATORS = ('append', 'remove', 'acquire', 'release')
BINOPS = {ast.Add: '.add', ast.Sub: '.sub', ast.Mult: '.mul'}
BUILTIN_EXC = ('BaseException', 'Exception', 'ValueError', 'TypeError', 'KeyError', 'IndexError', 'AttributeError')
LOCAL_IMPORTS = {('utils', 'tostr'): 'tostr'}

CMP = {ast.Eq: '.eq', ast.NotEq: '.ne', ast.Lt: '.lt', ast.Gt: '.gt', ast.LtE: '.le', ast.GtE: '.ge',
       ast.Is: '.is', ast.IsNot: '.isNot', ast.In: '.isIn', ast.NotIn: '.notIn'}


def generate(repo):
    """Plug-in protocol of translate_tables (`translate_<name>.generate`): nothing goes into Gen/Tables.lean."""
    return []


def _parse(text, path):
    with warnings.catch_warnings():
        warnings.simplefilter('ignore')             # SyntaxWarning of old escape sequences in the library
        return ast.parse(text, path)


class _Module(object):
    def __init__(self, repo, rel):
        self.rel = rel
        self.path = os.path.join(repo, 'AdvancedHTMLParser', rel)
        self.text = open(self.path, encoding='utf-8').read()
        self.lines = self.text.split('\n')
        self.tree = _parse(self.text, self.path)
        self.repo = repo
        self.singletons = set()        # X = C() with C a feature-less class of this module
        self.bare_classes = set()
        self.functions = []            # FunctionDef nodes in source order
        self.rebound = set()           # every name bound at module level
        self.const_tuples = {}         # X = ('a', 'b') bound once at module level -> the Tuple node
        self.imported_funcs = {}       # name -> sibling module file it is imported from (module-level `from .m import f`)
        self.imported_exc = set()      # library exception classes imported at module level
        self.int_consts = set()        # X = 10 bound once at module level
        self.classes = {}              # name -> ClassDef (top level)
        self.plain_imports = set()     # `import m` at module level
        self.from_imports = set()      # (module, level, name) of `from m import name` at module level
        self._scan()

    def fail(self, node, what):
        raise Untranslatable('%s:%s: %s' % (self.rel, getattr(node, 'lineno', '?'), what))

    def _scan(self):
        for st in self.tree.body:
            if isinstance(st, ast.ClassDef):
                self.rebound.add(st.name)
                self.classes[st.name] = st
                bare = (not st.decorator_list and not st.keywords
                        and all(isinstance(b, ast.Name) and b.id == 'object' for b in st.bases)
                        and all(isinstance(s, ast.Pass) or (isinstance(s, ast.Expr) and isinstance(s.value, ast.Constant)
                                                            and isinstance(s.value.value, str)) for s in st.body))
                if bare:
                    self.bare_classes.add(st.name)
            elif isinstance(st, ast.FunctionDef):
                self.rebound.add(st.name)
                self.functions.append(st)
            elif isinstance(st, ast.Assign):
                for t in st.targets:
                    for n in ast.walk(t):
                        if isinstance(n, ast.Name):
                            self.rebound.add(n.id)
                if len(st.targets) == 1 and isinstance(st.targets[0], ast.Name) and isinstance(st.value, ast.Call) \
                        and isinstance(st.value.func, ast.Name) and st.value.func.id in self.bare_classes \
                        and not st.value.args and not st.value.keywords:
                    self.singletons.add(st.targets[0].id)
                if len(st.targets) == 1 and isinstance(st.targets[0], ast.Name) and isinstance(st.value, ast.Tuple) \
                        and all(isinstance(e, ast.Constant) and (e.value is None or isinstance(e.value, (str, int, bool)))
                                for e in st.value.elts):
                    self.const_tuples[st.targets[0].id] = st.value
                if len(st.targets) == 1 and isinstance(st.targets[0], ast.Name) and isinstance(st.value, ast.Constant) \
                        and isinstance(st.value.value, int) and not isinstance(st.value.value, bool):
                    self.int_consts.add(st.targets[0].id)
            elif isinstance(st, (ast.Import, ast.ImportFrom)):
                for a in st.names:
                    self.rebound.add((a.asname or a.name).split('.')[0])
                if isinstance(st, ast.Import):
                    for a in st.names:
                        if a.asname is None and '.' not in a.name:
                            self.plain_imports.add(a.name)
                else:
                    for a in st.names:
                        if a.asname is None:
                            self.from_imports.add((st.module or '', st.level, a.name))
                if isinstance(st, ast.ImportFrom) and st.level == 1 and st.module:
                    for a in st.names:
                        if a.asname is None:
                            if (st.module, a.name) in LIBRARY_EXC:
                                self.imported_exc.add(a.name)
                            else:
                                self.imported_funcs[a.name] = st.module + '.py'
        # names bound anywhere below the top level (inside `if`, `for`, `try`, `with` … at module level) are rebound too
        for st in self.tree.body:
            if not isinstance(st, (ast.FunctionDef, ast.ClassDef)):
                for n in ast.walk(st):
                    if isinstance(n, ast.Name) and isinstance(n.ctx, (ast.Store, ast.Del)):
                        self.rebound.add(n.id)
                    elif isinstance(n, (ast.FunctionDef, ast.ClassDef)):
                        self.rebound.add(n.name)
                    elif isinstance(n, ast.alias):
                        self.rebound.add((n.asname or n.name).split('.')[0])
        # a singleton / constant tuple / imported name must be bound exactly once in the whole file
        counts = {}
        for st in ast.walk(self.tree):
            if isinstance(st, ast.Name) and isinstance(st.ctx, (ast.Store, ast.Del)):
                counts[st.id] = counts.get(st.id, 0) + 1
            elif isinstance(st, (ast.FunctionDef, ast.ClassDef)):
                counts[st.name] = counts.get(st.name, 0) + 1
            elif isinstance(st, ast.alias):
                nm = (st.asname or st.name).split('.')[0]
                counts[nm] = counts.get(nm, 0) + 1
            elif isinstance(st, ast.arg):
                counts[st.arg] = counts.get(st.arg, 0) + 1
        self.singletons = set(s for s in self.singletons if counts.get(s, 0) == 1)
        self.const_tuples = dict((k, v) for k, v in self.const_tuples.items() if counts.get(k, 0) == 1)
        self.imported_funcs = dict((k, v) for k, v in self.imported_funcs.items() if counts.get(k, 0) == 1)
        self.imported_exc = set(k for k in self.imported_exc if counts.get(k, 0) == 1)
        self.int_consts = set(k for k in self.int_consts if counts.get(k, 0) == 1)
        self.plain_imports = set(k for k in self.plain_imports if counts.get(k, 0) == 1)
        self.from_imports = set(k for k in self.from_imports if counts.get(k[2], 0) == 1)

    def check_whole_module(self):
        """Every module-level statement is one we understand (used when the whole file is claimed)."""
        for st in self.tree.body:
            if isinstance(st, ast.Expr) and isinstance(st.value, ast.Constant) and isinstance(st.value.value, str):
                continue
            if isinstance(st, ast.FunctionDef):
                continue
            if isinstance(st, ast.ClassDef) and st.name in self.bare_classes:
                continue
            if isinstance(st, ast.Assign) and len(st.targets) == 1 and isinstance(st.targets[0], ast.Name):
                name = st.targets[0].id
                if name in self.singletons:
                    continue
                if name == '__all__':
                    continue
            self.fail(st, 'module-level statement outside the subset (%s)' % type(st).__name__)
        names = [f.name for f in self.functions]
        if len(set(names)) != len(names):
            self.fail(self.tree.body[0], 'a function is defined twice')


def _check_library_exc(repo, module, name):
    """The class must exist in the sibling module with exactly the base class the interpreter assumes."""
    p = os.path.join(repo, 'AdvancedHTMLParser', module + '.py')
    tree = _parse(open(p, encoding='utf-8').read(), p)
    want = LIBRARY_EXC[(module, name)]
    for st in tree.body:
        if isinstance(st, ast.ClassDef) and st.name == name:
            if len(st.bases) == 1 and isinstance(st.bases[0], ast.Name) and st.bases[0].id == want and not st.keywords:
                return
            raise Untranslatable('%s.py:%d: %s is not a direct subclass of %s' % (module, st.lineno, name, want))
    raise Untranslatable('%s.py: no class %s' % (module, name))


def _check_tostr(repo):
    """utils.tostr (py3 branch) must be `def tostr(value): return str(value)`."""
    p = os.path.join(repo, 'AdvancedHTMLParser', 'utils.py')
    tree = _parse(open(p, encoding='utf-8').read(), p)
    found = []
    for n in ast.walk(tree):
        if isinstance(n, ast.FunctionDef) and n.name == 'tostr':
            found.append(n)
    ok = False
    for n in found:
        body = [s for s in n.body if not (isinstance(s, ast.Expr) and isinstance(s.value, ast.Constant))]
        if len(n.args.args) == 1 and len(body) == 1 and isinstance(body[0], ast.Return) \
                and isinstance(body[0].value, ast.Call) and isinstance(body[0].value.func, ast.Name) \
                and body[0].value.func.id == 'str' and len(body[0].value.args) == 1 and not body[0].value.keywords \
                and isinstance(body[0].value.args[0], ast.Name) and body[0].value.args[0].id == n.args.args[0].arg:
            ok = True
    if not ok:
        raise Untranslatable('utils.py: tostr is not `def tostr(value): return str(value)`')
    # the py3 definition must be the one in the `else` of `if sys.version_info.major < 3`
    for st in tree.body:
        if isinstance(st, ast.If) and any(isinstance(s, ast.FunctionDef) and s.name == 'tostr' for s in st.orelse):
            t = st.test
            if isinstance(t, ast.Compare) and len(t.ops) == 1 and isinstance(t.ops[0], ast.Lt) \
                    and isinstance(t.comparators[0], ast.Constant) and t.comparators[0].value == 3 \
                    and ast.unparse(t.left) == 'sys.version_info.major':
                return
    raise Untranslatable('utils.py: the py3 definition of tostr is not where it was')


class _FunTranslator(object):
    def __init__(self, mod, fn, earlier, prims=None, lean_name=None, static=False, cls=None, acls=None, pcls=None):
        self.mod = mod
        self.fn = fn
        self.earlier = earlier          # names of the module functions defined before this one
        self.prims = prims              # None: a plain function; else the static methods callable as self.m(...)
        # a class of LIST_CLASSES: {'name', 'methods' (every def of the class), 'callable' (the dumped methods this function
        # may refer to)}; `prims` not None: `fn` is a method of it, None: a module-level function that constructs it
        self.cls = cls
        # a class of ATTR_CLASSES: {'name', 'reserved' (names with plain dot access), 'consts' (class-level constant tuples:
        # name -> Tuple node), 'statics' (dumped static methods callable as Class.m)}
        self.acls = acls
        # a class of PARSER_CLASSES: {'name', 'elem_attrs' (attributes read from items of a list of elements), 'exc' (library
        # exception classes that may be named)}
        self.pcls = pcls
        self.aliases = {}               # local variable -> field of self it is a second name of
        self.comp_vars = set()          # variables of comprehensions
        self.lean_name = lean_name or (fn.name + '_ast')
        a = fn.args
        if a.vararg or a.kwarg or a.kwonlyargs or getattr(a, 'posonlyargs', []) or a.kw_defaults:
            mod.fail(fn, 'parameter kinds outside the subset')
        if static:
            if [ast.unparse(d) for d in fn.decorator_list] != ['staticmethod']:
                mod.fail(fn, 'not a plain @staticmethod')
        elif fn.decorator_list:
            mod.fail(fn, 'decorator')
        self.params = [p.arg for p in a.args]
        self.locals = set(self.params)
        self.imported = {}
        self.callees = set(id(n.func) for n in ast.walk(fn) if isinstance(n, ast.Call))
        for n in ast.walk(fn):
            if isinstance(n, (ast.FunctionDef, ast.Lambda, ast.ClassDef)) and n is not fn:
                mod.fail(n, 'nested definition')
            if isinstance(n, (ast.Global, ast.Nonlocal)):
                mod.fail(n, 'global / nonlocal')
            if isinstance(n, ast.Name) and isinstance(n.ctx, ast.Store):
                self.locals.add(n.id)
            if isinstance(n, ast.ImportFrom):
                for al in n.names:
                    key = ((n.module or ''), al.name)
                    if n.level != 1 or al.asname or key not in LOCAL_IMPORTS:
                        mod.fail(n, 'local import of %s' % al.name)
                    self.imported[al.name] = LOCAL_IMPORTS[key]
        clash = self.locals & set(self.imported)
        if clash:
            mod.fail(fn, 'an imported name is also assigned: %s' % sorted(clash))
        self.self_name = None
        if prims is not None:
            if not self.params:
                mod.fail(fn, 'a method without parameters')
            self.self_name = self.params[0]
            ok_uses = set()
            for n in ast.walk(fn):
                if isinstance(n, ast.Attribute) and isinstance(n.value, ast.Name) and n.value.id == self.self_name:
                    ok_uses.add(id(n.value))
                if acls is not None:
                    # object.__getattribute__(self, n) / object.__setattr__(self, n, v)
                    if isinstance(n, ast.Call) and self.object_call(n) is not None:
                        ok_uses.add(id(n.args[0]))
                if pcls is not None and isinstance(n, ast.Return) and self.base_meth_call(n.value, pcls) is not None:
                    ok_uses.add(id(n.value.args[0]))
                if cls is not None:
                    # the list the object IS: `list.m(self, …)` as a statement, `self[:]`, `list(self)`; and `return self`
                    if isinstance(n, ast.Expr) and self.base_call(n.value) is not None:
                        ok_uses.add(id(n.value.args[0]))
                    if isinstance(n, ast.Subscript) and isinstance(n.value, ast.Name) and isinstance(n.slice, ast.Slice) \
                            and n.slice.lower is None and n.slice.upper is None and n.slice.step is None:
                        ok_uses.add(id(n.value))
                    if isinstance(n, ast.Call) and isinstance(n.func, ast.Name) and n.func.id == 'list' \
                            and 'list' not in self.locals and 'list' not in mod.rebound and len(n.args) == 1 \
                            and not n.keywords and isinstance(n.args[0], ast.Name):
                        ok_uses.add(id(n.args[0]))
                    if isinstance(n, ast.Return) and isinstance(n.value, ast.Name):
                        ok_uses.add(id(n.value))
            for n in ast.walk(fn):
                if isinstance(n, ast.Name) and n.id == self.self_name:
                    if not isinstance(n.ctx, ast.Load) or id(n) not in ok_uses:
                        mod.fail(n, '%s used otherwise than as %s.<name>' % (self.self_name, self.self_name))
        # `except T as name`: the name lives in that handler only
        for n in ast.walk(fn):
            if isinstance(n, ast.ExceptHandler) and n.name is not None:
                inside = sum(1 for b in n.body for m in ast.walk(b) if isinstance(m, ast.Name) and m.id == n.name)
                total = sum(1 for m in ast.walk(fn) if isinstance(m, ast.Name) and m.id == n.name)
                if inside != total or n.name in self.params:
                    mod.fail(n, 'the name of `except … as %s` is used outside the handler' % n.name)
                self.locals.add(n.name)
        if 'tostr' in self.imported.values():
            _check_tostr(mod.repo)
        if pcls is not None:
            self.find_aliases()
        if acls is not None:
            self.find_aliases()
            for n in ast.walk(fn):
                f = self.self_field(n)
                if f is not None and f not in acls['reserved']:
                    mod.fail(n, '%s.%s is not in %s: no plain attribute' % (self.self_name, f, acls['reserved_name']))
        # a variable whose bound method is taken (`hasTag = ret._hasTag`) is named by that value: it must be bound exactly
        # once (a parameter, or one plain assignment) and never be a loop / handler variable
        if cls is not None:
            for n in ast.walk(fn):
                if self.bound_method(n) is not None:
                    x = n.value.id
                    stores = [m for m in ast.walk(fn) if isinstance(m, ast.Name) and m.id == x and not isinstance(m.ctx, ast.Load)]
                    plain = [m for m in ast.walk(fn) if isinstance(m, ast.Assign) and len(m.targets) == 1
                             and isinstance(m.targets[0], ast.Name) and m.targets[0].id == x]
                    ok = (x in self.params and not stores) or \
                         (x not in self.params and len(stores) == 1 and len(plain) == 1 and plain[0] in fn.body
                          and plain[0].lineno < n.lineno)
                    if not ok:
                        mod.fail(n, 'bound method of %s, which is not bound exactly once at the top of the function' % x)

    def fail(self, node, what):
        self.mod.fail(node, what)

    def object_call(self, n):
        """`object.__getattribute__(self, e)` / `object.__setattr__(self, e, v)` -> the method name; anything else -> None"""
        f = n.func
        if self.acls is not None and isinstance(f, ast.Attribute) and isinstance(f.value, ast.Name) and f.value.id == 'object' \
                and 'object' not in self.locals and 'object' not in self.mod.rebound \
                and f.attr in ('__getattribute__', '__setattr__') and not n.keywords \
                and len(n.args) == (2 if f.attr == '__getattribute__' else 3) \
                and isinstance(n.args[0], ast.Name) and n.args[0].id == self.self_name \
                and not any(isinstance(a, ast.Starred) for a in n.args):
            return f.attr
        return None

    def find_aliases(self):
        """`x = self.f` at the top level of the body, x bound nowhere else, self.f never assigned: x is a second name of
        the object in self.f"""
        fn = self.fn
        places = list(fn.body)
        if self.pcls is not None:
            # also directly inside a `try:` at the top level (the body of `handle_endtag`): run at most once, and a read of
            # the name before it is bound is an UnboundLocalError in the interpreter as in Python
            for st in fn.body:
                if isinstance(st, ast.Try):
                    places += list(st.body)
        for st in places:
            if isinstance(st, ast.Assign) and len(st.targets) == 1 and isinstance(st.targets[0], ast.Name) \
                    and self.self_field(st.value) is not None:
                x = st.targets[0].id
                f = self.self_field(st.value)
                stores = [m for m in ast.walk(fn) if isinstance(m, ast.Name) and m.id == x and not isinstance(m.ctx, ast.Load)]
                fstores = [m for m in ast.walk(fn) if isinstance(m, ast.Attribute) and not isinstance(m.ctx, ast.Load)
                           and self.self_field(m) == f]
                early = [m for m in ast.walk(fn) if isinstance(m, ast.Name) and m.id == x and m.lineno < st.lineno]
                if len(stores) == 1 and x not in self.params and not fstores and not early:
                    self.aliases[x] = f
        # comprehension variables: bound by exactly one comprehension and nowhere else
        for n in ast.walk(fn):
            if isinstance(n, ast.ListComp):
                for g in n.generators:
                    for t in ast.walk(g.target):
                        if isinstance(t, ast.Name):
                            stores = [m for m in ast.walk(fn) if isinstance(m, ast.Name) and m.id == t.id
                                      and not isinstance(m.ctx, ast.Load)]
                            inside = [m for m in ast.walk(n) if isinstance(m, ast.Name) and m.id == t.id]
                            total = [m for m in ast.walk(fn) if isinstance(m, ast.Name) and m.id == t.id]
                            if len(stores) != 1 or t.id in self.params or len(inside) != len(total):
                                self.fail(n, 'the comprehension variable %s is used elsewhere in the function' % t.id)
                            self.comp_vars.add(t.id)

    def base_call(self, v):
        """`list.m(self, args…)` -> (m, args) for a method of a LIST_CLASSES class; anything else -> None"""
        if self.cls is None or self.self_name is None or not isinstance(v, ast.Call):
            return None
        f = v.func
        if isinstance(f, ast.Attribute) and isinstance(f.value, ast.Name) and f.value.id == 'list' \
                and 'list' not in self.locals and 'list' not in self.mod.rebound and v.args \
                and isinstance(v.args[0], ast.Name) and v.args[0].id == self.self_name and not v.keywords \
                and not any(isinstance(a, ast.Starred) for a in v.args):
            return f.attr, v.args[1:]
        return None

    def base_meth_call(self, v, pcls=None):
        """`Base.m(self, args…)` for the base class of a PARSER_CLASSES class -> (m, args); anything else -> None"""
        pcls = pcls or self.pcls
        if pcls is None or pcls.get('base') is None or not isinstance(v, ast.Call):
            return None
        f = v.func
        if isinstance(f, ast.Attribute) and isinstance(f.value, ast.Name) and f.value.id == pcls['base'] \
                and f.value.id not in self.locals and v.args and isinstance(v.args[0], ast.Name) \
                and v.args[0].id == self.params[0] and not v.keywords \
                and not any(isinstance(a, ast.Starred) for a in v.args):
            return f.attr, v.args[1:]
        return None

    def bound_method(self, n):
        """`x.m` as a VALUE, x a local variable and m a def of the class -> m; anything else -> None.  (The callee of a call
        is not a value: the caller asks before descending.)"""
        if self.cls is None or not isinstance(n, ast.Attribute) or not isinstance(n.ctx, ast.Load):
            return None
        if isinstance(n.value, ast.Name) and n.value.id in self.locals and n.attr in self.cls['methods'] \
                and id(n) not in self.callees:
            return n.attr
        return None

    def self_field(self, n):
        """`self.f` -> 'f', anything else -> None"""
        if self.self_name is not None and isinstance(n, ast.Attribute) and isinstance(n.value, ast.Name) \
                and n.value.id == self.self_name:
            return n.attr
        return None

    # ---- expressions -----------------------------------------------------------------------
    def const(self, n):
        v = n.value
        if v is None:
            return '(.const .none)'
        if isinstance(v, bool):
            return '(.const (.bool %s))' % ('true' if v else 'false')
        if isinstance(v, int):
            return '(.const (.int (%d)))' % v
        if isinstance(v, str):
            return '(.const (.str %s))' % lean_str(v)
        self.fail(n, 'constant of type %s' % type(v).__name__)

    def expr(self, n, module_scope=False):
        if isinstance(n, ast.Constant):
            return self.const(n)
        if isinstance(n, ast.UnaryOp) and isinstance(n.op, ast.USub) and isinstance(n.operand, ast.Constant) \
                and isinstance(n.operand.value, int) and not isinstance(n.operand.value, bool):
            return '(.const (.int (%d)))' % (-n.operand.value)
        if isinstance(n, ast.UnaryOp) and isinstance(n.op, ast.Not):
            return '(.not %s)' % self.expr(n.operand, module_scope)
        if isinstance(n, ast.Name):
            if not isinstance(n.ctx, ast.Load):
                self.fail(n, 'name in a store context')
            if not module_scope and n.id in self.aliases:
                return '(.avar %s)' % lean_str(n.id)
            if not module_scope and n.id in self.locals:
                return '(.var %s)' % lean_str(n.id)
            if not module_scope and n.id in self.comp_vars:
                return '(.var %s)' % lean_str(n.id)
            if n.id in self.imported:
                self.fail(n, 'imported function %s used as a value' % n.id)
            if n.id in self.mod.singletons:
                return '(.singleton %s)' % lean_str(n.id)
            if n.id in BUILTIN_EXC and n.id not in self.mod.rebound:
                return '(.excClass %s)' % lean_str(n.id)
            if n.id in self.mod.imported_exc:
                for (m, c) in LIBRARY_EXC:
                    if c == n.id:
                        _check_library_exc(self.mod.repo, m, c)
                return '(.excClass %s)' % lean_str(n.id)
            if self.pcls is not None and n.id in self.pcls['exc']:
                return '(.excClass %s)' % lean_str(n.id)
            if n.id in self.mod.const_tuples:
                return self.expr(self.mod.const_tuples[n.id], module_scope=True)
            if n.id in self.mod.int_consts:
                return '(.global %s)' % lean_str(n.id)
            if self.pcls is not None and n.id in self.pcls.get('consts', {}) and n.id not in self.locals:
                return '(.global %s)' % lean_str(n.id)
            self.fail(n, 'name %s is neither local, a module singleton / constant (tuple) nor an exception class' % n.id)
        if isinstance(n, ast.List) and isinstance(n.ctx, ast.Load) and not n.elts:
            return '.newList'
        if self.acls is not None and isinstance(n, ast.ListComp):
            g = n.generators[0] if len(n.generators) == 1 else None
            if g is None or g.ifs or g.is_async or not isinstance(g.target, ast.Tuple) or len(g.target.elts) != 2 \
                    or not all(isinstance(t, ast.Name) for t in g.target.elts) \
                    or g.target.elts[0].id == g.target.elts[1].id \
                    or not (isinstance(g.iter, ast.Call) and isinstance(g.iter.func, ast.Attribute)
                            and g.iter.func.attr == 'items' and not g.iter.args and not g.iter.keywords):
                self.fail(n, 'comprehension other than [e for a, b in d.items()]')
            return '(.compItems %s %s %s %s)' % (lean_str(g.target.elts[0].id), lean_str(g.target.elts[1].id),
                                                 self.expr(n.elt, module_scope), self.expr(g.iter.func.value, module_scope))
        if self.pcls is not None and isinstance(n, ast.Call) and isinstance(n.func, ast.Name) and n.func.id == 'isinstance' \
                and 'isinstance' not in self.mod.rebound and 'isinstance' not in self.locals and not n.keywords \
                and len(n.args) == 2 and isinstance(n.args[1], ast.Name) and n.args[1].id == self.pcls['name'] \
                and n.args[1].id not in self.locals and not isinstance(n.args[0], ast.Starred):
            # isinstance(x, C) with C the class being dumped
            return '(.isInstance %s %s)' % (self.expr(n.args[0], module_scope), lean_str(n.args[1].id))
        if self.pcls is not None and isinstance(n, ast.ListComp):
            g = n.generators[0] if len(n.generators) == 1 else None
            if g is None or g.ifs or g.is_async or not isinstance(g.target, ast.Name):
                self.fail(n, 'comprehension other than [e for x in l]')
            return '(.compFor %s %s %s)' % (lean_str(g.target.id), self.expr(n.elt, module_scope), self.expr(g.iter, module_scope))
        if self.pcls is not None and isinstance(n, ast.Attribute) and isinstance(n.ctx, ast.Load) \
                and isinstance(n.value, ast.Subscript) and not isinstance(n.value.slice, (ast.Slice, ast.Tuple)) \
                and isinstance(n.value.value, ast.Name) and n.value.value.id in self.aliases and id(n) not in self.callees:
            # an attribute of an item of the list of elements
            if n.attr not in self.pcls['elem_attrs']:
                self.fail(n, 'attribute %s of an element' % n.attr)
            return '(.elemAttr %s %s)' % (self.expr(n.value, module_scope), lean_str(n.attr))
        if self.acls is not None and isinstance(n, ast.Call) and self.object_call(n) == '__getattribute__':
            return '(.objAttr %s %s)' % (lean_str(self.self_name), self.expr(n.args[1], module_scope))
        if self.acls is not None and isinstance(n, ast.Call) and self.object_call(n) == '__setattr__':
            return '(.outside "object.__setattr__")'
        if self.acls is not None and isinstance(n, ast.Attribute) and isinstance(n.ctx, ast.Load) \
                and isinstance(n.value, ast.Name) and n.value.id == self.acls['name'] and n.value.id not in self.locals \
                and n.attr in self.acls['consts'] and id(n) not in self.callees:
            return self.expr(self.acls['consts'][n.attr], module_scope=True)
        if self.acls is not None and isinstance(n, ast.Call) and isinstance(n.func, ast.Attribute) \
                and isinstance(n.func.value, ast.Name) and n.func.value.id == self.acls['name'] \
                and n.func.value.id not in self.locals and n.func.attr in self.acls['statics']:
            if n.keywords or any(isinstance(a, ast.Starred) for a in n.args):
                self.fail(n, 'keyword / starred arguments')
            return '(.call %s [%s])' % (lean_str(n.func.attr), ', '.join(self.expr(a, module_scope) for a in n.args))
        if self.cls is not None and isinstance(n, ast.Call) and isinstance(n.func, ast.Name) and n.func.id == 'set' \
                and not n.args and not n.keywords and 'set' not in self.locals and 'set' not in self.mod.rebound:
            return '.newSet'
        if self.cls is not None and isinstance(n, ast.Call) and isinstance(n.func, ast.Name) \
                and n.func.id == self.cls['name'] and n.func.id not in self.locals:
            if n.keywords or any(isinstance(a, ast.Starred) for a in n.args):
                self.fail(n, 'keyword / starred arguments of the constructor')
            if '__init__' not in self.cls['callable']:
                self.fail(n, 'the constructor is used before __init__ in the dependency order of the dump')
            return '(.construct %s [%s])' % (lean_str(n.func.id), ', '.join(self.expr(a, module_scope) for a in n.args))
        if self.bound_method(n) is not None:
            if n.attr not in self.cls['callable']:
                self.fail(n, 'the method %s is not dumped before this one (dependency order)' % n.attr)
            return '(.boundMeth %s %s)' % (lean_str(n.value.id), lean_str(n.attr))
        if isinstance(n, ast.Dict) and not n.keys:
            return '.newDict'
        if self.pcls is not None and isinstance(n, ast.BinOp) and isinstance(n.op, ast.Mod) \
                and isinstance(n.left, ast.Constant) and isinstance(n.left.value, str):
            # 'literal' % (a, b)  /  'literal' % a   (a parenthesised single value is that value; a tuple VALUE as the single
            # argument would be spread by Python: only syntactic tuples and non-tuple expressions are accepted)
            if isinstance(n.right, ast.Tuple):
                args = n.right.elts
            elif isinstance(n.right, (ast.Name, ast.Attribute, ast.Constant)):
                self.fail(n, 'format with a single argument that could be a tuple')
            else:
                self.fail(n, 'format argument')
            if any(isinstance(a, ast.Starred) for a in args):
                self.fail(n, 'starred format argument')
            return '(.format %s [%s])' % (lean_str(n.left.value) + '.toList', ', '.join(self.expr(a, module_scope) for a in args))
        if isinstance(n, ast.BinOp):
            op = BINOPS.get(type(n.op))
            if op is None:
                self.fail(n, 'binary operator')
            return '(.binop %s %s %s)' % (op, self.expr(n.left, module_scope), self.expr(n.right, module_scope))
        if isinstance(n, ast.Subscript):
            if not isinstance(n.ctx, ast.Load):
                self.fail(n, 'subscript in a store context')
            sl = n.slice
            if isinstance(sl, ast.Slice):
                if sl.step is not None:
                    self.fail(n, 'slice with a step')
                if sl.lower is None and sl.upper is not None:
                    return '(.sliceTo %s %s)' % (self.expr(n.value, module_scope), self.expr(sl.upper, module_scope))
                if sl.lower is not None and sl.upper is None:
                    return '(.sliceFrom %s %s)' % (self.expr(n.value, module_scope), self.expr(sl.lower, module_scope))
                if sl.lower is None and sl.upper is None and self.cls is not None:
                    return '(.sliceAll %s)' % self.expr(n.value, module_scope)
                self.fail(n, 'slice with both or no bounds')
            if isinstance(sl, ast.Tuple):
                self.fail(n, 'tuple subscript')
            return '(.index %s %s)' % (self.expr(n.value, module_scope), self.expr(sl, module_scope))
        if isinstance(n, ast.Tuple):
            if not isinstance(n.ctx, ast.Load):
                self.fail(n, 'tuple target')
            return '(.tuple [%s])' % ', '.join(self.expr(e, module_scope) for e in n.elts)
        if isinstance(n, ast.Compare):
            if len(n.ops) != 1:
                self.fail(n, 'chained comparison')
            op = CMP.get(type(n.ops[0]))
            if op is None:
                self.fail(n, 'comparison operator')
            return '(.cmp %s %s %s)' % (op, self.expr(n.left, module_scope), self.expr(n.comparators[0], module_scope))
        if isinstance(n, ast.BoolOp):
            ctor = '.and' if isinstance(n.op, ast.And) else '.or'
            parts = [self.expr(v, module_scope) for v in n.values]
            out = parts[-1]
            for p in reversed(parts[:-1]):
                out = '(%s %s %s)' % (ctor, p, out)
            return out
        if isinstance(n, ast.Call) and n.keywords:
            for a in n.args:
                if isinstance(a, ast.Starred):
                    self.fail(n, 'starred argument')
            f = n.func
            if not (isinstance(f, ast.Name) and (module_scope or f.id not in self.locals) and f.id in self.earlier):
                self.fail(n, 'keyword arguments in a call of something else than a function of the module')
            names = []
            for k in n.keywords:
                if k.arg is None or k.arg in names:
                    self.fail(n, '** argument / repeated keyword')
                names.append(k.arg)
            return '(.callk %s [%s] [%s] [%s])' % (
                lean_str(f.id), ', '.join(self.expr(a, module_scope) for a in n.args),
                ', '.join(lean_str(k) for k in names), ', '.join(self.expr(k.value, module_scope) for k in n.keywords))
        if isinstance(n, ast.Call):
            for a in n.args:
                if isinstance(a, ast.Starred):
                    self.fail(n, 'starred argument')
            args = '[%s]' % ', '.join(self.expr(a, module_scope) for a in n.args)
            f = n.func
            if isinstance(f, ast.Name) and f.id == 'OrderedDict' and not n.args and f.id not in self.locals \
                    and ('collections', 0, 'OrderedDict') in self.mod.from_imports:
                return '.newDict'
            if isinstance(f, ast.Name):
                if not module_scope and f.id in self.locals:
                    return '(.callv (.var %s) %s)' % (lean_str(f.id), args)
                if self.pcls is not None and f.id == 'tostr' and self.mod.imported_funcs.get('tostr') == 'utils.py':
                    _check_tostr(self.mod.repo)
                    return '(.call "tostr" %s)' % args
                if self.pcls is not None and f.id in self.pcls['exc']:
                    # instantiating a library exception class (its `__init__` is taken to return normally: PyAst.callValue)
                    return '(.callv (.excClass %s) %s)' % (lean_str(f.id), args)
                if f.id in self.imported:
                    return '(.call %s %s)' % (lean_str(self.imported[f.id]), args)
                if f.id in self.earlier:
                    return '(.call %s %s)' % (lean_str(f.id), args)
                if f.id in BUILTIN_FUNCS and f.id not in self.mod.rebound:
                    return '(.call %s %s)' % (lean_str(f.id), args)
                if f.id in self.mod.rebound:
                    self.fail(n, 'call of %s, which is not defined earlier in the module as a function' % f.id)
                self.fail(n, 'call of unknown function %s' % f.id)
            if isinstance(f, ast.Attribute):
                if isinstance(f.value, ast.Name) and f.value.id == 'threading' and f.attr == 'Lock' and not n.args \
                        and 'threading' in self.mod.plain_imports and 'threading' not in self.locals:
                    return '.newLock'
                if self.self_name is not None and isinstance(f.value, ast.Name) and f.value.id == self.self_name:
                    if f.attr not in self.prims:
                        self.fail(n, 'call of the method %s, which is not a checked static primitive' % f.attr)
                    return '(.meth (.var %s) %s %s)' % (lean_str(self.self_name), lean_str(f.attr), args)
                return '(.meth %s %s %s)' % (self.expr(f.value, module_scope), lean_str(f.attr), args)
            return '(.callv %s %s)' % (self.expr(f, module_scope), args)
        if isinstance(n, ast.Attribute):
            if not isinstance(n.ctx, ast.Load):
                self.fail(n, 'attribute assignment')
            return '(.attr %s %s)' % (self.expr(n.value, module_scope), lean_str(n.attr))
        self.fail(n, 'expression %s' % type(n).__name__)

    # ---- statements ---------------------------------------------------------------------------
    def src(self, n):
        return self.mod.lines[n.lineno - 1].strip()

    def block(self, body, ind):
        """list of Lean lines for `[ … ]` contents (without the brackets)."""
        items = []
        for st in body:
            t = self.stmt(st, ind)
            if t is not None:
                items.append(t)
        out = []
        for i, (comment, lines) in enumerate(items):
            out.append('%s-- %s' % (' ' * ind, comment))
            if i + 1 < len(items):
                lines = lines[:-1] + [lines[-1] + ',']
            out.extend(lines)
        return out

    def stmt(self, st, ind):
        pad = ' ' * ind
        comment = '%s:%d: %s' % (self.mod.rel, st.lineno, self.src(st))
        if isinstance(st, ast.Expr):
            if isinstance(st.value, ast.Constant) and isinstance(st.value.value, str):
                return None                                     # docstring
            v = st.value
            if isinstance(v, ast.Call) and isinstance(v.func, ast.Attribute) and self.self_field(v.func.value) is not None:
                if v.keywords or any(isinstance(a, ast.Starred) for a in v.args):
                    self.fail(st, 'keyword / starred arguments')
                return comment, ['%s.fieldCall %s %s %s [%s]' % (
                    pad, lean_str(self.self_name), lean_str(self.self_field(v.func.value)), lean_str(v.func.attr),
                    ', '.join(self.expr(a) for a in v.args))]
            if self.base_call(v) is not None:
                m, rest = self.base_call(v)
                return comment, ['%s.baseCall %s %s [%s]' % (pad, lean_str(self.self_name), lean_str(m),
                                                            ', '.join(self.expr(a) for a in rest))]
            if self.cls is not None and isinstance(v, ast.Call) and isinstance(v.func, ast.Attribute) \
                    and isinstance(v.func.value, ast.Name) and v.func.value.id in self.locals \
                    and v.func.attr in self.cls['methods']:
                # a method of the class on a local variable (or `self`): the interpreter dispatches on what the variable
                # holds (an object of the class: the dumped method; a plain list: the list's own `append` / `remove`)
                if v.keywords or any(isinstance(a, ast.Starred) for a in v.args):
                    self.fail(st, 'keyword / starred arguments')
                if v.func.value.id == self.self_name and v.func.attr not in self.cls['callable']:
                    self.fail(st, 'the method %s is not dumped before this one (dependency order)' % v.func.attr)
                return comment, ['%s.varCall %s %s [%s]' % (pad, lean_str(v.func.value.id), lean_str(v.func.attr),
                                                           ', '.join(self.expr(a) for a in v.args))]
            if self.pcls is not None and isinstance(v, ast.Call) and isinstance(v.func, ast.Attribute) \
                    and isinstance(v.func.value, ast.Name) and v.func.value.id in self.aliases and v.func.attr == 'pop' \
                    and not v.args and not v.keywords:
                return comment, ['%s.refCall %s %s []' % (pad, lean_str(v.func.value.id), lean_str(v.func.attr))]
            if isinstance(v, ast.Call) and isinstance(v.func, ast.Attribute) and isinstance(v.func.value, ast.Name) \
                    and v.func.value.id in self.aliases:
                self.fail(st, 'statement method of an aliased field')
            if isinstance(v, ast.Call) and isinstance(v.func, ast.Attribute) and isinstance(v.func.value, ast.Name) \
                    and v.func.value.id in self.locals and v.func.value.id != self.self_name and v.func.attr in MUTATORS:
                if v.keywords or any(isinstance(a, ast.Starred) for a in v.args):
                    self.fail(st, 'keyword / starred arguments')
                return comment, ['%s.varCall %s %s [%s]' % (pad, lean_str(v.func.value.id), lean_str(v.func.attr),
                                                           ', '.join(self.expr(a) for a in v.args))]
            return comment, ['%s.expr %s' % (pad, self.expr(st.value))]
        if isinstance(st, ast.ImportFrom):
            return None                                         # checked in __init__
        if isinstance(st, ast.Pass):
            return comment, ['%s.pass' % pad]
        if isinstance(st, ast.Assign) and len(st.targets) == 1 and isinstance(st.targets[0], ast.Name) \
                and st.targets[0].id in self.aliases:
            return comment, ['%s.alias %s %s %s' % (pad, lean_str(st.targets[0].id), lean_str(self.self_name),
                                                   lean_str(self.aliases[st.targets[0].id]))]
        if isinstance(st, ast.Assign) and len(st.targets) == 1 and isinstance(st.targets[0], ast.Subscript) \
                and isinstance(st.targets[0].value, ast.Name) and st.targets[0].value.id in self.aliases:
            t = st.targets[0]
            if isinstance(t.slice, (ast.Slice, ast.Tuple)):
                self.fail(st, 'slice / tuple assignment')
            return comment, ['%s.setItemRef %s %s %s' % (pad, lean_str(t.value.id), self.expr(t.slice), self.expr(st.value))]
        if isinstance(st, ast.Delete) and len(st.targets) == 1 and isinstance(st.targets[0], ast.Subscript) \
                and isinstance(st.targets[0].value, ast.Name) and st.targets[0].value.id in self.aliases \
                and not isinstance(st.targets[0].slice, (ast.Slice, ast.Tuple)):
            t = st.targets[0]
            return comment, ['%s.delItemRef %s %s' % (pad, lean_str(t.value.id), self.expr(t.slice))]
        if isinstance(st, ast.Assign) and len(st.targets) == 1 and self.self_field(st.targets[0]) is not None:
            return comment, ['%s.setAttr %s %s %s' % (pad, lean_str(self.self_name), lean_str(self.self_field(st.targets[0])),
                                                     self.expr(st.value))]
        if isinstance(st, ast.Assign) and len(st.targets) == 1 and isinstance(st.targets[0], ast.Subscript) \
                and self.self_field(st.targets[0].value) is not None:
            t = st.targets[0]
            if isinstance(t.slice, (ast.Slice, ast.Tuple)):
                self.fail(st, 'slice / tuple assignment')
            return comment, ['%s.setItem %s %s %s %s' % (pad, lean_str(self.self_name), lean_str(self.self_field(t.value)),
                                                        self.expr(t.slice), self.expr(st.value))]
        if isinstance(st, ast.Assign) and len(st.targets) == 1 and isinstance(st.targets[0], ast.Subscript) \
                and isinstance(st.targets[0].value, ast.Name) and st.targets[0].value.id in self.locals \
                and st.targets[0].value.id != self.self_name:
            t = st.targets[0]
            if isinstance(t.slice, (ast.Slice, ast.Tuple)):
                self.fail(st, 'slice / tuple assignment')
            return comment, ['%s.setItemVar %s %s %s' % (pad, lean_str(t.value.id), self.expr(t.slice), self.expr(st.value))]
        if isinstance(st, ast.Delete):
            if len(st.targets) != 1 or not isinstance(st.targets[0], ast.Subscript) \
                    or self.self_field(st.targets[0].value) is None or isinstance(st.targets[0].slice, (ast.Slice, ast.Tuple)):
                self.fail(st, 'del of something else than self.<field>[key]')
            t = st.targets[0]
            return comment, ['%s.delItem %s %s %s' % (pad, lean_str(self.self_name), lean_str(self.self_field(t.value)),
                                                     self.expr(t.slice))]
        if isinstance(st, ast.Break):
            return comment, ['%s.brk' % pad]
        if isinstance(st, ast.Continue):
            return comment, ['%s.cont' % pad]
        if isinstance(st, ast.While):
            if st.orelse:
                self.fail(st, 'while/else')
            lines = ['%s.whileS %s [' % (pad, self.expr(st.test))]
            lines += self.block(st.body, ind + 2)
            lines.append('%s]' % pad)
            return comment, lines
        if self.pcls is not None and isinstance(st, ast.For) and isinstance(st.target, ast.Tuple):
            # `for (a, b) in x:` over a local variable holding a list of 2-tuples
            t = st.target
            it = st.iter
            items_of_field = (isinstance(it, ast.Call) and isinstance(it.func, ast.Attribute) and it.func.attr == 'items'
                              and not it.args and not it.keywords and self.self_field(it.func.value) is not None)
            if st.orelse or len(t.elts) != 2 or not all(isinstance(e, ast.Name) for e in t.elts) \
                    or t.elts[0].id == t.elts[1].id \
                    or any(e.id in self.aliases or e.id == self.self_name for e in t.elts):
                self.fail(st, 'for with a tuple target other than two plain names')
            if not items_of_field and (not isinstance(it, ast.Name) or it.id not in self.locals or it.id in self.aliases
                                       or it.id == self.self_name or any(e.id == it.id for e in t.elts)):
                self.fail(st, 'for with a tuple target over something else than a local variable or self.<field>.items()')
            lines = ['%s.forPair %s %s %s [' % (pad, lean_str(t.elts[0].id), lean_str(t.elts[1].id), self.expr(st.iter))]
            lines += self.block(st.body, ind + 2)
            lines.append('%s]' % pad)
            return comment, lines
        if isinstance(st, ast.For):
            if st.orelse or not isinstance(st.target, ast.Name):
                self.fail(st, 'for/else, loop target')
            it = st.iter
            if self.pcls is not None and isinstance(it, ast.Call) and isinstance(it.func, ast.Name) and it.func.id == 'range' \
                    and 'range' not in self.locals and 'range' not in self.mod.rebound and len(it.args) == 1 \
                    and not it.keywords and not isinstance(it.args[0], ast.Starred):
                # `range(n)` exists as the iterable of a `for` only (the interpreter makes it the tuple of the numbers)
                it_text = '(.call "range" [%s])' % self.expr(it.args[0])
            else:
                it_text = self.expr(it)
            lines = ['%s.forS %s %s [' % (pad, lean_str(st.target.id), it_text)]
            lines += self.block(st.body, ind + 2)
            lines.append('%s]' % pad)
            return comment, lines
        if isinstance(st, ast.Assign):
            if len(st.targets) != 1 or not isinstance(st.targets[0], ast.Name):
                self.fail(st, 'assignment target')
            return comment, ['%s.assign %s %s' % (pad, lean_str(st.targets[0].id), self.expr(st.value))]
        if self.pcls is not None and isinstance(st, ast.AugAssign):
            # `x op= e` on a local variable is `x = x op e`: the interpreter's `+ - *` give numbers and texts only (immutable;
            # anything else is an error), so that there is no in-place variant to tell apart
            op = BINOPS.get(type(st.op))
            if op is None or not isinstance(st.target, ast.Name) or st.target.id in self.aliases \
                    or st.target.id == self.self_name:
                self.fail(st, 'augmented assignment')
            x = lean_str(st.target.id)
            return comment, ['%s.assign %s (.binop %s (.var %s) %s)' % (pad, x, op, x, self.expr(st.value))]
        if isinstance(st, ast.Return) and self.base_meth_call(st.value) is not None:
            m, rest = self.base_meth_call(st.value)
            return comment, ['%s.retBase %s %s [%s]' % (pad, lean_str(self.self_name), lean_str(m),
                                                       ', '.join(self.expr(a) for a in rest))]
        if isinstance(st, ast.Return):
            v = '(.const .none)' if st.value is None else self.expr(st.value)
            return comment, ['%s.ret %s' % (pad, v)]
        if isinstance(st, ast.Raise):
            if st.exc is None or st.cause is not None:
                self.fail(st, 'bare raise / raise from')
            return comment, ['%s.raise %s' % (pad, self.expr(st.exc))]
        if isinstance(st, ast.If):
            lines = ['%s.ifS %s [' % (pad, self.expr(st.test))]
            lines += self.block(st.body, ind + 2)
            lines.append('%s] [' % pad)
            lines += self.block(st.orelse, ind + 2)
            lines.append('%s]' % pad)
            return comment, lines
        if isinstance(st, ast.Try):
            if st.orelse or st.finalbody or not st.handlers:
                self.fail(st, 'try/else, try/finally')
            lines = ['%s.tryS [' % pad]
            lines += self.block(st.body, ind + 2)
            lines.append('%s] [' % pad)
            for i, h in enumerate(st.handlers):
                if h.name is not None and h.type is None:
                    self.fail(h, 'except as without a type')
                if h.type is None:
                    ty = 'none'
                elif isinstance(h.type, ast.Name) and h.type.id in BUILTIN_EXC and h.type.id not in self.mod.rebound \
                        and h.type.id not in self.locals:
                    ty = '(some %s)' % lean_str(h.type.id)
                else:
                    self.fail(h, 'exception type of the handler')
                lines.append('%s  -- %s:%d: %s' % (pad, self.mod.rel, h.lineno, self.src(h)))
                if h.name is not None:
                    lines.append('%s  .mkAs %s %s [' % (pad, ty[len('(some '):-1], lean_str(h.name)))
                else:
                    lines.append('%s  .mk %s [' % (pad, ty))
                lines += self.block(h.body, ind + 4)
                lines.append('%s  ]%s' % (pad, ',' if i + 1 < len(st.handlers) else ''))
            lines.append('%s]' % pad)
            return comment, lines
        self.fail(st, 'statement %s' % type(st).__name__)

    def translate(self):
        fn = self.fn
        a = fn.args
        nd = len(a.defaults)
        params = []
        for i, p in enumerate(a.args):
            if p.annotation is not None:
                self.fail(p, 'annotation')
            j = i - (len(a.args) - nd)
            if j >= 0:
                params.append('(%s, some %s)' % (lean_str(p.arg), self.expr(a.defaults[j], module_scope=True)))
            else:
                params.append('(%s, none)' % lean_str(p.arg))
        lines = []
        lines.append('/-- %s:%d: `%s` -/' % (self.mod.rel, fn.lineno, self.src(fn).replace('-/', '- /')))
        lines.append('def %s : Fun :=' % self.lean_name)
        lines.append('  { name := %s' % lean_str(fn.name))
        lines.append('    params := [%s]' % ', '.join(params))
        lines.append('    body := [')
        lines += self.block(fn.body, 6)
        lines.append('    ] }')
        return '\n'.join(lines)


def generate_code(repo):
    parts = []
    parts.append('/- GENERATED by harness/ahpcheck/translate_code.py from the source tree on every run. Do not edit.')
    parts.append('   The Python functions themselves, dumped node by node; their meaning is AHP.PyAst (Model/PyAst.lean). -/')
    parts.append('import AHP.Model.PyAst')
    parts.append('namespace AHP.Gen.Code')
    parts.append('open AHP.Gen AHP.PyAst')
    parts.append('')
    whole = {}          # file -> (lean name, function names) of the modules dumped as a whole
    for rel, lean_name, wanted in MODULES:
        mod = _Module(repo, rel)
        if wanted is None:
            mod.check_whole_module()
            fns = list(mod.functions)
        else:
            byname = {}
            for f in mod.functions:
                if f.name in byname:
                    mod.fail(f, 'function %s is defined twice' % f.name)
                byname[f.name] = f
            for w in wanted:
                if w not in byname:
                    raise Untranslatable('%s: no top-level def %s' % (rel, w))
            fns = [f for f in mod.functions if f.name in wanted]
        # functions imported from sibling modules that are dumped as a whole: callable like earlier functions
        earlier = []
        scope = []
        for name in sorted(mod.imported_funcs):
            src = mod.imported_funcs[name]
            if src in whole and name in whole[src][1]:
                earlier.append(name)
                if whole[src][0] not in scope:
                    scope.append(whole[src][0])
            elif src in whole and name in whole[src][2]:
                mod.singletons.add(name)                    # the same object under the same name
        for fn in fns:
            parts.append(_FunTranslator(mod, fn, list(earlier)).translate())
            parts.append('')
            earlier.append(fn.name)
        parts.append('/-- %s: the functions above, in source order -/' % rel)
        parts.append('def %s : List Fun :=\n  [%s]' % (lean_name, ',\n   '.join('%s_ast' % f.name for f in fns)))
        parts.append('')
        if scope:
            parts.append('/-- %s after the modules it imports functions from: what `runModule` is given -/' % rel)
            parts.append('def %s_scope : List Fun := %s' % (lean_name, ' ++ '.join(scope + [lean_name])))
            parts.append('')
        if wanted is None:
            whole[rel] = (lean_name, [f.name for f in fns], set(mod.singletons))
    for rel, lean_name, cls_name, methods, prims in CLASSES:
        mod = _Module(repo, rel)
        cls = mod.classes.get(cls_name)
        if cls is None:
            raise Untranslatable('%s: no top-level class %s' % (rel, cls_name))
        if cls.decorator_list or cls.keywords or not all(isinstance(b, ast.Name) and b.id == 'object' for b in cls.bases):
            mod.fail(cls, 'class with decorators / keywords / base classes other than object')
        defs = {}
        for st in cls.body:
            if isinstance(st, ast.FunctionDef):
                if st.name in defs:
                    mod.fail(st, 'method %s is defined twice' % st.name)
                defs[st.name] = st
            elif not (isinstance(st, ast.Expr) and isinstance(st.value, ast.Constant) and isinstance(st.value.value, str)):
                mod.fail(st, 'class-level statement outside the subset (%s)' % type(st).__name__)
        for pname, (pargs, pbody, pimports) in sorted(prims.items()):
            _check_static_prim(mod, defs.get(pname), cls_name, pname, pargs, pbody, pimports)
        names = []
        for m in methods:
            if m not in defs:
                raise Untranslatable('%s: class %s has no method %s' % (rel, cls_name, m))
            ln = '%s_%s_ast' % (cls_name, m.strip('_'))
            parts.append(_FunTranslator(mod, defs[m], [], prims=set(prims), lean_name=ln).translate())
            parts.append('')
            names.append(ln)
        parts.append('/-- %s: the dumped methods of class %s -/' % (rel, cls_name))
        parts.append('def %s : List Fun :=\n  [%s]' % (lean_name, ',\n   '.join(names)))
        parts.append('')
    for rel, lean_name, cls_name, wanted in STATIC_METHODS:
        mod = _Module(repo, rel)
        cls = mod.classes.get(cls_name)
        if cls is None:
            raise Untranslatable('%s: no top-level class %s' % (rel, cls_name))
        defs = {}
        for st in ast.walk(cls):
            if isinstance(st, ast.FunctionDef):
                defs.setdefault(st.name, []).append(st)
        names = []
        for m in wanted:
            if len(defs.get(m, [])) != 1 or defs[m][0] not in cls.body:
                raise Untranslatable('%s: class %s does not define %s exactly once' % (rel, cls_name, m))
            ln = '%s_%s_ast' % (cls_name, m.strip('_'))
            parts.append(_FunTranslator(mod, defs[m][0], [], lean_name=ln, static=True).translate())
            parts.append('')
            names.append(ln)
        parts.append('/-- %s: the dumped static methods of class %s -/' % (rel, cls_name))
        parts.append('def %s : List Fun :=\n  [%s]' % (lean_name, ',\n   '.join(names)))
        parts.append('')
    for rel, lean_name, cls_name, methods, funcs, funcs_lean in LIST_CLASSES:
        mod = _Module(repo, rel)
        cls = mod.classes.get(cls_name)
        if cls is None:
            raise Untranslatable('%s: no top-level class %s' % (rel, cls_name))
        if cls.decorator_list or cls.keywords or [ast.unparse(b) for b in cls.bases] != ['list'] or 'list' in mod.rebound:
            mod.fail(cls, 'class with decorators / keywords / bases other than the builtin list')
        defs = {}
        for st in ast.walk(cls):
            if isinstance(st, ast.FunctionDef):
                defs.setdefault(st.name, []).append(st)
            elif isinstance(st, ast.Assign) and st in cls.body:
                # class-level aliases (`filterAnd = filter`): no dumped method and no special method may be bound that way
                for t in st.targets:
                    if not isinstance(t, ast.Name) or t.id in methods or t.id in LIST_CLASS_FORBIDDEN:
                        mod.fail(st, 'class-level assignment to a dumped / special method name')
        for bad in LIST_CLASS_FORBIDDEN:
            if bad in defs:
                mod.fail(defs[bad][0], 'class %s defines %s' % (cls_name, bad))
        for (erel, ecls, emeth, eargs, ebody) in ELEMENT_METHODS:
            _check_method_body(_Module(repo, erel) if erel != rel else mod, ecls, emeth, eargs, ebody)
        all_methods = set(defs)
        names = []
        done = []
        for m in methods:
            if len(defs.get(m, [])) != 1 or defs[m][0] not in cls.body:
                raise Untranslatable('%s: class %s does not define %s exactly once' % (rel, cls_name, m))
            ln = '%s_%s_ast' % (cls_name, m.strip('_'))
            info = {'name': cls_name, 'methods': all_methods, 'callable': set(done)}
            parts.append(_FunTranslator(mod, defs[m][0], [], prims=set(), lean_name=ln, cls=info).translate())
            parts.append('')
            names.append(ln)
            done.append(m)
        parts.append('/-- %s: the dumped methods of class %s, in dependency order (a method refers to earlier ones only) -/'
                     % (rel, cls_name))
        parts.append('def %s : List Fun :=\n  [%s]' % (lean_name, ',\n   '.join(names)))
        parts.append('')
        byname = {}
        for f in mod.functions:
            byname.setdefault(f.name, []).append(f)
        fnames = []
        for w in funcs:
            if len(byname.get(w, [])) != 1:
                raise Untranslatable('%s: %s is not defined exactly once at module level' % (rel, w))
            info = {'name': cls_name, 'methods': all_methods, 'callable': set(done)}
            parts.append(_FunTranslator(mod, byname[w][0], [], cls=info).translate())
            parts.append('')
            fnames.append('%s_ast' % w)
        parts.append('/-- %s: module-level functions that build a %s -/' % (rel, cls_name))
        parts.append('def %s : List Fun :=\n  [%s]' % (funcs_lean, ',\n   '.join(fnames)))
        parts.append('')
    for rel, lean_name, cls_name, methods, prims, reserved_name, statics in ATTR_CLASSES:
        mod = _Module(repo, rel)
        cls = mod.classes.get(cls_name)
        if cls is None:
            raise Untranslatable('%s: no top-level class %s' % (rel, cls_name))
        if cls.decorator_list or cls.keywords or [ast.unparse(b) for b in cls.bases] != ['object']:
            mod.fail(cls, 'class with decorators / keywords / base classes other than object')
        defs = {}
        consts = {}
        for st in ast.walk(cls):
            if isinstance(st, ast.FunctionDef):
                defs.setdefault(st.name, []).append(st)
        assigned = {}
        for st in cls.body:
            if isinstance(st, ast.Assign):
                for t in st.targets:
                    for nm in ast.walk(t):
                        if isinstance(nm, ast.Name):
                            assigned[nm.id] = assigned.get(nm.id, 0) + 1
                if len(st.targets) == 1 and isinstance(st.targets[0], ast.Name) and isinstance(st.value, ast.Tuple) \
                        and all(isinstance(e, ast.Constant) and (e.value is None or isinstance(e.value, (str, int, bool)))
                                for e in st.value.elts):
                    consts[st.targets[0].id] = st.value
        consts = dict((k, v) for k, v in consts.items() if assigned.get(k) == 1 and k not in defs)
        if reserved_name not in consts or not all(isinstance(e.value, str) for e in consts[reserved_name].elts):
            mod.fail(cls, 'class %s has no constant tuple of names %s' % (cls_name, reserved_name))
        dumped_statics = [w for (r2, _, c2, ws) in STATIC_METHODS if r2 == rel and c2 == cls_name for w in ws]
        for w in statics:
            if w not in dumped_statics:
                raise Untranslatable('%s: the static method %s of %s is not dumped' % (rel, w, cls_name))
        for pname, (pargs, pbody) in sorted(prims.items()):
            _check_method_body(mod, cls_name, pname, pargs, pbody)
        info = {'name': cls_name, 'reserved': [e.value for e in consts[reserved_name].elts], 'reserved_name': reserved_name,
                'consts': consts, 'statics': set(statics)}
        names = []
        for m in methods:
            if len(defs.get(m, [])) != 1 or defs[m][0] not in cls.body or m in assigned:
                raise Untranslatable('%s: class %s does not define %s exactly once' % (rel, cls_name, m))
            ln = '%s_%s_ast' % (cls_name, m.strip('_'))
            parts.append(_FunTranslator(mod, defs[m][0], [], prims=set(prims), lean_name=ln, acls=info).translate())
            parts.append('')
            names.append(ln)
        parts.append('/-- %s: the dumped methods of class %s -/' % (rel, cls_name))
        parts.append('def %s : List Fun :=\n  [%s]' % (lean_name, ',\n   '.join(names)))
        parts.append('')
    for rel, lean_name, cls_name, methods, elem_attrs, excs, imports, base in PARSER_CLASSES:
        mod = _Module(repo, rel)
        cls = mod.classes.get(cls_name)
        if cls is None:
            raise Untranslatable('%s: no top-level class %s' % (rel, cls_name))
        if cls.decorator_list or cls.keywords:
            mod.fail(cls, 'class with decorators / keywords')
        defs = {}
        for st in ast.walk(cls):
            if isinstance(st, ast.FunctionDef):
                defs.setdefault(st.name, []).append(st)
        assigned = set()
        for st in cls.body:
            if isinstance(st, ast.Assign):
                for t in st.targets:
                    for nm in ast.walk(t):
                        if isinstance(nm, ast.Name):
                            assigned.add(nm.id)
        dot = PARSER_CLASS_DOT_ACCESS.get(cls_name)
        if dot is None:
            for bad in PARSER_CLASS_FORBIDDEN:
                if bad in defs or bad in assigned:
                    mod.fail(cls, 'class %s defines %s' % (cls_name, bad))
        else:
            ga = defs.get('__getattribute__', [])
            if len(ga) != 1 or ga[0] not in cls.body or '__getattr__' in defs or '__getattribute__' in assigned \
                    or [p.arg for p in ga[0].args.args] != ['self', 'name'] or ga[0].decorator_list:
                mod.fail(cls, 'class %s: __getattribute__(self, name) is not defined exactly once' % cls_name)
            stmts = [x for x in ga[0].body if not (isinstance(x, ast.Expr) and isinstance(x.value, ast.Constant))]
            if not stmts or ast.unparse(stmts[0]) != dot[0]:
                mod.fail(ga[0], '__getattribute__ does not start with the plain lookup')
            for cname, crel in sorted(dot[1].items()):
                if mod.imported_funcs.get(cname) != crel:
                    mod.fail(cls, '%s is not imported once from %s' % (cname, crel))
        for (emod, ename), ebase in sorted(excs.items()):
            if ('%s' % emod, 1, ename) not in mod.from_imports:
                mod.fail(cls, '%s is not imported once from .%s' % (ename, emod))
            _check_exc_base(repo, emod, ename, ebase)
        earlier = []
        for fname, (frel, _flean) in sorted(imports.items()):
            if mod.imported_funcs.get(fname) != frel or not any(
                    r == frel and w is not None and fname in w for (r, _l, w) in MODULES):
                mod.fail(cls, '%s is not imported once from %s (a dumped function)' % (fname, frel))
            earlier.append(fname)
        if base is not None:
            if [ast.unparse(b) for b in cls.bases] != [base[0]] or mod.imported_funcs.get(base[0]) != base[1]:
                mod.fail(cls, 'class %s is not derived from %s alone, imported once from %s' % (cls_name, base[0], base[1]))
        info = {'name': cls_name, 'elem_attrs': tuple(elem_attrs), 'exc': set(n for (_m, n) in excs),
                'base': base[0] if base is not None else None, 'consts': dict(dot[1]) if dot is not None else {}}
        names = []
        for m in methods:
            if len(defs.get(m, [])) != 1 or defs[m][0] not in cls.body or m in assigned:
                raise Untranslatable('%s: class %s does not define %s exactly once' % (rel, cls_name, m))
            fn = defs[m][0]
            # the fields used must be plain instance attributes: no class-level name (property, method) hides them
            for n in ast.walk(fn):
                if isinstance(n, ast.Attribute) and isinstance(n.value, ast.Name) and fn.args.args \
                        and n.value.id == fn.args.args[0].arg and (n.attr in defs or n.attr in assigned):
                    mod.fail(n, '%s.%s is a class-level name, not a plain field' % (n.value.id, n.attr))
            if dot is not None:
                for n in ast.walk(fn):
                    if isinstance(n, ast.Attribute) and not isinstance(n.ctx, ast.Load) and isinstance(n.value, ast.Name) \
                            and fn.args.args and n.value.id == fn.args.args[0].arg:
                        mod.fail(n, 'assignment to %s.%s in a class that overrides __setattr__' % (n.value.id, n.attr))
            ln = '%s_%s_ast' % (cls_name, m.strip('_'))
            parts.append(_FunTranslator(mod, fn, list(earlier), prims=set(), lean_name=ln, pcls=info).translate())
            parts.append('')
            names.append(ln)
        parts.append('/-- %s: the dumped methods of class %s -/' % (rel, cls_name))
        parts.append('def %s : List Fun :=\n  [%s]' % (lean_name, ',\n   '.join(names)))
        parts.append('')
    parts.append('end AHP.Gen.Code')
    return '\n'.join(parts) + '\n'


def _check_exc_base(repo, module, name, want):
    """The exception class must exist in the sibling module, once, with exactly the base class given."""
    p = os.path.join(repo, 'AdvancedHTMLParser', module + '.py')
    tree = _parse(open(p, encoding='utf-8').read(), p)
    found = [st for st in ast.walk(tree) if isinstance(st, ast.ClassDef) and st.name == name]
    if len(found) != 1 or found[0] not in tree.body:
        raise Untranslatable('%s.py: class %s is not defined exactly once at the top level' % (module, name))
    st = found[0]
    if not (len(st.bases) == 1 and isinstance(st.bases[0], ast.Name) and st.bases[0].id == want and not st.keywords):
        raise Untranslatable('%s.py:%d: %s is not a direct subclass of %s' % (module, st.lineno, name, want))


def _check_method_body(mod, cls_name, name, args, body):
    """A method the interpreter takes as known (an element IS its uid): it must be defined once, undecorated, with exactly
    the expected parameters and statements."""
    cls = mod.classes.get(cls_name)
    if cls is None:
        raise Untranslatable('%s: no top-level class %s' % (mod.rel, cls_name))
    found = [st for st in ast.walk(cls) if isinstance(st, ast.FunctionDef) and st.name == name]
    assigned = [st for st in cls.body if isinstance(st, ast.Assign)
                and any(isinstance(t, ast.Name) and t.id == name for t in st.targets)]
    if len(found) != 1 or found[0] not in cls.body or assigned:
        raise Untranslatable('%s: class %s does not define %s exactly once' % (mod.rel, cls_name, name))
    fn = found[0]
    a = fn.args
    if fn.decorator_list or a.vararg or a.kwarg or a.kwonlyargs or a.defaults or getattr(a, 'posonlyargs', []) \
            or [p.arg for p in a.args] != list(args):
        mod.fail(fn, '%s.%s is not the expected plain method (%s)' % (cls_name, name, ', '.join(args)))
    stmts = [s for s in fn.body if not (isinstance(s, ast.Expr) and isinstance(s.value, ast.Constant))]
    if [ast.unparse(s) for s in stmts] != list(body):
        mod.fail(fn, 'the body of %s.%s is not the expected one (%s)' % (cls_name, name, '; '.join(body)))


def _check_static_prim(mod, fn, cls_name, name, args, body, imports):
    """A static method taken as a primitive: it must be exactly the expected wrapper (so that it cannot touch the object)."""
    if fn is None:
        raise Untranslatable('%s: class %s has no method %s' % (mod.rel, cls_name, name))
    decos = [ast.unparse(d) for d in fn.decorator_list]
    a = fn.args
    if decos != ['staticmethod'] or a.vararg or a.kwarg or a.kwonlyargs or a.defaults or getattr(a, 'posonlyargs', []) \
            or [p.arg for p in a.args] != list(args):
        mod.fail(fn, '%s is not the expected @staticmethod(%s)' % (name, ', '.join(args)))
    stmts = [s for s in fn.body if not (isinstance(s, ast.Expr) and isinstance(s.value, ast.Constant))]
    if [ast.unparse(s) for s in stmts] != list(body):
        mod.fail(fn, 'the body of %s is not the expected one (%s)' % (name, '; '.join(body)))
    for imp in imports:
        if imp not in mod.from_imports:
            mod.fail(fn, '%s relies on `from %s%s import %s`, which is not there (or bound twice)'
                     % (name, '.' * imp[1], imp[0], imp[2]))


def regenerate(repo, target):
    """Write Gen/Code.lean if it differs; True when it differs from what was on disk. Raises when the source is
    outside the subset (fail closed)."""
    text = generate_code(repo)
    old = None
    if os.path.exists(target):
        old = open(target, encoding='utf-8').read()
    if old == text:
        return False
    os.makedirs(os.path.dirname(target), exist_ok=True)
    with open(target, 'w', encoding='utf-8') as fh:
        fh.write(text)
    return old is not None
