"""
translate_format — tables the formatter model (AHP/Model/Format.lean) needs besides the tag sets of
translate_tables: the boolean-attribute sets `getStartTag` consults when it renders an attribute.
Picked up by translate_tables._extra_generators (every module translate_<name>.py).
"""
from .translate_tables import _module_ast, _assigned, _str_set, lean_list, lean_str


def generate(repo):
    consts = _module_ast(repo, 'constants.py')
    binary = sorted(set(_str_set(_assigned(consts, 'TAG_ITEM_BINARY_ATTRIBUTES'), 'TAG_ITEM_BINARY_ATTRIBUTES')))
    binstr = sorted(set(_str_set(_assigned(consts, 'TAG_ITEM_BINARY_ATTRIBUTES_STRING_ATTR'),
                                 'TAG_ITEM_BINARY_ATTRIBUTES_STRING_ATTR')))
    return [
        '/-- constants.TAG_ITEM_BINARY_ATTRIBUTES (formatter model: bare rendering of empty boolean attributes) -/',
        'def fmtBinaryAttrs : List String :=\n  %s' % lean_list(map(lean_str, binary)),
        '/-- constants.TAG_ITEM_BINARY_ATTRIBUTES_STRING_ATTR -/',
        'def fmtBinaryStringAttrs : List String :=\n  %s' % lean_list(map(lean_str, binstr)),
        '',
    ]
