import importlib
import os
import sys

from . import core


def main(argv):
    if len(argv) < 1:
        print('usage: check <Cxx> [quick|thorough] | check <Cxx> --replay <file>')
        return 2
    prop = argv[0].upper()
    try:
        mod = importlib.import_module('ahpcheck.props.' + prop.lower())
    except ImportError as e:
        print('no check for %s: %s' % (prop, e))
        return 2
    check = mod.Check()
    if len(argv) >= 3 and argv[1] == '--replay':
        return core.replay(check, argv[2])
    tier = argv[1] if len(argv) > 1 else 'quick'
    tier = os.environ.get('VERIF_TIER') or tier
    if tier not in ('quick', 'thorough'):
        print('tier must be quick or thorough')
        return 2
    seed = int(os.environ.get('VERIF_SEED', '0') or 0)
    try:
        return core.run_check(check, tier, seed)
    except core.MachineryError as e:
        print(str(e))
        print('MACHINERY-ERROR')
        return 2


sys.exit(main(sys.argv[1:]))
