"""
Shared adaptor of the streams C08, C09, C10 (model: lean/AHP/Model/Attrs.lean, wire: lean/Driver/AttrsWire.lean).

A case is a dict
    {'tag': 'div', 'how': 'direct'|'parsed'|'clone'|'copy'|'deepcopy'|'pickle',
     'attrs': [[name, value|None], ...],          # the attribute list the element is constructed from
     'hist':  [item, ...],                        # operations and mid-history reads, see ITEMS below
     'views': [[view, ...], ...], 'chk': [k, ...]}   # groups of views; each group is read on a fresh element
                                                  # after the first k items (views inside a group: one after the other)

Every view is read on a *fresh* element that went through the history prefix (views write: lazy class/style
synchronisation), and additionally all views are read one after the other on one element at the end.
"""
import copy
import pickle
import re
from collections import OrderedDict
from html.parser import HTMLParser

from .core import enc, opt, sx

# wire names shared with Driver/AttrsWire.lean
VIEW_ALIAS = {'dict': 'list', 'iter': 'keys', 'copy': 'clone', 'deepcopy': 'clone', 'pickle': 'clone', 'repr': 'clone',
              'classNames': 'classList'}


def lib():
    import AdvancedHTMLParser
    return AdvancedHTMLParser


def consts():
    from AdvancedHTMLParser import constants
    return constants


# ---------------------------------------------------------------------------------------------------------
# tables (sent with every case: the model is parametric in them)

_tables_cache = {}


def link_row(tag, name):
    """The row of the dot-access tables for (tag, dot-name), or None when the name is not linked."""
    C = consts()
    if not (name in C.TAG_ITEM_ATTRIBUTE_LINKS or name in C.TAG_NAMES_TO_ADDITIONAL_ATTRIBUTES.get(tag, [])):
        return None
    attr = C.TAG_ITEM_CHANGE_NAME_FROM_ITEM.get(name, name)
    return {
        'attr': attr,
        'special': name in C.TAG_ITEM_ATTRIBUTES_SPECIAL_VALUES,
        'validated': name in C.TAG_ITEM_ATTRIBUTES_SPECIAL_VALIDATION,
        'binStr': attr in C.TAG_ITEM_BINARY_ATTRIBUTES_STRING_ATTR,
        'bin': attr in C.TAG_ITEM_BINARY_ATTRIBUTES,
        'event': attr in C.ALL_JAVASCRIPT_EVENT_ATTRIBUTES,
    }


def linked_names(tag):
    C = consts()
    return sorted(set(C.TAG_ITEM_ATTRIBUTE_LINKS) | set(C.TAG_NAMES_TO_ADDITIONAL_ATTRIBUTES.get(tag, [])))


def dot_names_of(d):
    out = []
    for it in d['hist']:
        if it[0] == 'dot':
            out.append(it[1])
        elif it[0] == 'read' and it[1][0] == 'dotget':
            out.append(it[1][1])
    for g in d['views']:
        for v in g:
            if v[0] == 'dotget':
                out.append(v[1])
    return sorted(set(out))


def tables_sx(tag, dotnames):
    key = (tag, tuple(dotnames))
    if key not in _tables_cache:
        C = consts()
        rows = []
        for n in dotnames:
            r = link_row(tag.lower(), n)
            if r is not None:
                rows.append([enc(n), enc(r['attr'])] + [int(r[k]) for k in ('special', 'validated', 'binStr', 'bin', 'event')])
        _tables_cache[key] = sx([enc(x) for x in sorted(C.TAG_ITEM_BINARY_ATTRIBUTES)],
                                [enc(x) for x in sorted(C.TAG_ITEM_BINARY_ATTRIBUTES_STRING_ATTR)], rows)
    return _tables_cache[key]


def is_void(tag):
    return tag in consts().IMPLICIT_SELF_CLOSING_TAGS


# ---------------------------------------------------------------------------------------------------------
# encoding for the driver

def _val(v):
    return opt(v)


def _dotval(v):
    if v is None:
        return 'none'
    if v is True:
        return 'true'
    if v is False:
        return 'false'
    return enc(v)


def enc_view(v):
    name = VIEW_ALIAS.get(v[0], v[0])
    return [name] + [enc(a) for a in v[1:]]


def enc_item(it):
    k = it[0]
    if k in ('sa', 'ms', 'sd', 'sp', 'ss'):
        return [k, enc(it[1]), _val(it[2])]
    if k in ('sas', 'sss'):
        return [k] + [[enc(n), _val(v)] for n, v in it[1]]
    if k in ('ra', 'md', 'ac', 'rc', 'scp'):
        return [k, enc(it[1])]
    if k in ('cn', 'st'):
        return [k, _val(it[1])]
    if k == 'dot':
        return [k, enc(it[1]), _dotval(it[2])]
    if k in ('self', 'sync'):
        return [k]
    if k == 'read':
        return [k, enc_view(it[1])]
    raise ValueError(it)


def encode(d):
    tag = d['tag']
    through = 0 if d['how'] in ('direct', 'parsed') else 1
    return sx(tables_sx(tag, dot_names_of(d)),
              [enc(tag), int(is_void(tag.lower())), [[enc(n), _val(v)] for n, v in d['attrs']], through],
              [enc_item(it) for it in d['hist']],
              [[enc_view(v) for v in g] for g in d['views']],
              list(d['chk']))


# ---------------------------------------------------------------------------------------------------------
# the real library

_NAME_RE = re.compile(r'^[A-Za-z_][A-Za-z0-9_-]*$')


def render_html(tag, attrs):
    """The markup a `parsed` element comes from (double-quoted values, `"` written as &quot;, bare names for None)."""
    parts = []
    for n, v in attrs:
        if not _NAME_RE.match(n):
            continue               # cannot be written as one attribute in markup; the constructor drops it as well
        if v is None:
            parts.append(n)
        else:
            parts.append('%s="%s"' % (n, v.replace('"', '&quot;')))
    s = '<%s%s>' % (tag, ''.join(' ' + p for p in parts))
    if not is_void(tag.lower()):
        s += '</%s>' % tag
    return s


def build(d):
    AHP = lib()
    tag, how = d['tag'], d['how']
    attrs = [(n, v) for n, v in d['attrs']]
    if how == 'parsed':
        p = AHP.AdvancedHTMLParser()
        p.parseStr(render_html(tag, attrs))
        return p.getRoot()
    # `uptag`: the constructor is given the tag name in upper case (the element's name, its void-ness and its tag-specific
    # linked properties are those of the lower-case name)
    e = AHP.AdvancedTag(tag.upper() if d.get('uptag') else tag, attrs)
    if how == 'direct':
        return e
    return make_copy(e, how)


def make_copy(e, how):
    AHP = lib()
    if how == 'clone':
        return e.cloneNode()
    if how == 'copy':
        return copy.copy(e)
    if how == 'deepcopy':
        return copy.deepcopy(e)
    if how == 'pickle':
        return pickle.loads(pickle.dumps(e, 2))
    if how == 'repr':
        return eval(repr(e), {'AdvancedTag': AHP.AdvancedTag})
    raise ValueError(how)


def reparse(e):
    AHP = lib()
    p = AHP.AdvancedHTMLParser()
    p.parseStr(e.getStartTag() + e.getEndTag())
    return p.getRoot()


def pyval(v):
    AHP = lib()
    if v is None:
        return 'none'
    if v is True:
        return 'true'
    if v is False:
        return 'false'
    if isinstance(v, str):
        return enc(v)
    if isinstance(v, AHP.SpecialAttributes.StyleAttribute):
        return sx('sty', enc(str(v)))
    return sx('other', enc(type(v).__name__), enc(str(v)))


def pairs(l):
    return [[enc(n), opt(v)] for n, v in l]


def val_pairs(l):
    return [[enc(n), pyval(v)] for n, v in l]


def names(l):
    return [enc(x) for x in l]


def _b(x):
    return 'true' if x else 'false'


def read_view(e, v):
    """-> rendered observation (string or nested list for sx)"""
    k = v[0]
    if k == 'startTag':
        return enc(e.getStartTag())
    if k == 'list':
        return pairs(e.getAttributesList())
    if k == 'dict':
        return pairs(list(e.getAttributesDict().items()))
    if k == 'items':
        return val_pairs(list(e.attributes.items()))
    if k == 'keys':
        return names(list(e.attributes.keys()))
    if k == 'iter':
        return names(list(iter(e.attributes)))
    if k == 'has':
        return _b(e.hasAttribute(v[1]))
    if k == 'in':
        return _b(v[1] in e.attributes)
    if k == 'item':
        return pyval(e.attributes[v[1]])
    if k == 'get':
        return pyval(e.attributes.get(v[1]))
    if k == 'getd':
        return pyval(e.attributes.get(v[1], 'dflt'))
    if k == 'attr':
        return pyval(e.getAttribute(v[1]))
    if k == 'attrd':
        return pyval(e.getAttribute(v[1], 'dflt'))
    if k == 'dotget':
        return pyval(getattr(e, v[1]))
    if k == 'domkeys':
        return names(list(e.attributesDOM))
    if k == 'domitem':
        node = e.attributesDOM.getNamedItem(v[1])
        if node is None:
            return 'none'
        return [enc(node.name), pyval(node.value)]
    if k == 'className':
        return enc(e.className)
    if k == 'classList':
        return names(list(e.classList))
    if k == 'classNames':
        return names(list(e.classNames))
    if k == 'hasClass':
        return _b(e.hasClass(v[1]))
    if k == 'styleStr':
        return enc(str(e.style))
    if k == 'sdot':
        return enc(getattr(e.style, v[1]))
    if k == 'gstyle':
        return enc(e.getStyle(v[1]))
    if k == 'styeq':
        AHP = lib()
        other = AHP.SpecialAttributes.StyleAttribute(v[1])
        rs = [e.style == other, e.style == v[1], not (e.style != other), not (e.style != v[1])]
        if len(set(rs)) != 1:
            return sx('inconsistent', *[_b(r) for r in rs])
        return _b(rs[0])
    if k in ('clone', 'copy', 'deepcopy', 'pickle', 'repr'):
        c = make_copy(e, k)
        return [pairs(c.getAttributesList()), enc(c.getStartTag())]
    if k == 'reparse':
        c = reparse(e)
        return [pairs(c.getAttributesList()), enc(c.getStartTag())]
    raise ValueError(v)


def apply_item(e, it):
    """-> outcome (rendered); exceptions other than KeyError propagate to the caller"""
    AHP = lib()
    k = it[0]
    try:
        if k == 'sa':
            e.setAttribute(it[1], it[2])
        elif k == 'sas':
            e.setAttributes(OrderedDict((n, v) for n, v in it[1]))
        elif k == 'ra':
            e.removeAttribute(it[1])
        elif k == 'ms':
            e.attributes[it[1]] = it[2]
        elif k == 'md':
            del e.attributes[it[1]]
        elif k == 'dot':
            setattr(e, it[1], it[2])
        elif k == 'ac':
            e.addClass(it[1])
        elif k == 'rc':
            e.removeClass(it[1])
        elif k == 'cn':
            e.className = it[1]
        elif k == 'sd':
            setattr(e.style, it[1], it[2])
        elif k == 'sp':
            e.style.setProperty(it[1], it[2])
        elif k == 'ss':
            e.setStyle(it[1], it[2])
        elif k == 'sss':
            e.setStyles(OrderedDict((n, v) for n, v in it[1]))
        elif k == 'st':
            e.style = it[1]
        elif k == 'scp':
            other = AHP.AdvancedTag('div')
            other.style = it[1]
            e.style = other.style
        elif k == 'self':
            e.style = e.style
        elif k == 'sync':
            e.attributes.items()
        elif k == 'read':
            return read_view(e, it[1])
        else:
            raise ValueError(it)
    except KeyError:
        return 'KeyError'
    return 'ok'


def replay(d, k):
    e = build(d)
    for it in d['hist'][:k]:
        try:
            apply_item(e, it)
        except Exception:
            pass
    return e


def safe(fn, *a):
    try:
        return fn(*a)
    except Exception as ex:
        return sx('raised', enc(type(ex).__name__))


def impl(d):
    e = build(d)
    outs = []
    for it in d['hist']:
        outs.append(safe(apply_item, e, it))
    chks = []
    for k in d['chk']:
        row = ['chk', k]
        for g in d['views']:
            ek = replay(d, k)
            row.append([safe(read_view, ek, v) for v in g])
        chks.append(row)
    seq = ['seq']
    for g in d['views']:
        for v in g:
            seq.append(safe(read_view, e, v))
    return sx(outs, *(chks + [seq]))


# ---------------------------------------------------------------------------------------------------------
# independent helpers for the oracles

class _Rec(HTMLParser):
    def __init__(self):
        HTMLParser.__init__(self, convert_charrefs=True)
        self.tags = []

    def handle_starttag(self, tag, attrs):
        self.tags.append((tag, attrs))

    def handle_startendtag(self, tag, attrs):
        self.tags.append((tag, attrs))


def start_tag_attrs(text):
    """The attributes of the (single) start tag in `text`, read by the stdlib tokenizer: [(name, value|None)]."""
    r = _Rec()
    r.feed(text)
    r.close()
    if len(r.tags) != 1:
        return None
    return list(r.tags[0][1])


def shrink_case(d):
    """Generic shrinking candidates: drop history items, drop initial attributes, simplify creation, drop views."""
    h = d['hist']

    def mk(**kw):
        n = dict(d)
        n.update(kw)
        n['chk'] = sorted(set(min(k, len(n['hist'])) for k in n['chk']) | {len(n['hist'])})
        return n
    for i in range(len(h)):
        yield mk(hist=h[:i] + h[i + 1:])
    for i in range(len(d['attrs'])):
        yield mk(attrs=d['attrs'][:i] + d['attrs'][i + 1:])
    if d['how'] != 'direct':
        yield mk(how='direct')
    for i, it in enumerate(h):
        if it[0] in ('sas', 'sss') and len(it[1]) > 1:
            for j in range(len(it[1])):
                yield mk(hist=h[:i] + [[it[0], it[1][:j] + it[1][j + 1:]]] + h[i + 1:])
    if len(d['views']) > 1:
        for i in range(len(d['views'])):
            yield mk(views=d['views'][:i] + d['views'][i + 1:])
