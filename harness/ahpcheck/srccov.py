"""
ahpcheck.srccov — which lines of the library the correspondence and oracle runs of a check actually execute.

The tie between the hand-written model and the code is differential: it only says something about code the generated cases
reach. This module measures that reach on every run (sys.monitoring LINE events, Python 3.12; each location reports once and
is then disabled, so the cost is negligible) and reports it per source file and per function anchored by the property
(`anchors.mechanism[].where` in properties.jsonl names functions with the line ranges they had on the pinned tree; functions
are matched by name, not by line number). It is a measurement of generator quality — never an argument that a property holds.
Code run in other processes (C03's killable worker) is not seen.
"""
import json
import os
import re
import sys

_hits = set()
_active = False
TOOL = 3  # sys.monitoring.COVERAGE_ID is 1; use a free id to stay out of the way of a real coverage tool


def start(repo):
    global _active, _prefix
    if _active or not hasattr(sys, 'monitoring'):
        return False
    mon = sys.monitoring
    _prefix = os.path.realpath(os.path.join(repo, 'AdvancedHTMLParser')) + os.sep
    try:
        mon.use_tool_id(TOOL, 'ahpcheck-srccov')
    except ValueError:
        return False

    def on_line(code, line):
        fn = code.co_filename
        if fn.startswith(_prefix):
            _hits.add((fn[len(_prefix):], line))
        return mon.DISABLE
    mon.register_callback(TOOL, mon.events.LINE, on_line)
    mon.set_events(TOOL, mon.events.LINE)
    _active = True
    return True


def stop():
    global _active
    if _active:
        mon = sys.monitoring
        mon.set_events(TOOL, 0)
        mon.register_callback(TOOL, mon.events.LINE, None)
        mon.free_tool_id(TOOL)
        _active = False


def _functions(path):
    """{qualified name: (first line, set of executable lines)} for every function/method of a source file
    (module level under '<module>'); comprehensions and generator expressions count with the enclosing function."""
    src = open(path, encoding='utf-8').read()
    top = compile(src, path, 'exec')
    out = {}

    def walk(code, qual):
        lines = set(l for _, _, l in code.co_lines() if l is not None and l > 0)
        if code.co_name != '<module>':
            lines.discard(code.co_firstlineno)
        first, have = out.get(qual, (code.co_firstlineno, set()))
        out[qual] = (first, have | lines)
        for c in code.co_consts:
            if not hasattr(c, 'co_code'):
                continue
            if '__qualname__' in c.co_names and '__module__' in c.co_names:
                # a class body (runs at import time, before the measurement starts): only its methods count
                for m in c.co_consts:
                    if hasattr(m, 'co_code'):
                        walk(m, (qual + '.' if qual != '<module>' else '') + c.co_name + '.' + m.co_name)
                continue
            if c.co_name.startswith('<') and c.co_name != '<lambda>':
                walk(c, qual)
            else:
                walk(c, (qual + '.' if qual != '<module>' else '') + c.co_name)
    walk(top, '<module>')
    return out


DRIFT = 250     # lines a function may have moved since the anchors were written (the fix: commits shift the files)


def anchored_names(verif, prop_id):
    """per file: [(first name, last name or None, lo, hi)] — the functions the property's anchors mention with the line
    range they had on the pinned tree"""
    names = {}
    try:
        for line in open(os.path.join(verif, 'properties.jsonl')):
            p = json.loads(line)
            if p['id'] != prop_id:
                continue
            for m in p.get('anchors', {}).get('mechanism', []):
                w = m.get('where', '')
                for part in re.split(r';\s*', w):
                    fm = re.match(r'\s*AdvancedHTMLParser/([\w/]+\.py)\s*:?(.*)', part, re.S)
                    if not fm:
                        continue
                    f = fm.group(1)
                    for a, b, lo, hi in re.findall(r'([A-Za-z_][A-Za-z0-9_.]*?)(?:\.\.([A-Za-z_][A-Za-z0-9_]*))?\s*(?:\(\w*\))?\s+(\d+)(?:-(\d+))?(?:/\d+-\d+)?', fm.group(2)):
                        names.setdefault(f, []).append((a.split('.')[-1], b or None, int(lo), int(hi or lo)))
    except Exception:
        pass
    return names


def _match_anchors(fns, wants):
    """qualified names of the functions an anchor list means: by name, near the recorded line range; `a..b` means every
    function of the same class from `a` to `b`"""
    got = set()
    for a, b, lo, hi in wants:
        cands = [q for q, (first, _) in fns.items() if q.split('.')[-1] == a and lo - DRIFT <= first <= hi + DRIFT]
        for q in cands:
            got.add(q)
            if b:
                cls = q.rsplit('.', 1)[0] if '.' in q else ''
                ends = [fns[r][0] for r in fns if r.split('.')[-1] == b and (r.rsplit('.', 1)[0] if '.' in r else '') == cls]
                if ends:
                    lo2, hi2 = fns[q][0], max(ends)
                    for r, (first, _) in fns.items():
                        if (r.rsplit('.', 1)[0] if '.' in r else '') == cls and lo2 <= first <= hi2:
                            got.add(r)
    return got


def report(repo, verif, prop_id):
    """summary dict for the evidence file; the raw hit list goes to .srccov/<id>.json (not committed) for tools/srccov_union.py"""
    if not _hits and not _active:
        return {'measured': False}
    try:
        os.makedirs(os.path.join(verif, '.srccov'), exist_ok=True)
        with open(os.path.join(verif, '.srccov', prop_id + '.json'), 'w') as fh:
            json.dump(sorted(_hits), fh)
    except OSError:
        pass
    base = os.path.join(repo, 'AdvancedHTMLParser')
    hit_by_file = {}
    for f, l in _hits:
        hit_by_file.setdefault(f, set()).add(l)
    anchors = anchored_names(verif, prop_id)
    files = {}
    anchored = {}
    missed = {}
    for f in sorted(set(hit_by_file) | set(anchors)):
        path = os.path.join(base, f)
        if not os.path.exists(path):
            continue
        try:
            fns = _functions(path)
        except Exception:
            continue
        hits = hit_by_file.get(f, set())
        body = set()
        for q, (_, ls) in fns.items():
            if q != '<module>':
                body |= ls
        files[f] = {'lines_hit': len(hits & body), 'lines_executable': len(body),
                    'functions_entered': sum(1 for q, (_, ls) in fns.items() if q != '<module>' and ls & hits),
                    'functions': sum(1 for q in fns if q != '<module>')}
        for q in sorted(_match_anchors(fns, anchors.get(f, []))):
            ls = fns[q][1]
            if ls:
                anchored['%s:%s' % (f, q)] = [len(ls & hits), len(ls)]
                if ls - hits and ls & hits:
                    missed['%s:%s' % (f, q)] = sorted(ls - hits)
    tot_hit = sum(v[0] for v in anchored.values())
    tot = sum(v[1] for v in anchored.values())
    return {'measured': True, 'what': 'lines of /repo/AdvancedHTMLParser executed in this process by the correspondence and oracle runs '
            '(function bodies only; a measurement of generator reach, not an argument for the property)',
            'files': files,
            'anchored_functions': anchored,
            'anchored_lines_hit': tot_hit, 'anchored_lines_executable': tot,
            'anchored_functions_never_entered': sorted(k for k, v in anchored.items() if v[0] == 0),
            'anchored_lines_not_executed': missed}
