#!/bin/sh
# Build the Lean library (all property theorems) and the native correspondence driver, offline.
set -e
HERE="$(cd "$(dirname "$0")" && pwd)"
export PYTHONPATH="$HERE/harness"
/venv/bin/python -c "
from ahpcheck import translate_tables as t, core
t.regenerate(core.REPO, '$HERE/lean/AHP/Gen/Tables.lean')"
cd "$HERE/lean"
lake build AHP ahp-driver
