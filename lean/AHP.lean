import AHP.Model.Basic
import AHP.Model.Coll
import AHP.Lemmas.Coll
