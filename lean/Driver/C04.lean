/- Driver.C04 — stream `C04` (stub: replaced when the property's model is built). -/
namespace Driver.C04
def run (_payload : String) : String := "unimplemented"
end Driver.C04
