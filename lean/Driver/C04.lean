/-
  Driver.C04 — stream `C04`: lock-step histories (wire format: Driver.DomWire).
  Output: one entry per state, `(ret world)`; the first entry is the initial world (`ret` = init).
    world := ( elem* )  sorted by uid
    elem  := ( uid "name" sc (block*) (child*) "text" parent owner nav probes )
    nav   := ( firstChild lastChild firstElementChild lastElementChild nextSibling previousSibling
               nextElementSibling previousElementSibling peers childElementCount hasChildNodes (desc*) )
    probes: hasChild / contains of this element against the probe uids (all uids when the world has at
            most 10 elements, else uid 0 and the target of the call)
  A call outside the model ends the output with `(outside)`.
-/
import Driver.DomWire
namespace Driver.C04
open AHP AHP.Sexp AHP.Dom Driver.DomWire

def probeSet (w : World) (t : Nat) : List Nat :=
  let all := (allElems w).map (·.1.id)
  if all.length ≤ 10 then all else [0, t].eraseDups

def elemSx (w : World) (ps : List Nat) (e : Meta × List DN) : Sexp :=
  let m := e.1
  let bs := e.2
  .list [natAtom m.id, strAtom m.name, sym (if m.sc then "1" else "0"), .list (bs.map blockSx),
         .list (m.children.map natAtom), strAtom m.text, optNat m.parent, optNat m.owner,
         .list [valSx (firstChild bs), valSx (lastChild bs), valSx (firstElementChild m), valSx (lastElementChild m),
                valSx (nextSibling w m), valSx (previousSibling w m), valSx (nextElementSibling w m),
                valSx (previousElementSibling w m), valSx (getPeers w m), natAtom (childElementCount m),
                sym (if hasChildNodes m then "true" else "false"), .list ((descL bs).map natAtom)],
         bits (ps.map (hasChild m) ++ ps.map (containsUid m bs))]

def worldSx (w : World) (t : Nat) : Sexp :=
  .list ((allElems w).map (elemSx w (probeSet w t)))

def loop : World → List Op → List Sexp → List Sexp
  | _, [], acc => acc.reverse
  | w, op :: ops, acc =>
    match step w op with
    | none => (.list [sym "outside"] :: acc).reverse
    | some (w', v) => loop w' ops (.list [valSx v, worldSx w' (opTarget op)] :: acc)

def run (payload : String) : String :=
  match Sexp.parse payload with
  | some sx =>
    match toCase sx with
    | some c => (Sexp.list (loop c.world c.ops [.list [sym "init", worldSx c.world 0]])).render
    | none => "bad-case"
  | none => "bad-case"

end Driver.C04
