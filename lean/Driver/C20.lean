/-
  Driver.C20 — stream `C20`: payload `( kind seed (spare*) target parsed "name" )` (Driver.DomWire formats).
  Output `( fromHTML elements blocks append created )`:
    fromHTML := (raise K) | (ok tree)              createElementFromHTML
    elements := ( (tree | none)* )                 createElementsFromHTML
    blocks   := ( ("text" | tree)* )               createBlocksFromHTML
    append   := (outside) | ( world "innerHTML of the target" )      after target.appendInnerHTML
    created  := tree                                createElement(name)
    tree  := ( elem* ) pre-order;   elem := ( uid "name" sc (block*) (child*) "text" parent owner ((k v)*) )
            (the three constructor results omit `owner`: the property does not speak about it)
    owner := none | tmp (the temporary parser) | document number
-/
import Driver.DomWire
import AHP.Model.Fragment
namespace Driver.C20
open AHP AHP.Sexp AHP.Dom Driver.DomWire

def ownerSx (known : Nat) : Option Nat → Sexp
  | none => sym "none"
  | some d => if d < known then natAtom d else sym "tmp"

def elemSx (known : Nat) (e : Meta × List DN) : Sexp :=
  .list [natAtom e.1.id, strAtom e.1.name, sym (if e.1.sc then "1" else "0"), .list (e.2.map blockSx),
         .list (e.1.children.map natAtom), strAtom e.1.text, optNat e.1.parent, ownerSx known e.1.owner,
         .list (e.1.attrs.map (fun a => .list [strAtom a.1, optStr a.2]))]

/-- an element of a returned fragment: the property does not speak about the ownerDocument of what the
    constructors hand out, so it is not part of the comparison -/
def fragElemSx (e : Meta × List DN) : Sexp :=
  .list [natAtom e.1.id, strAtom e.1.name, sym (if e.1.sc then "1" else "0"), .list (e.2.map blockSx),
         .list (e.1.children.map natAtom), strAtom e.1.text, optNat e.1.parent,
         .list (e.1.attrs.map (fun a => .list [strAtom a.1, optStr a.2]))]

def fragSx (n : DN) : Sexp := .list ((elems n).map fragElemSx)

def treeSx (known : Nat) (n : DN) : Sexp := .list ((elems n).map (elemSx known))

def run (payload : String) : String :=
  match Sexp.parse payload with
  | some (.list [.atom kind, seed, .list spares, t, p, name]) =>
    match (do
      let seed ← toFN seed
      let spares ← spares.mapM toFN
      let t ← toNat? t
      let p ← toParsed p
      let name ← toStr? name
      let doc ← (if kind = "doc" then some true else if kind = "det" then some false else none)
      pure (initWorld doc seed spares, t, p, name)) with
    | none => "bad-case"
    | some (w, t, p, name) =>
      let known := w.nextDoc
      let a := match createElementFromHTML w.nextDoc w.next p with
        | .ok r => Sexp.list [sym "ok", fragSx r]
        | .error k => Sexp.list [sym "raise", sym k]
      let b := Sexp.list ((createElementsFromHTML w.nextDoc w.next p).map (fun o => match o with
        | some r => fragSx r
        | none => sym "none"))
      let c := Sexp.list ((createBlocksFromHTML w.nextDoc w.next p).map (fun b => match b with
        | .text s => strAtom s
        | .el m k => fragSx (.el m k)))
      let d := match w.appendInnerHTML t p with
        | none => Sexp.list [sym "outside"]
        | some (w', _) =>
          Sexp.list [.list ((allElems w').map (elemSx known)),
                     match w'.find? t with
                     | some (m, bs) => strAtom (innerHTML m bs)
                     | none => sym "none"]
      let e := treeSx known (createElement name w.next)
      (Sexp.list [a, b, c, d, e]).render
  | _ => "bad-case"

end Driver.C20
