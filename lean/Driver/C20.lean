/- Driver.C20 — stream `C20` (stub: replaced when the property's model is built). -/
namespace Driver.C20
def run (_payload : String) : String := "unimplemented"
end Driver.C20
