/-
  Driver.DomWire — wire format shared by the streams `C04`, `C05` and `C20`.

    case   := ( kind seed (spare*) (op*) )          kind := doc | det
    fn     := "text" | ( "name" ((k v|none)*) sc fn* )          sc := 0 | 1
    parsed := (single fn) | (multi fn*)
    blk    := "text" | uid                          ref := none | blk
    op     := (appendText t "s") | (appendChild t c|none) | (appendBlock t blk) | (appendBlocks t (blk*))
            | (appendInnerHTML t parsed) | (insertBefore t blk ref) | (insertAfter t blk ref)
            | (removeText t "s") | (removeTextAll t "s") | (remove t) | (removeChild t c)
            | (removeChildren t (c*)) | (removeBlock t blk) | (removeBlocks t (blk*)) | (setAttribute t "k" "v")
-/
import AHP.Model.DomView
namespace Driver.DomWire
open AHP AHP.Sexp AHP.Dom

def toAttr : Sexp → Option (Str × Option Str)
  | .list [k, v] => do
    let k ← toStr? k
    let v ← toOptStr? v
    pure (k, v)
  | _ => none

partial def toFN : Sexp → Option FN
  | .atom a => (toStr? (.atom a)).map FN.text
  | .list (n :: .list attrs :: sc :: kids) => do
    let n ← toStr? n
    let attrs ← attrs.mapM toAttr
    let sc ← toNat? sc
    let kids ← kids.mapM toFN
    pure (.el n attrs (sc != 0) kids)
  | _ => none

def toParsed : Sexp → Option Parsed
  | .list [.atom "single", f] => (toFN f).map Parsed.single
  | .list (.atom "multi" :: fs) => (fs.mapM toFN).map Parsed.multi
  | _ => none

def toBlk : Sexp → Option Blk
  | .atom a =>
    if a.startsWith "\"" then some (.txt (decStr a)) else a.toNat?.map Blk.elm
  | _ => none

def toRef : Sexp → Option (Option Blk)
  | .atom "none" => some none
  | x => (toBlk x).map some

def toOp : Sexp → Option Op
  | .list [.atom "appendText", t, s] => do pure (.appendText (← toNat? t) (← toStr? s))
  | .list [.atom "appendChild", t, .atom "none"] => do pure (.appendChild (← toNat? t) none)
  | .list [.atom "appendChild", t, c] => do pure (.appendChild (← toNat? t) (some (← toNat? c)))
  | .list [.atom "appendBlock", t, b] => do pure (.appendBlock (← toNat? t) (← toBlk b))
  | .list [.atom "appendBlocks", t, .list bs] => do pure (.appendBlocks (← toNat? t) (← bs.mapM toBlk))
  | .list [.atom "appendInnerHTML", t, p] => do pure (.appendInnerHTML (← toNat? t) (← toParsed p))
  | .list [.atom "insertBefore", t, b, r] => do pure (.insertBefore (← toNat? t) (← toBlk b) (← toRef r))
  | .list [.atom "insertAfter", t, b, r] => do pure (.insertAfter (← toNat? t) (← toBlk b) (← toRef r))
  | .list [.atom "removeText", t, s] => do pure (.removeText (← toNat? t) (← toStr? s))
  | .list [.atom "removeTextAll", t, s] => do pure (.removeTextAll (← toNat? t) (← toStr? s))
  | .list [.atom "remove", t] => do pure (.remove (← toNat? t))
  | .list [.atom "removeChild", t, c] => do pure (.removeChild (← toNat? t) (← toNat? c))
  | .list [.atom "removeChildren", t, .list cs] => do pure (.removeChildren (← toNat? t) (← cs.mapM toNat?))
  | .list [.atom "removeBlock", t, b] => do pure (.removeBlock (← toNat? t) (← toBlk b))
  | .list [.atom "removeBlocks", t, .list bs] => do pure (.removeBlocks (← toNat? t) (← bs.mapM toBlk))
  | .list [.atom "setAttribute", t, k, v] => do pure (.setAttribute (← toNat? t) (← toStr? k) (← toStr? v))
  | _ => none

def opTarget : Op → Nat
  | .appendText t _ | .appendChild t _ | .appendBlock t _ | .appendBlocks t _ | .appendInnerHTML t _
  | .insertBefore t _ _ | .insertAfter t _ _ | .removeText t _ | .removeTextAll t _ | .remove t
  | .removeChild t _ | .removeChildren t _ | .removeBlock t _ | .removeBlocks t _ | .setAttribute t _ _ => t

structure CaseIn where
  world : World
  ops : List Op

def toCase : Sexp → Option CaseIn
  | .list [.atom kind, seed, .list spares, .list ops] => do
    let seed ← toFN seed
    let spares ← spares.mapM toFN
    let ops ← ops.mapM toOp
    let doc ← (if kind = "doc" then some true else if kind = "det" then some false else none)
    pure ⟨initWorld doc seed spares, ops⟩
  | _ => none

/-! rendering -/

partial def valSx : Val → Sexp
  | .none => sym "none"
  | .bool b => sym (if b then "true" else "false")
  | .nat n => natAtom n
  | .el c => .list [sym "el", natAtom c]
  | .str s => strAtom s
  | .list vs => .list (sym "list" :: vs.map valSx)
  | .raise k => .list [sym "raise", sym k]

def optNat : Option Nat → Sexp
  | none => sym "none"
  | some n => natAtom n

def blockSx : DN → Sexp
  | .text s => strAtom s
  | .el m _ => natAtom m.id

def bits (bs : List Bool) : Sexp := .atom (String.ofList ('b' :: bs.map (fun b => if b then '1' else '0')))

/-- all elements of the world, sorted by uid -/
def allElems (w : World) : List (Meta × List DN) :=
  ((elemsL w.roots).toArray.qsort (fun a b => a.1.id < b.1.id)).toList

def rootIds (w : World) : List Nat := w.roots.filterMap rootId

end Driver.DomWire
