/-
  Driver.TokIO — wire format of tokens, trees and documents for the parsing streams (C01, C02, C03, C13).
    token := (decl s) | (udecl s) | (comment s) | (pi s) | (start n attr*) | (startend n attr*) | (end n)
           | (data s) | (entity s) | (charref s)            attr := (name value|none)
    tree  := (t s) | (e name (attr*) sc tree*)              sc := 0 | 1
-/
import AHP.Model.Builder
namespace Driver.TokIO
open AHP AHP.Sexp

def toAttr? : Sexp → Option Attr
  | .list [n, v] => do
    let n ← toStr? n
    let v ← toOptStr? v
    pure (n, v)
  | _ => none

def toToken? : Sexp → Option Token
  | .list [.atom "decl", s] => (toStr? s).map Token.decl
  | .list [.atom "udecl", s] => (toStr? s).map Token.unknownDecl
  | .list [.atom "comment", s] => (toStr? s).map Token.comment
  | .list [.atom "pi", s] => (toStr? s).map Token.pi
  | .list (.atom "start" :: n :: as) => do
    let n ← toStr? n
    let as ← as.mapM toAttr?
    pure (Token.start n as)
  | .list (.atom "startend" :: n :: as) => do
    let n ← toStr? n
    let as ← as.mapM toAttr?
    pure (Token.startend n as)
  | .list [.atom "end", s] => (toStr? s).map Token.end_
  | .list [.atom "data", s] => (toStr? s).map Token.data
  | .list [.atom "entity", s] => (toStr? s).map Token.entity
  | .list [.atom "charref", s] => (toStr? s).map Token.charref
  | _ => none

def toTokens? : Sexp → Option (List Token)
  | .list ts => ts.mapM toToken?
  | _ => none

def attrSx (a : Attr) : Sexp := .list [strAtom a.1, optStr a.2]

def tokenSx : Token → Sexp
  | .decl s => .list [sym "decl", strAtom s]
  | .unknownDecl s => .list [sym "udecl", strAtom s]
  | .comment s => .list [sym "comment", strAtom s]
  | .pi s => .list [sym "pi", strAtom s]
  | .start n a => .list (sym "start" :: strAtom n :: a.map attrSx)
  | .startend n a => .list (sym "startend" :: strAtom n :: a.map attrSx)
  | .end_ n => .list [sym "end", strAtom n]
  | .data s => .list [sym "data", strAtom s]
  | .entity s => .list [sym "entity", strAtom s]
  | .charref s => .list [sym "charref", strAtom s]

mutual
partial def treeSx : Node → Sexp
  | .text s => .list [sym "t", strAtom s]
  | .elem n a sc kids =>
    .list (sym "e" :: strAtom n :: .list (a.view.map attrSx) :: sym (if sc then "1" else "0") :: kids.map treeSx)
end

/-- canonical tree: adjacent text merged, empty text dropped -/
def canonSx (t : Node) : Sexp := treeSx t.norm

def excName : Exc → String
  | .multipleRoot => "MultipleRootNodeException"
  | .invalidClose => "InvalidCloseException"
  | .missedClose => "MissedCloseException"
  | .invalidAttr => "InvalidAttributeNameException"

/-- what the public API shows of a parse: doctype, canonical tree, getHTML, names of getRootNodes -/
def docSx (d : Doc) : Sexp :=
  match d.root with
  | none => .list [sym "empty", optStr d.doctype]
  | some r =>
    .list [sym "doc", optStr d.doctype, canonSx r, strAtom (docHTML d.doctype r),
           .list (d.rootNodes.map (fun n => match n with
             | .elem nm _ _ _ => strAtom nm
             | .text _ => sym "text"))]

def feedSx : FeedResult → Sexp
  | .doc d second => .list [sym (if second then "second" else "first"), docSx d]
  | .raised e => .list [sym "raise", sym (excName e)]

end Driver.TokIO
