/- Driver.C08 — stream `C08` (stub: replaced when the property's model is built). -/
namespace Driver.C08
def run (_payload : String) : String := "unimplemented"
end Driver.C08
