/- Driver.C08 — stream `C08`: the shared attribute-store wire format (Driver/AttrsWire.lean, model AHP/Model/Attrs.lean). -/
import Driver.AttrsWire
namespace Driver.C08
def run (payload : String) : String := Driver.AttrsWire.run payload
end Driver.C08
