/-
  Driver.C16 — stream `C16`.

  payload := ( holder idx attrIdx doctype tree tree2 pre ops )
    holder, idx, attrIdx, doctype, tree : as in Driver.C17 (holder also `validating`: a plain parser here)
    tree2  : the second, unrelated document (held by a plain parser)
    pre    := ( ( at op arg* )* )   -- the history of document 0 before the observation starts: every attribute
                                    -- list is read once, then these edits (Driver.C17 `edit` ops, no reindex)
    ops    := ( op* )      op := ( doc obs )      doc := 0 | 1
    obs    := read none | read one i | read two i j | read sub i | read html i | read inner i | read all | read dochtml
            | dochtml | outer i | inner i | starttag i | attrs i | pickle | clone i
    (i, j: element positions in document order, taken modulo the number of elements)

  Output: the canonical snapshot of the world (both documents, objects numbered jointly by first sight), then
  per observer `(= out)` when the snapshot after it equals the previous one, else `(<snapshot> out)`;
  finally whether each parser can still parse (`reset` hook present).
-/
import AHP.Model.Observe
import Driver.C17
namespace Driver.C16
open AHP AHP.Sexp AHP.Pk
open Driver.C17 (build toBool? Canon objRef seed holderSx Gen attrsSx)

def toC17 : Pk.Holder → Driver.C17.Holder
  | .tree t => .tree t
  | .parser p => .parser p

def worldSx (w : World) : Sexp :=
  let act : StateM Canon Sexp := do
    for h in w.docs do seed (toC17 h)
    let ss ← w.docs.mapM (fun h => holderSx (toC17 h))
    pure (.list ss)
  (act.run {}).1

def mkDoc (holder : String) (idx : List Bool) (attrIdx : List Str) (doctype : Option Str) (tree : Sexp) (pid : Nat) (g : Gen) :
    Option (Pk.Holder × Gen) :=
  match holder with
  | "detached" =>
    match (build none tree).run g with
    | (some t, g') => some (.tree t, g')
    | _ => none
  | _ =>
    match (build (some pid) tree).run g with
    | (some t, g') =>
      let ix := match holder, idx with
        | "indexed", [a, b, c, d] => some (indexDoc a b c d attrIdx t)
        | _, _ => none
      some (.parser { oid := pid, root := some t, doctype := doctype, hasReset := true, index := ix }, g')
    | _ => none

def nthOid (w : World) (d i : Nat) : Nat :=
  match w.docs[d]? with
  | some h =>
    match h.root with
    | some r => let l := DN.oids r; if l.isEmpty then 0 else l[i % l.length]?.getD 0
    | none => 0
  | none => 0

def toObs (w : World) (d : Nat) : List Sexp → Option Obs
  | [.atom "read", .atom "none"] => some (.read .none)
  | [.atom "read", .atom "one", i] => (toNat? i).map (fun i => .read (.one (nthOid w d i)))
  | [.atom "read", .atom "two", i, j] => do
    let i ← toNat? i
    let j ← toNat? j
    pure (.read (.two (nthOid w d i) (nthOid w d j)))
  | [.atom "read", .atom "sub", i] => (toNat? i).map (fun i => .read (.sub (nthOid w d i)))
  | [.atom "read", .atom "html", i] => (toNat? i).map (fun i => .read (.html (nthOid w d i)))
  | [.atom "read", .atom "inner", i] => (toNat? i).map (fun i => .read (.inner (nthOid w d i)))
  | [.atom "read", .atom "all"] => some (.read .all)
  | [.atom "read", .atom "dochtml"] => some (.read .docHtml)
  | [.atom "dochtml"] => some .docHtml
  | [.atom "outer", i] => (toNat? i).map (fun i => .outer (nthOid w d i))
  | [.atom "inner", i] => (toNat? i).map (fun i => .inner (nthOid w d i))
  | [.atom "starttag", i] => (toNat? i).map (fun i => .startTag (nthOid w d i))
  | [.atom "attrs", i] => (toNat? i).map (fun i => .attrsList (nthOid w d i))
  | [.atom "pickle"] => some .pickle
  | [.atom "clone", i] => (toNat? i).map (fun i => .clone (nthOid w d i))
  | _ => none

def outSx : Out → Sexp
  | .unit => sym "-"
  | .str s => .list [sym "str", optStr s]
  | .attrs l => .list [sym "attrs", attrsSx l]

def loop : World → String → List Sexp → List Sexp → List Sexp × World
  | w, _, [], acc => (acc.reverse, w)
  | w, prev, op :: rest, acc =>
    match op with
    | .list (d :: obs) =>
      match toNat? d with
      | none => ((sym "bad-op" :: acc).reverse, w)
      | some d =>
        match toObs w d obs with
        | none => ((sym "bad-op" :: acc).reverse, w)
        | some o =>
          let r := obsStep d o w
          let s := (worldSx r.1).render
          let row := if s = prev then Sexp.list [sym "=", outSx r.2] else .list [.atom s, outSx r.2]
          loop r.1 s rest (row :: acc)
    | _ => ((sym "bad-op" :: acc).reverse, w)

def afterView : Pk.Holder → Pk.Holder
  | .tree t => .tree (materialise t)
  | .parser p => .parser p.afterGetstate

def preEdits : Pk.Holder → Gen → List Sexp → Option (Pk.Holder × Gen)
  | h, g, [] => some (h, g)
  | h, g, .list (at_ :: op) :: rest =>
    match toNat? at_, Driver.C17.toEdit op, h.root with
    | some i, some e, some r =>
      let l := DN.oids r
      let t := if l.isEmpty then 0 else l[i % l.length]?.getD 0
      preEdits (h.setRoot (applyEdit t g.oid g.uid e r)) ⟨g.oid + 1, g.uid + 1⟩ rest
    | _, _, _ => none
  | _, _, _ => none

def runCase (holder : String) (idx : List Bool) (attrIdx : List Str) (doctype : Option Str) (tree tree2 : Sexp)
    (pre ops : List Sexp) : Sexp :=
  -- document 0: the holder under observation (parser object 0); document 1: a plain parser (object 1)
  match mkDoc holder idx attrIdx doctype tree 0 ⟨2, 0⟩ with
  | none => .list [sym "build-raised"]
  | some (h0, g) =>
    match mkDoc "plain" [] [] none tree2 1 g with
    | none => .list [sym "build-raised"]
    | some (h1, g1) =>
      -- the history of document 0: one full read of both documents, then the edits
      match (if pre.isEmpty then some (h0, h1, g1) else (preEdits (afterView h0) g1 pre).map (fun r => (r.1, afterView h1, r.2))) with
      | none => .list [sym "bad-pre"]
      | some (h0, h1, g') =>
      let w : World := { docs := [h0, h1], next := g'.oid, nextUid := g'.uid }
      let s0 := (worldSx w).render
      let (rows, w') := loop w s0 ops []
      .list ([sym "ok", .atom s0] ++ rows ++
        [.list (sym "reuse" :: w'.docs.map (fun h => sym (if canParseAgain h then "ok" else "broken")))])

def run (payload : String) : String :=
  match Sexp.parse payload with
  | some (.list [.atom holder, .list idx, .list attrIdx, doctype, tree, tree2, .list pre, .list ops]) =>
    match idx.mapM toBool?, attrIdx.mapM toStr?, toOptStr? doctype with
    | some idx, some attrIdx, some doctype => (runCase holder idx attrIdx doctype tree tree2 pre ops).render
    | _, _, _ => "bad-case"
  | _ => "bad-case"

end Driver.C16
