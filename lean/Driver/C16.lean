/- Driver.C16 — stream `C16` (stub: replaced when the property's model is built). -/
namespace Driver.C16
def run (_payload : String) : String := "unimplemented"
end Driver.C16
