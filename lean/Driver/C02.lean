/-
  Driver.C02 — stream `C02`: payload `(history tokens*)`: each element of the history is the token list of
  one parse on the same parser object; the observation is taken after each parse.
  `(wrap text)`: `addStartTag(text, '<xxxblank>') + '</xxxblank>'`; `(strip text)`: `stripIEConditionals(text)`.
-/
import Driver.TokIO
import AHP.Model.StripIE
namespace Driver.C02
open AHP AHP.Sexp Driver.TokIO

def run (payload : String) : String :=
  match Sexp.parse payload with
  | some (.list [.atom "wrap", t]) =>
    match toStr? t with
    | some text => (strAtom (wrapStr text)).render
    | none => "bad-case"
  | some (.list [.atom "strip", t]) =>
    -- `utils.stripIEConditionals(text)`
    match toStr? t with
    | some text => (strAtom (stripIE text)).render
    | none => "bad-case"
  | some (.list hist) =>
    match hist.mapM toTokens? with
    | some hs =>
      -- every parse starts with `reset()`: the model's `feedTokens` starts from `BState.init`
      (Sexp.list (hs.map (fun toks => feedSx (feedTokens toks)))).render
    | none => "bad-case"
  | _ => "bad-case"

end Driver.C02
