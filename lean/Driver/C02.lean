/-
  Driver.C02 — stream `C02`: payload `(history tokens*)`: each element of the history is the token list of
  one parse on the same parser object; the observation is taken after each parse.
  `(wrap text)`: `addStartTag(text, '<xxxblank>') + '</xxxblank>'`; `(strip text)`: `stripIEConditionals(text)`;
  `(stripparse text stripped toks1 toks2)`: `parseStr(text)` with the stripping step done by the model.
-/
import Driver.TokIO
import AHP.Model.StripIE
namespace Driver.C02
open AHP AHP.Sexp Driver.TokIO

/-- the two passes on token sequences supplied from outside (as in stream C03): for text that is not in the
    serialiser's image the tokens of the wrapped text are not `wrapToks` of the tokens of the text -/
def feed2 (t1 t2 : List Token) : FeedResult :=
  match AHP.run BState.init t1 with
  | .multipleRoot => FeedResult.ofPass true (AHP.run BState.init t2)
  | o => FeedResult.ofPass false o

def run (payload : String) : String :=
  match Sexp.parse payload with
  | some (.list [.atom "stripparse", t, st, a, b]) =>
    -- `parseStr(text)`: the model strips; the real tokenizer's tokens of the *real* stripped text (and of that
    -- text wrapped) are used only if the model's stripped text is the real one
    match toStr? t, toStr? st, toTokens? a, toTokens? b with
    | some text, some stripped, some t1, some t2 =>
      if stripIE text = stripped then (feedSx (feed2 t1 t2)).render
      else (Sexp.list [sym "strip-mismatch", strAtom (stripIE text)]).render
    | _, _, _, _ => "bad-case"
  | some (.list [.atom "wrap", t]) =>
    match toStr? t with
    | some text => (strAtom (wrapStr text)).render
    | none => "bad-case"
  | some (.list [.atom "strip", t]) =>
    -- `utils.stripIEConditionals(text)`
    match toStr? t with
    | some text => (strAtom (stripIE text)).render
    | none => "bad-case"
  | some (.list hist) =>
    match hist.mapM toTokens? with
    | some hs =>
      -- every parse starts with `reset()`: the model's `feedTokens` starts from `BState.init`
      (Sexp.list (hs.map (fun toks => feedSx (feedTokens toks)))).render
    | none => "bad-case"
  | _ => "bad-case"

end Driver.C02
