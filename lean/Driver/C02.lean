/- Driver.C02 — stream `C02` (stub: replaced when the property's model is built). -/
namespace Driver.C02
def run (_payload : String) : String := "unimplemented"
end Driver.C02
