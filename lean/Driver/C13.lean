/- Driver.C13 — stream `C13` (stub: replaced when the property's model is built). -/
namespace Driver.C13
def run (_payload : String) : String := "unimplemented"
end Driver.C13
