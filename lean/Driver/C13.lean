/-
  Driver.C13 — stream `C13`: payload = token list of one document; observation = what
  `ValidatingAdvancedHTMLParser.parseStr` shows (exception class, or the document) next to what the plain
  parser builds from the same tokens.
-/
import Driver.TokIO
namespace Driver.C13
open AHP AHP.Sexp Driver.TokIO

def run (payload : String) : String :=
  match Sexp.parse payload with
  | some s =>
    match toTokens? s with
    | some toks => (Sexp.list [feedSx (vFeedTokens toks), feedSx (feedTokens toks)]).render
    | none => "bad-case"
  | none => "bad-case"

end Driver.C13
