/-
  Driver.C18 — stream `C18`: payload `(forest ops)`
    forest := ( tree* )        tree := ( uid tree* )
    ops    := ( op* )          op   := (ctor x*) | (add x*) | (iadd x*) | (sub x*) | (isub x*) | (uniq x*)
  Output: one observation per op (see `obs`), or `(raise)` and stop.
-/
import AHP.Model.Coll
namespace Driver.C18
open AHP AHP.Sexp

partial def toTree : Sexp → Option UTree
  | .list (u :: ks) => do
    let uid ← toNat? u
    let kids ← ks.mapM toTree
    pure (.node uid kids)
  | _ => none

def nats (xs : List Sexp) : Option (List Nat) := xs.mapM toNat?

def sortNat (xs : List Nat) : List Nat := (xs.toArray.qsort (· < ·)).toList

def natList (xs : List Nat) : Sexp := .list (xs.map natAtom)
def bits (bs : List Bool) : Sexp := .atom (String.ofList (bs.map (fun b => if b then '1' else '0')))

def allUids (f : Forest) : List Nat := UTree.descListL f

def obs (f : Forest) (c : Coll) : Sexp :=
  let u := allUids f
  .list [sym "ok", natList c.items, natList (sortNat c.uids), bits (u.map c.mem),
         natList (c.getAllNodes f).items, natList (sortNat ((c.getAllNodeUids f).eraseDups)),
         bits (u.map (c.containsUid f))]

def toAttr? : Sexp → Option (Str × Option Str)
  | .list [n, v] => do
    let n ← toStr? n
    let v ← toOptStr? v
    pure (n, v)
  | _ => none

def toProbe? : Sexp → Option (Str × List (Str × Option Str))
  | .list (n :: as) => do
    let n ← toStr? n
    let as ← as.mapM toAttr?
    pure (n, as)
  | _ => none

/-- the probes as elements of the model (AHP/Model/Coll.lean, `Ident.Elem`): detached, childless, uid = position -/
def probeElems (ps : List (Str × List (Str × Option Str))) : List Ident.Elem :=
  (ps.zip (List.range ps.length)).map (fun (p, i) => ⟨i, p.1, p.2, []⟩)

/-- `(tageq probe*)`: the matrix of `isTagEqual` over the probes, row by row (`Ident.Elem.isTagEqual`: name and
    attributes only — every probe has its own uid).  The identity functions `Ident.Elem.eq/ne/hash` are not called
    by this driver: the wire carries uids, the collection model compares uids (`Nat` equality), which
    `C18.list_primitives_by_uid` proves to be the element-level primitives; identity on the library is decided by the
    harness's identity oracle. -/
def tagEqMatrix (ps : List (Str × List (Str × Option Str))) : Sexp :=
  let es := probeElems ps
  .list (es.map (fun p => bits (es.map (fun q => p.isTagEqual q))))

def stepOp (c : Coll) : Sexp → Option (Option Coll)   -- outer none = bad op
  | .list (.atom "ctor" :: xs) => (nats xs).map (fun xs => some (Coll.ofList xs))
  | .list (.atom "add" :: xs) => (nats xs).map (fun xs => some (c.add xs))
  | .list (.atom "iadd" :: xs) => (nats xs).map (fun xs => some (c.iadd xs))
  | .list (.atom "sub" :: xs) => (nats xs).map (fun xs => c.sub xs)
  | .list (.atom "isub" :: xs) => (nats xs).map (fun xs => c.isub xs)
  | .list (.atom "uniq" :: xs) => (nats xs).map (fun xs => some (uniqueTags xs))
  | _ => none

def loop (f : Forest) : Coll → List Sexp → List Sexp → List Sexp
  | _, [], acc => acc.reverse
  | c, .list (.atom "tageq" :: ps) :: ops, acc =>
    match ps.mapM toProbe? with
    | some ps => loop f c ops (tagEqMatrix ps :: acc)
    | none => (sym "bad-op" :: acc).reverse
  | c, op :: ops, acc =>
    match stepOp c op with
    | none => (sym "bad-op" :: acc).reverse
    | some none => (.list [sym "raise"] :: acc).reverse
    | some (some c') => loop f c' ops (obs f c' :: acc)

def run (payload : String) : String :=
  match Sexp.parse payload with
  | some (.list [.list trees, .list ops]) =>
    match trees.mapM toTree with
    | some f => (Sexp.list (loop f Coll.empty ops [])).render
    | none => "bad-case"
  | _ => "bad-case"

end Driver.C18
