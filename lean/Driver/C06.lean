/-
  Driver.C06 — stream `C06`: payload `(doc (query*))`
    doc   := node            node := (uid "tag ((\"k \"v)*) ("cls*) "text node*)
    query := (recv op)
    recv  := (P) | (P uid) | (E uid) | (C uid*)
    op    := (tag "q) | (name "q) | (id "q) | (cls "q) | (attr "a "v) | (vals "a ("v*))
           | (custom pred) | (first pred) | (find (("key one "v) | ("key many "v*))*)
           | (filter and|or|alland|allor crit*)
    crit  := (eq "f "v) | (ne "f "v) | (contains "f "v) | (icontains "f "v) | (in "f "v*)
    pred  := (true) | (hasattr "a) | (tagis "t) | (hascls "c) | (textsub "s) | (not p) | (and p q) | (or p q)
  Output: one answer per query: (ok uid*) | (one uid) | (none) | (raise) | (na).
-/
import AHP.Model.Search
namespace Driver.C06
open AHP AHP.G3 AHP.Sexp

partial def toNode : Sexp → Option Node
  | .list (u :: t :: .list attrs :: .list cls :: txt :: ks) => do
    let uid ← toNat? u
    let tag ← toStr? t
    let attrs ← attrs.mapM (fun a => match a with
      | .list [k, v] => do pure ((← toStr? k), (← toStr? v))
      | _ => none)
    let cls ← cls.mapM toStr?
    let text ← toStr? txt
    let kids ← ks.mapM toNode
    pure (.mk ⟨uid, tag, attrs, cls, text⟩ kids)
  | _ => none

partial def toPred : Sexp → Option (Elem → Bool)
  | .list [.atom "true"] => some (fun _ => true)
  | .list [.atom "hasattr", a] => do let a ← toStr? a; pure (fun e => (e.attr a).isSome)
  | .list [.atom "tagis", t] => do let t ← toStr? t; pure (fun e => e.tag == t)
  | .list [.atom "hascls", c] => do let c ← toStr? c; pure (fun e => e.hasClass c)
  | .list [.atom "textsub", s] => do let s ← toStr? s; pure (fun e => isSub s e.text)
  | .list [.atom "not", p] => do let p ← toPred p; pure (fun e => !(p e))
  | .list [.atom "and", p, q] => do let p ← toPred p; let q ← toPred q; pure (fun e => p e && q e)
  | .list [.atom "or", p, q] => do let p ← toPred p; let q ← toPred q; pure (fun e => p e || q e)
  | _ => none

def toRecv (doc : Node) : Sexp → Option Recv
  | .list [.atom "P"] => some (.parser doc none)
  | .list [.atom "P", u] => do let u ← toNat? u; let n ← doc.find? u; pure (.parser doc (some n))
  | .list [.atom "E", u] => do let u ← toNat? u; let n ← doc.find? u; pure (.element n)
  | .list (.atom "C" :: us) => do
    let us ← us.mapM toNat?
    let ms ← us.mapM doc.find?
    pure (.coll ms)
  | _ => none

def toCrit : Sexp → Option Crit
  | .list [.atom "eq", f, v] => do pure (.eq (← toStr? f) (← toStr? v))
  | .list [.atom "ne", f, v] => do pure (.ne (← toStr? f) (← toStr? v))
  | .list [.atom "contains", f, v] => do pure (.contains (← toStr? f) (← toStr? v))
  | .list [.atom "icontains", f, v] => do pure (.icontains (← toStr? f) (← toStr? v))
  | .list (.atom "in" :: f :: vs) => do pure (.isin (← toStr? f) (← vs.mapM toStr?))
  | _ => none

def toFindArg : Sexp → Option (Str × FVal)
  | .list [k, .atom "one", v] => do pure ((← toStr? k), .one (← toStr? v))
  | .list (k :: .atom "many" :: vs) => do pure ((← toStr? k), .many (← vs.mapM toStr?))
  | _ => none

def toMode : String → Option FMode
  | "and" => some .and_
  | "or" => some .or_
  | "alland" => some .allAnd
  | "allor" => some .allOr
  | _ => none

def okTC (c : TC) : Sexp := .list (sym "ok" :: c.ids.map natAtom)
def optTC : Option TC → Sexp
  | some c => okTC c
  | none => .list [sym "raise"]
def one : Option Node → Sexp
  | some n => .list [sym "one", natAtom n.uid]
  | none => .list [sym "none"]

def bad : Sexp := sym "bad-query"

def runOp (doc : Node) (r : Recv) : Sexp → Sexp
  | .list [.atom "tag", q] => match toStr? q with
    | some q => okTC (byTagName q r)
    | none => bad
  | .list [.atom "name", q] => match toStr? q with
    | some q => okTC (byName q r)
    | none => bad
  | .list [.atom "id", q] => match toStr? q with
    | some q => one (byId q r)
    | none => bad
  | .list [.atom "cls", q] => match toStr? q with
    | some q => optTC (byClassName q r)
    | none => bad
  | .list [.atom "attr", a, v] => match toStr? a, toStr? v with
    | some a, some v => okTC (byAttr a v r)
    | _, _ => bad
  | .list [.atom "vals", a, .list vs] => match toStr? a, vs.mapM toStr? with
    | some a, some vs => okTC (withAttrValues a vs r)
    | _, _ => bad
  | .list [.atom "custom", p] => match toPred p with
    | some f => okTC (customFilter f r)
    | none => bad
  | .list [.atom "first", p] => match toPred p with
    | some f => match firstCustomFilter f r with
      | some x => one x
      | none => .list [sym "na"]
    | none => bad
  | .list [.atom "find", .list args] => match args.mapM toFindArg with
    | some kw => match r with
      | .parser _ none => optTC (find doc kw)
      | _ => .list [sym "na"]
    | none => bad
  | .list (.atom "filter" :: .atom m :: cs) => match toMode m, cs.mapM toCrit with
    | some m, some cs => match r with
      | .parser _ (some _) => .list [sym "na"]          -- parser.filter* take no root= argument
      | _ => match filterQ m cs r with
        | some c => okTC c
        | none => .list [sym "na"]
    | _, _ => bad
  | _ => bad

def runQuery (doc : Node) : Sexp → Sexp
  | .list [rv, op] => match toRecv doc rv with
    | some r => runOp doc r op
    | none => sym "bad-recv"
  | _ => bad

def run (payload : String) : String :=
  match Sexp.parse payload with
  | some (.list [d, .list qs]) =>
    match toNode d with
    | some doc => (Sexp.list (qs.map (runQuery doc))).render
    | none => "bad-doc"
  | _ => "bad-case"

end Driver.C06
