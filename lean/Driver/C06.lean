/- Driver.C06 — stream `C06` (stub: replaced when the property's model is built). -/
namespace Driver.C06
def run (_payload : String) : String := "unimplemented"
end Driver.C06
