/- Driver.C17 — stream `C17` (stub: replaced when the property's model is built). -/
namespace Driver.C17
def run (_payload : String) : String := "unimplemented"
end Driver.C17
