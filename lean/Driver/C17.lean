/-
  Driver.C17 — stream `C17`.

  payload  := ( holder idx attrIdx doctype tree edit cloneAt )      |   tables
    holder := detached | plain | indexed
    idx    := ( b b b b )                 -- indexIDs indexNames indexClassNames indexTagNames (0/1)
    attrIdx:= ( "name* )                  -- addIndexOnAttribute(name) before the parse
    doctype:= none | "str
    tree   := ( e "name ( (k v)* ) sc ( block* ) )          v := none | "str     sc := 0 | 1
    block  := ( t "str ) | tree
    edit   := ( side at op arg* )         side := orig | copy | none
    cloneAt:= nat

  Output (see harness/ahpcheck/props/c17.py, `observe`): the original, its unpickled copy, both after the
  edit, the re-pickled edited side, the clone — every section rendered with object identities and uids
  numbered by first sight, so that sharing between original and copy is visible and uuids are not.
-/
import AHP.Model.Pickle
namespace Driver.C17
open AHP AHP.Sexp AHP.Pk

/-! #### decoding -/

def toAttr : Sexp → Option (Str × Option Str)
  | .list [k, v] => do
    let k ← toStr? k
    let v ← toOptStr? v
    pure (k, v)
  | _ => none

def toBool? : Sexp → Option Bool
  | .atom "0" => some false
  | .atom "1" => some true
  | _ => none

/-- builder state: next object id, next uid -/
structure Gen where
  oid : Nat
  uid : Nat

/-- Build an element from its description the way the public API does: construct, then append the
    blocks in order (children built first).  `none` = a constructor raised / malformed description. -/
partial def build (owner : Option Nat) : Sexp → StateM Gen (Option DN)
  | .list [.atom "t", s] => pure ((toStr? s).map DN.text)
  | .list [.atom "e", name, .list attrs, sc, .list blocks] => do
    match toStr? name, attrs.mapM toAttr, toBool? sc with
    | some name, some attrs, some sc =>
      let g ← get
      set { g with oid := g.oid + 1, uid := g.uid + 1 }
      match DN.mk g.oid g.uid name attrs sc owner with
      | none => pure none
      | some e0 =>
        let mut e := e0
        for b in blocks do
          match ← build owner b with
          | none => return none
          | some b' => e := DN.appendBlock e b'
        pure (some e)
    | _, _, _ => pure none
  | _ => pure none

/-! #### holders -/

inductive Holder where
  | tree (t : DN)
  | parser (p : Parser)

def Holder.root : Holder → Option DN
  | .tree t => some t
  | .parser p => p.root

def Holder.setRoot (h : Holder) (r : DN) : Holder :=
  match h with
  | .tree _ => .tree r
  | .parser p => .parser { p with root := some r }

def Holder.roundTrip (h : Holder) (n : Nat) : Option (Holder × Nat) :=
  match h with
  | .tree t => (Pk.roundTrip id t n).map (fun r => (.tree r.1, r.2))
  | .parser p => (p.roundTrip n).map (fun r => (.parser r.1, r.2))

/-- the original after it has been pickled (`getAttributesList` inside `__getstate__` synchronised); also what
    the harness's own snapshot (which calls `getAttributesList` on every element) leaves behind -/
def Holder.afterPickle : Holder → Holder
  | .tree t => .tree (materialise t)
  | .parser p => .parser p.afterGetstate

/-! #### canonical rendering -/

structure Canon where
  objs : List Nat := []
  uids : List Nat := []

def seen (xs : List Nat) (x : Nat) : List Nat × Nat :=
  match xs.findIdx? (· == x) with
  | some i => (xs, i)
  | none => (xs ++ [x], xs.length)

def objRef (o : Nat) : StateM Canon Sexp := do
  let c ← get
  let (l, i) := seen c.objs o
  set { c with objs := l }
  pure (natAtom i)

def uidRef (u : Nat) : StateM Canon Sexp := do
  let c ← get
  let (l, i) := seen c.uids u
  set { c with uids := l }
  pure (natAtom i)

def optRef : Option Nat → StateM Canon Sexp
  | none => pure (sym "none")
  | some o => objRef o

def attrsSx (l : List (Str × Option Str)) : Sexp :=
  .list (l.map (fun p => .list [strAtom p.1, optStr p.2]))

def blockSx : DN → StateM Canon Sexp
  | .text s => pure (.list [sym "t", strAtom s])
  | .el o .. => do pure (.list [sym "e", ← objRef o])

def elSx : DN → StateM Canon Sexp
  | .text _ => pure (sym "text")
  | .el o u n a sc blocks ch t p ow => do
    let o' ← objRef o
    let u' ← uidRef u
    let p' ← optRef p
    let ow' ← optRef ow
    let ch' ← ch.mapM objRef
    let bl' ← blocks.mapM blockSx
    pure (.list [o', u', strAtom n, attrsSx (Attrs.attrsList a), sym (if sc then "1" else "0"), p', ow',
                 strAtom t, .list ch', .list bl'])

def refsSx (m : List (Str × List Nat)) : StateM Canon Sexp := do
  let rows ← m.mapM (fun p => do pure (Sexp.list [strAtom p.1, .list (← p.2.mapM objRef)]))
  pure (.list rows)

def indexSx : Option Index → StateM Canon Sexp
  | none => pure (sym "noindex")
  | some ix => do
    let ids ← ix.idMap.mapM (fun p => do pure (Sexp.list [strAtom p.1, ← objRef p.2]))
    let nm ← refsSx ix.nameMap
    let cm ← refsSx ix.classMap
    let tm ← refsSx ix.tagMap
    let am ← ix.attrMaps.mapM (fun q => do pure (Sexp.list [strAtom q.1, ← refsSx q.2]))
    pure (.list [.list ids, nm, cm, tm, .list am])

/-- first number the holder's own objects in document order, then render -/
def seed (h : Holder) : StateM Canon Unit := do
  match h with
  | .parser p => let _ ← objRef p.oid
  | .tree _ => pure ()
  match h.root with
  | some r => for o in DN.oids r do let _ ← objRef o
  | none => pure ()

def holderSx (h : Holder) : StateM Canon Sexp := do
  match h with
  | .tree t =>
    let els ← (DN.elems t).mapM elSx
    pure (.list [sym "tree", strAtom (DN.html t), .list els])
  | .parser p =>
    let me ← objRef p.oid
    let ix ← indexSx p.index
    let els ← match p.root with
      | some r => (DN.elems r).mapM elSx
      | none => pure []
    pure (.list [sym "parser", me, optStr p.html, optStr p.doctype, sym (if p.hasReset then "reset" else "noreset"),
                 ix, .list els])

def pairSx (tag : String) (a b : Holder) : Sexp :=
  let act : StateM Canon Sexp := do
    seed a
    seed b
    let sa ← holderSx a
    let sb ← holderSx b
    pure (.list [sym tag, sa, sb])
  (act.run {}).1

/-! #### the case -/

def toEdit : List Sexp → Option Edit
  | [.atom "appendText", s] => (toStr? s).map .appendText
  | [.atom "appendChild", s] => (toStr? s).map .appendChild
  | [.atom "setAttribute", k, v] => do pure (.setAttribute (← toStr? k) (← toStr? v))
  | [.atom "removeAttribute", k] => (toStr? k).map .removeAttribute
  | [.atom "addClass", k] => (toStr? k).map .addClass
  | [.atom "removeChild", i] => (toNat? i).map .removeChild
  | _ => none

def nthOid (h : Holder) (i : Nat) : Option Nat :=
  match h.root with
  | some r => let l := DN.oids r; if l.isEmpty then none else l[i % l.length]?
  | none => none

/-- `reindex()` (the documented duty after removing elements from an indexed document) -/
def reindex (h : Holder) : Holder :=
  match h with
  | .parser p =>
    match p.index, p.root with
    | some ix, some r => .parser { p with index := some (indexDoc ix.ids ix.names ix.classes ix.tags (dkeys ix.attrMaps) r) }
    | _, _ => h
  | _ => h

def editHolder (h : Holder) (at_ : Nat) (e : Edit) (oid uid : Nat) : Holder :=
  match h.root, nthOid h at_ with
  | some r, some t =>
    let h' := h.setRoot (applyEdit t oid uid e r)
    match e with
    | .removeChild _ => reindex h'
    | _ => h'
  | _, _ => h

def cloneSx (orig : DN) (c : DN) : Sexp :=
  let act : StateM Canon Sexp := do
    let _ ← objRef orig.oid
    let _ ← uidRef (uidOf orig)
    let s ← elSx c
    pure (.list [sym "clone", s, strAtom (DN.html c),
                 sym (if isTagEqual orig c then "tageq" else "tagne"), sym (if isTagEqual c orig then "tageq" else "tagne"),
                 sym (if tagEq orig c then "eq" else "ne")])
  (act.run {}).1

def mkHolder (holder : String) (idx : List Bool) (attrIdx : List Str) (doctype : Option Str) (tree : Sexp) : Option (Holder × Gen) :=
  match holder with
  | "detached" =>
    match (build none tree).run ⟨1, 0⟩ with
    | (some t, g) => some (.tree t, g)
    | _ => none
  | _ =>
    match (build (some 0) tree).run ⟨1, 0⟩ with
    | (some t, g) =>
      let ix := match holder, idx with
        | "indexed", [a, b, c, d] => some (indexDoc a b c d attrIdx t)
        | _, _ => none
      some (.parser { oid := 0, root := some t, doctype := doctype, hasReset := true, index := ix }, g)
    | _ => none

def protocols : List Nat := [0, 1, 2, 3, 4, 5]

def runCase (holder : String) (idx : List Bool) (attrIdx : List Str) (doctype : Option Str) (tree : Sexp) (edit : Sexp) (cloneAt : Nat) : Sexp :=
  match mkHolder holder idx attrIdx doctype tree with
  | none => .list [sym "build-raised"]
  | some (x, g) =>
    match x.roundTrip g.oid with
    | none => .list [sym "pickle-raised"]
    | some (y, n1) =>
      let x1 := x.afterPickle
      let first := protocols.map (fun _ => pairSx "pair" x1 y)
      let y := y.afterPickle          -- the snapshot just taken read every attribute list of the copy
      -- the edit
      let (xe, ye, sideTag, n2) := match edit with
        | .list (.atom side :: at_ :: op) =>
          match toNat? at_, toEdit op with
          | some i, some e =>
            if side = "orig" then (editHolder x1 i e n1 g.uid, y, "orig", n1 + 1)
            else if side = "copy" then (x1, editHolder y i e n1 g.uid, "copy", n1 + 1)
            else (x1, y, "none", n1)
          | _, _ => (x1, y, "none", n1)
        | _ => (x1, y, "none", n1)
      let afterEdit := pairSx "edited" xe ye
      -- re-pickle the edited side
      let xe := xe.afterPickle
      let ye := ye.afterPickle
      let src := if sideTag = "orig" then xe else ye
      let re := match src.roundTrip n2 with
        | none => .list [sym "repickle-raised"]
        | some (z, _) => pairSx "repickled" src.afterPickle z
      -- clone family on the original (three ways, one model)
      let cl := match x.root with
        | some r =>
          let els := DN.elems r
          if els.isEmpty then .list [sym "noclone"] else
          match els[cloneAt % els.length]? with
          | some e =>
            match clone (n2 + 1000) (g.uid + 1000) e with
            | some c => let s := cloneSx e c; .list [sym "clones", s, s, s]
            | none => .list [sym "clone-raised"]
          | none => .list [sym "noclone"]
        | none => .list [sym "noclone"]
      -- the parsers stay usable (`reset` hook present)
      let reuse := match xe, ye with
        | .parser a, .parser b => Sexp.list [sym "reuse", sym (if a.hasReset then "ok" else "broken"), sym (if b.hasReset then "ok" else "broken")]
        | _, _ => .list [sym "reuse", sym "none"]
      .list ([sym "ok"] ++ first ++ [afterEdit, re, cl, reuse])

def tables : Sexp :=
  .list [.list (binaryAttrs.map strAtom), .list (boolStrAttrs.map strAtom), .list (voidTags.map strAtom), strAtom invisibleRoot]

def run (payload : String) : String :=
  match Sexp.parse payload with
  | some (.atom "tables") => tables.render
  | some (.list [.atom holder, .list idx, .list attrIdx, doctype, tree, edit, cloneAt]) =>
    match idx.mapM toBool?, attrIdx.mapM toStr?, toOptStr? doctype, toNat? cloneAt with
    | some idx, some attrIdx, some doctype, some cloneAt => (runCase holder idx attrIdx doctype tree edit cloneAt).render
    | _, _, _, _ => "bad-case"
  | _ => "bad-case"

end Driver.C17
