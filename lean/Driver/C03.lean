/-
  Driver.C03 — stream `C03`: payload `(toks1 toks2)`: the token sequences the real tokenizer reports for the
  text (first pass) and for the text wrapped by the real `addStartTag` (second pass; used only when the first
  pass ends in MultipleRootNodeException).  For hostile text the second sequence is *not* `wrapToks` of the
  first (an unterminated construct at the end of the text merges with the wrapper's end tag), so both are
  supplied.  Observation: nothing parsed / the document / the exception.
-/
import Driver.TokIO
namespace Driver.C03
open AHP AHP.Sexp Driver.TokIO

def feed2 (t1 t2 : List Token) : FeedResult :=
  match AHP.run BState.init t1 with
  | .multipleRoot => FeedResult.ofPass true (AHP.run BState.init t2)
  | o => FeedResult.ofPass false o

def run (payload : String) : String :=
  match Sexp.parse payload with
  | some (.list [a, b]) =>
    match toTokens? a, toTokens? b with
    | some t1, some t2 => (feedSx (feed2 t1 t2)).render
    | _, _ => "bad-case"
  | _ => "bad-case"

end Driver.C03
