/- Driver.C03 — stream `C03` (stub: replaced when the property's model is built). -/
namespace Driver.C03
def run (_payload : String) : String := "unimplemented"
end Driver.C03
