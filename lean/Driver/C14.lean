/-
  Driver.C14 — stream `C14`.

  payload := (DOC WRAPPER (RECV*) (STEP*) "TEXT)      -- a well-formed expression: its syntax tree and the text the library gets
           | (text "TEXT)                             -- any text: only "parses or raises" and the parsed structure are compared
  DOC     := ((name parent ((k v)*) text)*)      -- pre-order; parent = none | index
  WRAPPER := 0 | 1                                -- element 0 is the invisible wrapper of a multi-root document
  RECV    := (doc) | (el i) | (coll i*)
  STEP    := (dbl axis name (PRED*))              -- dbl = 0|1, axis = none|child|desc|dos|parent|anc|aos
  PRED    := (num "lit) | (str "s) | (attr "n) | (text) | (last) | (pos) | (concat PRED*) | (contains PRED PRED)
           | (nspace) | (nspace PRED) | (group PRED) | (bin OP PRED PRED)
  OP      := cat add sub mul div mod | eq ne lt le gt ge | and or

  Output, first form: the TEXT is parsed by the model's tokenizer (`parseExpr`, AHP/Model/XPathParse.lean); one
  result per receiver — `err` or `(id*)` — computed by the *model from the parsed text* (parse → compile with
  constant folding → step driver with the pass-based predicate evaluator), then `parsediff` when the parse is not
  the flat form of the syntax tree the harness sent, else `ok` when the specification evaluator (`specEval`,
  recursive over the syntax tree) gives the same on every receiver, `specdiff` otherwise.  Numbers: `Float`.
  Output, second form: `err` when tokenizing or constant folding raises, else `(parsed OP*)` with
    OP   := (find KIND "name) | (find self) | (pred ELEM*)
    KIND := one oneself multi multiself parent anc aos            -- the find-function chosen for the step
    ELEM := (num BITS) | (str "s) | (bool 0|1) | (null) | (attr "n) | (text) | (last) | (pos) | (concat ELEM*)
          | (contains ELEM ELEM) | (nspace) | (nspace ELEM) | (group ELEM*) | (op OP)
  the canonical print of `XPathExpression(text).orderedOperations` (after constant folding).
-/
import AHP.Model.Basic
import AHP.Model.XPath
import AHP.Model.XPathSpec
import AHP.Model.XPathParse
namespace Driver.C14
open AHP AHP.Sexp AHP.XPath

/-! ### `Float` as the numeric structure -/

def isDigit (c : Char) : Bool := '0' ≤ c && c ≤ '9'

def natOfDigits (ds : List Char) : Nat := ds.foldl (fun n c => n * 10 + (c.toNat - 48)) 0

/-- Python `float(str)` on the plain decimal forms (`[ws][+-]digits[.digits][e[+-]digits][ws]`, `.5`, `5.`);
    everything else (inf, nan, underscores, empty) is a ValueError here. -/
def parseFloat (s : Str) : Option Float :=
  let t := strip s
  let (neg, t) := match t with
    | '-' :: r => (true, r)
    | '+' :: r => (false, r)
    | r => (false, r)
  let ip := t.takeWhile isDigit
  let t1 := t.dropWhile isDigit
  let (fp, t2, hadDot) := match t1 with
    | '.' :: r => (r.takeWhile isDigit, r.dropWhile isDigit, true)
    | r => ([], r, false)
  if ip.isEmpty && fp.isEmpty then none
  else
    let expo : Option Int := match t2 with
      | [] => some 0
      | c :: r =>
        if c = 'e' || c = 'E' then
          let (eneg, r) := match r with
            | '-' :: r' => (true, r')
            | '+' :: r' => (false, r')
            | r' => (false, r')
          if r.isEmpty || !r.all isDigit then none
          else some (if eneg then -(Int.ofNat (natOfDigits r)) else Int.ofNat (natOfDigits r))
        else none
    match expo with
    | none => none
    | some e =>
      let _ := hadDot
      let m := natOfDigits (ip ++ fp)
      let e10 : Int := e - Int.ofNat fp.length
      let v : Float :=
        if e10 ≥ 0 then
          if e10 ≤ 22 then m.toFloat * (10 ^ e10.toNat : Nat).toFloat else Float.ofScientific m false e10.toNat
        else
          if (-e10) ≤ 22 && m < 9007199254740992 then m.toFloat / (10 ^ (-e10).toNat : Nat).toFloat
          else Float.ofScientific m true (-e10).toNat
      some (if neg then -v else v)

def isIntegral (x : Float) : Bool := x.isFinite && x.floor == x

def floatToInt (x : Float) : Int :=
  if x < 0 then -(Int.ofNat (-x).toUInt64.toNat) else Int.ofNat x.toUInt64.toNat

def small (x : Float) : Bool := x.abs < 9007199254740992.0

/-- Python `x % y` for floats (sign of the divisor). -/
def pyMod (x y : Float) : Float :=
  if isIntegral x && isIntegral y && small x && small y then
    Float.ofInt (Int.fmod (floatToInt x) (floatToInt y))
  else
    let r := x - y * (x / y).floor
    r

def floatNum : Num Float where
  parse := parseFloat
  ofNat := Float.ofNat
  add := (· + ·)
  sub := (· - ·)
  mul := (· * ·)
  div := fun x y => if y == 0 then none else some (x / y)
  mod := fun x y => if y == 0 then none else some (pyMod x y)
  eq := fun x y => x == y
  lt := fun x y => x < y
  le := fun x y => x ≤ y
  toIndex := fun x =>
    if !x.isFinite then none
    else if isIntegral x then (if x.abs < 1e18 then some (some (floatToInt x)) else some (some 0))
    else some none
  toStr := fun x =>
    if isIntegral x && x.abs < 1e15 then
      let k := floatToInt x
      some ((toString k).toList ++ ".0".toList)
    else none

/-! ### Decoding -/

def toOp : String → Option Op
  | "cat" => some (.arith .concat) | "add" => some (.arith .add) | "sub" => some (.arith .sub)
  | "mul" => some (.arith .mul) | "div" => some (.arith .div) | "mod" => some (.arith .mod)
  | "eq" => some (.cmp .eq) | "ne" => some (.cmp .ne) | "lt" => some (.cmp .lt)
  | "le" => some (.cmp .le) | "gt" => some (.cmp .gt) | "ge" => some (.cmp .ge)
  | "and" => some (.bool .and) | "or" => some (.bool .or)
  | _ => none

partial def toP : Sexp → Option (P Float)
  | .list [.atom "num", s] => do
    let t ← toStr? s
    let x ← parseFloat t
    pure (.lit (.num x))
  | .list [.atom "str", s] => (toStr? s).map (fun t => .lit (.str t))
  | .list [.atom "attr", s] => (toStr? s).map .attr
  | .list [.atom "text"] => some .text
  | .list [.atom "last"] => some .last
  | .list [.atom "pos"] => some .position
  | .list (.atom "concat" :: args) => (args.mapM toP).map .concat
  | .list [.atom "contains", a, b] => do pure (.contains (← toP a) (← toP b))
  | .list [.atom "nspace"] => some .nspace0
  | .list [.atom "nspace", a] => (toP a).map .nspace1
  | .list [.atom "group", a] => (toP a).map .group
  | .list [.atom "bin", .atom o, a, b] => do pure (.bin (← toOp o) (← toP a) (← toP b))
  | _ => none

def toAxis : Sexp → Option (Option Axis)
  | .atom "none" => some none
  | .atom "child" => some (some .child)
  | .atom "desc" => some (some .descendant)
  | .atom "dos" => some (some .descendantOrSelf)
  | .atom "parent" => some (some .parent)
  | .atom "anc" => some (some .ancestor)
  | .atom "aos" => some (some .ancestorOrSelf)
  | _ => none

def toStep : Sexp → Option (SStep Float)
  | .list [dbl, ax, name, .list preds] => do
    let d ← toNat? dbl
    let a ← toAxis ax
    let n ← toStr? name
    let ps ← preds.mapM toP
    pure { dbl := d != 0, axis := a, name := lower n, preds := ps }
  | _ => none

def toElem : Sexp → Option Elem
  | .list [name, par, .list attrs, text] => do
    let n ← toStr? name
    let p ← match par with
      | .atom "none" => some none
      | x => (toNat? x).map some
    let as ← attrs.mapM (fun a => match a with
      | .list [k, v] => do pure (← toStr? k, ← toStr? v)
      | _ => none)
    let t ← toStr? text
    pure { name := n, parent := p, attrs := as, text := t }
  | _ => none

inductive Recv | doc | el (i : Nat) | coll (is : List Nat)

def toRecv : Sexp → Option Recv
  | .list [.atom "doc"] => some .doc
  | .list [.atom "el", i] => (toNat? i).map .el
  | .list (.atom "coll" :: is) => (is.mapM toNat?).map .coll
  | _ => none

/-- The wire receivers as the model's `PathRoot` (the correspondence runs the model's own `PathRoot.start`). -/
def Recv.toPathRoot (wrapper : Bool) : Recv → PathRoot
  | .doc => .parser wrapper
  | .el i => .tag i
  | .coll is => .tagCollection is

def start (d : Doc) (wrapper : Bool) (r : Recv) : List Nat := (r.toPathRoot wrapper).start d

def resSx : Option (List Nat) → Sexp
  | none => sym "err"
  | some ids => .list (ids.map natAtom)

/-! ### Canonical print of a parsed expression -/

def opName : Op → String
  | .arith .concat => "cat" | .arith .add => "add" | .arith .sub => "sub"
  | .arith .mul => "mul" | .arith .div => "div" | .arith .mod => "mod"
  | .cmp .eq => "eq" | .cmp .ne => "ne" | .cmp .lt => "lt"
  | .cmp .le => "le" | .cmp .gt => "gt" | .cmp .ge => "ge"
  | .bool .and => "and" | .bool .or => "or"

def valSx : Val Float → Sexp
  | .num x => .list [sym "num", sym (if x.isNaN then "nan" else toString x.toBits.toNat)]
  | .str s => .list [sym "str", strAtom s]
  | .bool b => .list [sym "bool", natAtom (if b then 1 else 0)]
  | .null => .list [sym "null"]

partial def beSx : BE Float → Sexp
  | .val v => valSx v
  | .attr n => .list [sym "attr", strAtom n]
  | .text => .list [sym "text"]
  | .last => .list [sym "last"]
  | .position => .list [sym "pos"]
  | .concatFn args => .list (sym "concat" :: args.map beSx)
  | .containsFn a b => .list [sym "contains", beSx a, beSx b]
  | .nspace0 => .list [sym "nspace"]
  | .nspace1 a => .list [sym "nspace", beSx a]
  | .group l => .list (sym "group" :: l.map beSx)
  | .op o => .list [sym "op", sym (opName o)]

/-- the find-function `parseXPathStrIntoOperations` picks (cf. `stepFn`) -/
def findKind (first : Bool) (s : PStep Float) : String :=
  match s.axis with
  | some .parent => "parent"
  | some .ancestor => "anc"
  | some .ancestorOrSelf => "aos"
  | some .descendant => "multi"
  | some .descendantOrSelf => "multiself"
  | some .child => "one"
  | some .self => "self"
  | none => if s.dbl then (if first then "multiself" else "multi") else (if first then "oneself" else "one")

def stepsSx : Bool → List (PStep Float) → List Sexp
  | _, [] => []
  | first, s :: ss =>
    let k := findKind first s
    (if k == "self" then Sexp.list [sym "find", sym k] else .list [sym "find", sym k, strAtom s.name])
      :: s.preds.map (fun p => Sexp.list (sym "pred" :: p.map beSx)) ++ stepsSx false ss

def compilePStep (s : PStep Float) : Option (PStep Float) :=
  (compileSteps.compilePreds floatNum s.preds).map (fun ps => { s with preds := ps })

/-- second payload form -/
def runText (t : Str) : String :=
  match (parseExpr floatNum t).bind (fun ps => ps.mapM compilePStep) with
  | none => "err"
  | some ps => (Sexp.list (sym "parsed" :: stepsSx true ps)).render

def run (payload : String) : String :=
  match Sexp.parse payload with
  | some (.list [.atom "text", t]) =>
    match toStr? t with
    | some t => runText t
    | none => "bad-case"
  | some (.list [.list elems, wr, .list recvs, .list steps, text]) =>
    match elems.mapM toElem, toNat? wr, recvs.mapM toRecv, steps.mapM toStep, toStr? text with
    | some d, some w, some rs, some ss, some txt =>
      let wrapper := w != 0
      let parsed := parseExpr floatNum txt
      let expected := (flattenSteps ss).map PStep.ofStep
      let parseOk := match parsed with
        | some ps => (Sexp.list (stepsSx true ps)).render == (Sexp.list (stepsSx true expected)).render
        | none => false
      let compiled := (parsed.bind toSteps).bind (compileSteps floatNum)
      let model := rs.map (fun r => match compiled with
        | none => none
        | some cs => evaluate floatNum d cs (start d wrapper r))
      let spec := rs.map (fun r => specEval floatNum d ss (start d wrapper r))
      let same := (model.zip spec).all (fun (a, b) => a == b)
      -- the hypotheses of the C14 theorems, checked on every case: pre-order table, three-level grammar, no Null literal
      let hyp := Doc.isPreOrder d && ss.all (fun s => s.preds.all (fun p => P.wf 3 p && P.noNull p))
      (Sexp.list (model.map resSx ++ [sym (if !hyp then "hypothesis-fails" else if !parseOk then "parsediff"
        else if same then "ok" else "specdiff")])).render
    | _, _, _, _, _ => "bad-case"
  | _ => "bad-case"

end Driver.C14
