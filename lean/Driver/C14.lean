/- Driver.C14 — stream `C14` (stub: replaced when the property's model is built). -/
namespace Driver.C14
def run (_payload : String) : String := "unimplemented"
end Driver.C14
