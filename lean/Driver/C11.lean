/-
  Driver.C11 — streams `C11` and `C12` (Driver.C12 re-uses `runWith`): payload `( group* )`
    group := ( (tok*) cfg* )
    tok   := (s name ((n v)*)) | (se name ((n v)*)) | (e name) | (d str) | (er str) | (cr str) | (c str)
           | (dl str) | (ud str) | (pi str)                     v := "str | none
    cfg   := (plain) | (pretty ind ssc) | (mini ind ssc) | (slim ind ssc) | (slimmini ind ssc)
    ind   := dflt | "str | (int n)                              ssc := true | false
  Output: `( ( result* )* )`, one result per cfg:
    (ok "html)                                  — C11
    (ok "html (level inPre open) ((name "indent)*))  — C12 (`full`): final counters of the formatter object and
                                                      every element of its tree in document order with its `_indent`
    (raise multipleRoot|noRoot)
-/
import AHP.Model.Format
namespace Driver.C11
open AHP AHP.Sexp AHP.Fmt

def toAttr : Sexp → Option (Str × Option Str)
  | .list [n, v] => do
    let n ← toStr? n
    let v ← toOptStr? v
    pure (n, v)
  | _ => none

def toTok : Sexp → Option Tok
  | .list [.atom "s", n, .list a] => do pure (.start (← toStr? n) (← a.mapM toAttr))
  | .list [.atom "se", n, .list a] => do pure (.startend (← toStr? n) (← a.mapM toAttr))
  | .list [.atom "e", n] => do pure (.end_ (← toStr? n))
  | .list [.atom "d", s] => do pure (.data (← toStr? s))
  | .list [.atom "er", s] => do pure (.entity (← toStr? s))
  | .list [.atom "cr", s] => do pure (.charref (← toStr? s))
  | .list [.atom "c", s] => do pure (.comment (← toStr? s))
  | .list [.atom "dl", s] => do pure (.decl (← toStr? s))
  | .list [.atom "ud", s] => do pure (.unknownDecl (← toStr? s))
  | .list [.atom "pi", s] => do pure (.pi (← toStr? s))
  | _ => none

def toIndent : Sexp → Option IndentArg
  | .atom "dflt" => some .dflt
  | .list [.atom "int", .atom n] => n.toInt?.map .int
  | x => (toStr? x).map .str

def toBool : Sexp → Option Bool
  | .atom "true" => some true
  | .atom "false" => some false
  | _ => none

def toClass : String → Option Class
  | "pretty" => some .pretty
  | "mini" => some .mini
  | "slim" => some .slim
  | "slimmini" => some .slimMini
  | _ => none

def errName : Err → String
  | .multipleRoot => "multipleRoot"
  | .noRoot => "noRoot"

mutual
partial def elems : Node → List Sexp
  | .text _ _ => []
  | .elem _ n _ _ ind kids => Sexp.list [strAtom n, strAtom ind] :: elemsL kids
partial def elemsL : List Node → List Sexp
  | [] => []
  | x :: xs => elems x ++ elemsL xs
end

def intAtom (i : Int) : Sexp := .atom (toString i)

def result (full : Bool) (toks : List Tok) : Sexp → Sexp
  | .list [.atom "plain"] =>
    match Plain.html toks with
    | .ok h => .list [sym "ok", strAtom h]
    | .error e => .list [sym "raise", sym (errName e)]
  | .list [.atom c, ind, ssc] =>
    match toClass c, toIndent ind, toBool ssc with
    | some c, some ind, some ssc =>
      let cfg := mkCfg c ind ssc
      match feed cfg toks with
      | .error e => .list [sym "raise", sym (errName e)]
      | .ok s =>
        match docHTML s.doctype s.root with
        | .error e => .list [sym "raise", sym (errName e)]
        | .ok h =>
          if full then
            .list [sym "ok", strAtom h, .list [intAtom s.level, intAtom s.inPre, natAtom s.stack.length],
                   .list (match s.root with | some r => elems r | none => [])]
          else .list [sym "ok", strAtom h]
    | _, _, _ => sym "bad-cfg"
  | _ => sym "bad-cfg"

def group (full : Bool) : Sexp → Sexp
  | .list (.list toks :: cfgs) =>
    match toks.mapM toTok with
    | some ts => .list (cfgs.map (result full ts))
    | none => sym "bad-tokens"
  | _ => sym "bad-group"

def runWith (full : Bool) (payload : String) : String :=
  match Sexp.parse payload with
  | some (.list groups) => (Sexp.list (groups.map (group full))).render
  | _ => "bad-case"

def run (payload : String) : String := runWith false payload

end Driver.C11
