/- Driver.C11 — stream `C11` (stub: replaced when the property's model is built). -/
namespace Driver.C11
def run (_payload : String) : String := "unimplemented"
end Driver.C11
