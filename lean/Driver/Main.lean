/-
  ahp-driver <stream>: reads lines `id TAB payload`, writes `id TAB result` (DESIGN §4, driver protocol).
  One stream per property (`C01` … `C20`).  The model's executable definitions are the same terms the
  theorems in AHP/Props talk about.
-/
import Driver.C01
import Driver.C02
import Driver.C03
import Driver.C04
import Driver.C05
import Driver.C06
import Driver.C07
import Driver.C08
import Driver.C09
import Driver.C10
import Driver.C11
import Driver.C12
import Driver.C13
import Driver.C14
import Driver.C15
import Driver.C16
import Driver.C17
import Driver.C18
import Driver.C19
import Driver.C20

def dispatch (stream : String) : Option (String → String) :=
  match stream with
  | "C01" => some Driver.C01.run
  | "C02" => some Driver.C02.run
  | "C03" => some Driver.C03.run
  | "C04" => some Driver.C04.run
  | "C05" => some Driver.C05.run
  | "C06" => some Driver.C06.run
  | "C07" => some Driver.C07.run
  | "C08" => some Driver.C08.run
  | "C09" => some Driver.C09.run
  | "C10" => some Driver.C10.run
  | "C11" => some Driver.C11.run
  | "C12" => some Driver.C12.run
  | "C13" => some Driver.C13.run
  | "C14" => some Driver.C14.run
  | "C15" => some Driver.C15.run
  | "C16" => some Driver.C16.run
  | "C17" => some Driver.C17.run
  | "C18" => some Driver.C18.run
  | "C19" => some Driver.C19.run
  | "C20" => some Driver.C20.run
  | _ => none

partial def loop (h : IO.FS.Stream) (out : IO.FS.Stream) (f : String → String) : IO Unit := do
  let line ← h.getLine
  if line.isEmpty then return ()
  let line := if line.endsWith "\n" then (line.dropEnd 1).toString else line
  match line.splitOn "\t" with
  | [id, payload] => out.putStrLn (id ++ "\t" ++ f payload)
  | _ => out.putStrLn "?\tbad-line"
  loop h out f

def main (args : List String) : IO UInt32 := do
  match args with
  | [stream] =>
    match dispatch stream with
    | some f =>
      loop (← IO.getStdin) (← IO.getStdout) f
      return 0
    | none =>
      IO.eprintln s!"unknown stream {stream}"
      return 2
  | _ =>
    IO.eprintln "usage: ahp-driver <stream>"
    return 2
