/-
  ahp-driver <stream>: reads lines `id TAB payload`, writes `id TAB result` (DESIGN §4, driver protocol).
  The model's executable definitions are the same terms the theorems in AHP/Props talk about.
-/
import Driver.C18

def dispatch (stream : String) : Option (String → String) :=
  match stream with
  | "coll" => some Driver.C18.run
  | _ => none

partial def loop (h : IO.FS.Stream) (out : IO.FS.Stream) (f : String → String) : IO Unit := do
  let line ← h.getLine
  if line.isEmpty then return ()
  let line := if line.endsWith "\n" then (line.dropEnd 1).toString else line
  match line.splitOn "\t" with
  | [id, payload] => out.putStrLn (id ++ "\t" ++ f payload)
  | _ => out.putStrLn "?\tbad-line"
  loop h out f

def main (args : List String) : IO UInt32 := do
  match args with
  | [stream] =>
    match dispatch stream with
    | some f =>
      loop (← IO.getStdin) (← IO.getStdout) f
      return 0
    | none =>
      IO.eprintln s!"unknown stream {stream}"
      return 2
  | _ =>
    IO.eprintln "usage: ahp-driver <stream>"
    return 2
