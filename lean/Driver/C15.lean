/-
  Driver.C15 — stream `C15`.

  payload  := (hist BOUND OKS RESULTS (event*))  |  (threads BOUND OKS RESULTS ((event*)*) (thread-index*))
  BOUND    := shipped | (MAX CLEAR)         -- `shipped` = the constants generated from the source
  OKS      := (0|1 …)                       -- does expression i compile?
  RESULTS  := ((atom …) …)                  -- RESULTS[i][t] = the solo outcome of expression i on tree t
  event    := (new e) | (ev slot t) | (q e t)

  hist     → one `(obs (recent…) (sorted keys…))` per event
  threads  → the quantum machine (`tstep`/`sysRun`, one cache operation per quantum) under the given schedule
             and then to completion: one `(obs…)` per thread, then `(inv b b b b 1)` computed on the final cache
             (bounds, Nodup, keys = recent; the last bit stands for "lock free") — C15c proves these do not
             depend on the schedule
-/
import AHP.Model.Basic
import AHP.Model.Cache
import AHP.Gen.Tables
namespace Driver.C15
open AHP AHP.Sexp AHP.Cache

structure Tables where
  oks : List Bool
  results : List (List String)

def Tables.compile (tb : Tables) (e : Nat) : Option Nat :=
  if tb.oks.getD e false then some e else none

def Tables.eval (tb : Tables) (v t : Nat) : String :=
  ((tb.results.getD v []).getD t "?")

def toEvent : Sexp → Option (Event Nat Nat)
  | .list [.atom "new", e] => (toNat? e).map .new
  | .list [.atom "ev", s, t] => do pure (.evalSlot (← toNat? s) (← toNat? t))
  | .list [.atom "q", e, t] => do pure (.query (← toNat? e) (← toNat? t))
  | _ => none

def toBound : Sexp → Option (Nat × Nat)
  | .atom "shipped" => some (Gen.maxCachedExpressions, Gen.clearAtOneTime)
  | .list [m, c] => do pure (← toNat? m, ← toNat? c)
  | _ => none

def toTables (oks results : Sexp) : Option Tables :=
  match oks, results with
  | .list os, .list rs => do
    let oks ← os.mapM (fun o => (toNat? o).map (· != 0))
    let results ← rs.mapM (fun r => match r with
      | .list xs => xs.mapM (fun x => match x with | .atom a => some a | _ => none)
      | _ => none)
    pure ⟨oks, results⟩
  | _, _ => none

def sortNat (xs : List Nat) : List Nat := (xs.toArray.qsort (· < ·)).toList

def obsSx : Obs String → Sexp
  | .compiled => sym "ok"
  | .compileError => sym "cerr"
  | .noSlot => sym "noslot"
  | .result r => .atom r

def stateSx (o : Obs String) (s : State Nat Nat) : Sexp :=
  .list [obsSx o, .list (s.recent.map natAtom), .list ((sortNat (dictKeys s.map)).map natAtom)]

def runHist (b : Nat × Nat) (tb : Tables) (evs : List (Event Nat Nat)) : Sexp :=
  .list ((run tb.compile id tb.eval b.1 b.2 World.empty evs).map (fun p => stateSx p.1 p.2))

/-- Threads under a schedule: run the given schedule on the quantum machine, then let every thread
    finish (two quanta per event suffice); show what each thread observed and the final invariant. -/
def runThreads (b : Nat × Nat) (tb : Tables) (ths : List (List (Event Nat Nat))) (sched : List Nat) : Sexp :=
  let s0 : Sys Nat Nat Nat Nat String := Sys.init ths
  let s1 := sysRun tb.compile id tb.eval b.1 b.2 s0 sched
  let rest := (List.range ths.length).flatMap (fun i => List.replicate (2 * (ths.getD i []).length) i)
  let s2 := sysRun tb.compile id tb.eval b.1 b.2 s1 rest
  let c := s2.cache
  let keys := sortNat (dictKeys c.map)
  let bit (p : Bool) : Sexp := natAtom (if p then 1 else 0)
  .list (s2.threads.map (fun th => Sexp.list (th.obs.map obsSx)) ++
    [.list [sym "inv", bit (c.recent.length ≤ b.1), bit (keys.length ≤ b.1),
            bit (c.recent.eraseDups.length == c.recent.length), bit (sortNat c.recent == keys), natAtom 1]])

def run (payload : String) : String :=
  match Sexp.parse payload with
  | some (.list [.atom "hist", b, oks, rs, .list evs]) =>
    match toBound b, toTables oks rs, evs.mapM toEvent with
    | some b, some tb, some evs => (runHist b tb evs).render
    | _, _, _ => "bad-case"
  | some (.list [.atom "threads", b, oks, rs, .list ths, .list sched]) =>
    match toBound b, toTables oks rs,
          ths.mapM (fun th => match th with | .list evs => evs.mapM toEvent | _ => none), sched.mapM toNat? with
    | some b, some tb, some ths, some sched => (runThreads b tb ths sched).render
    | _, _, _, _ => "bad-case"
  | _ => "bad-case"

end Driver.C15
