/- Driver.C15 — stream `C15` (stub: replaced when the property's model is built). -/
namespace Driver.C15
def run (_payload : String) : String := "unimplemented"
end Driver.C15
