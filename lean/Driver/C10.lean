/- Driver.C10 — stream `C10` (stub: replaced when the property's model is built). -/
namespace Driver.C10
def run (_payload : String) : String := "unimplemented"
end Driver.C10
