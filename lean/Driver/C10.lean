/- Driver.C10 — stream `C10`: the shared attribute-store wire format (Driver/AttrsWire.lean, model AHP/Model/Attrs.lean). -/
import Driver.AttrsWire
namespace Driver.C10
def run (payload : String) : String := Driver.AttrsWire.run payload
end Driver.C10
