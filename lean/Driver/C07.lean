/- Driver.C07 — stream `C07` (stub: replaced when the property's model is built). -/
namespace Driver.C07
def run (_payload : String) : String := "unimplemented"
end Driver.C07
