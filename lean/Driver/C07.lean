/-
  Driver.C07 — stream `C07`: payload `(cfg attrs steps)`
    cfg   := (ids names classes tags)          -- true | false : constructor arguments
    attrs := ("a*)                             -- addIndexOnAttribute before the first parse
    step  := (parse node) | (setattr uid "k "v) | (delattr uid "k) | (addclass uid "c) | (rmclass uid "c)
           | (append uid node) | (remove uid)
           | (addindex "a) | (rmindex "a) | (disable) | (reindex o o o o)   -- o := none | true | false
           | (setroot uid) | (maps) | (query recv op useIndex)
    recv  := (P) | (P uid)     op := (tag "q) | (name "q) | (id "q) | (cls "q) | (attr "a "v) | (vals "a ("v*))
  node as in stream C06.  Output: one observation per step:
    ok | (err) | (maps …) | (q <indexed answer> <answer of the plain search>)
-/
import AHP.Model.Index
import Driver.C06
namespace Driver.C07
open AHP AHP.G3 AHP.Sexp

structure St where
  idx : Idx
  doc : Option Node

def toBool : Sexp → Option Bool
  | .atom "true" => some true
  | .atom "false" => some false
  | _ => none

def toOptBool : Sexp → Option (Option Bool)
  | .atom "none" => some none
  | x => (toBool x).map some

def strLe : Str → Str → Bool
  | [], _ => true
  | _ :: _, [] => false
  | a :: as, b :: bs => if a.toNat < b.toNat then true else if a.toNat > b.toNat then false else strLe as bs

def sortKeys {β : Type} (m : List (Str × β)) : List (Str × β) := m.mergeSort (fun a b => strLe a.1 b.1)

def mapSexp (m : List (Str × List Nat)) : List Sexp :=
  ((sortKeys m).filter (fun p => !p.2.isEmpty)).map (fun p => .list (strAtom p.1 :: p.2.map natAtom))

def mapsObs (i : Idx) : Sexp :=
  .list [sym "maps",
    .list (sym "id" :: (sortKeys i.idMap).map (fun p => .list [strAtom p.1, natAtom p.2])),
    .list (sym "name" :: mapSexp i.nameMap),
    .list (sym "class" :: mapSexp i.classNameMap),
    .list (sym "tag" :: mapSexp i.tagNameMap),
    .list (sym "other" :: (sortKeys i.other).map (fun p => .list (strAtom p.1 :: mapSexp p.2)))]

def ok : Sexp := sym "ok"
def err : Sexp := .list [sym "err"]

def edit (s : St) (f : Node → Option Node) : St × Sexp :=
  match s.doc with
  | some d => match f d with
    | some d' => ({ s with doc := some d' }, ok)
    | none => (s, err)
  | none => (s, err)

def onElem (uid : Nat) (f : Elem → Elem) (d : Node) : Option Node :=
  match d.find? uid with
  | some _ => some (d.modify uid f)
  | none => none

def runQuery (s : St) (doc : Node) (rv op : Sexp) (useIndex : Bool) : Sexp :=
  let arg : Option (Option Node) := match rv with
    | .list [.atom "P"] => some none
    | .list [.atom "P", u] => (toNat? u).bind (fun u => (doc.find? u).map some)
    | _ => none
  match arg with
  | none => sym "bad-recv"
  | some arg =>
    let plain := Driver.C06.runOp doc (.parser doc arg) op
    let indexed : Sexp := match op with
      | .list [.atom "tag", q] => match toStr? q with
        | some q => Driver.C06.okTC (idxByTagName s.idx doc q arg useIndex)
        | none => Driver.C06.bad
      | .list [.atom "name", q] => match toStr? q with
        | some q => Driver.C06.okTC (idxByName s.idx doc q arg useIndex)
        | none => Driver.C06.bad
      | .list [.atom "id", q] => match toStr? q with
        | some q => Driver.C06.one (idxById s.idx doc q arg useIndex)
        | none => Driver.C06.bad
      | .list [.atom "cls", q] => match toStr? q with
        | some q => Driver.C06.optTC (idxByClassName s.idx doc q arg useIndex)
        | none => Driver.C06.bad
      | .list [.atom "attr", a, v] => match toStr? a, toStr? v with
        | some a, some v => Driver.C06.okTC (idxByAttr s.idx doc a v arg useIndex)
        | _, _ => Driver.C06.bad
      | .list [.atom "vals", a, .list vs] => match toStr? a, vs.mapM toStr? with
        | some a, some vs => Driver.C06.okTC (idxWithAttrValues s.idx doc a vs arg useIndex)
        | _, _ => Driver.C06.bad
      | _ => Driver.C06.bad
    .list [sym "q", indexed, plain]

def step (s : St) : Sexp → St × Sexp
  | .list [.atom "parse", n] => match Driver.C06.toNode n with
    | some d => ({ idx := s.idx.parse d, doc := some d }, ok)
    | none => (s, sym "bad-doc")
  | .list [.atom "setattr", u, k, v] => match toNat? u, toStr? k, toStr? v with
    | some u, some k, some v => edit s (onElem u (·.setAttr k v))
    | _, _, _ => (s, sym "bad-step")
  | .list [.atom "delattr", u, k] => match toNat? u, toStr? k with
    | some u, some k => edit s (onElem u (·.delAttr k))
    | _, _ => (s, sym "bad-step")
  | .list [.atom "addclass", u, c] => match toNat? u, toStr? c with
    | some u, some c => edit s (onElem u (·.addClass c))
    | _, _ => (s, sym "bad-step")
  | .list [.atom "rmclass", u, c] => match toNat? u, toStr? c with
    | some u, some c => edit s (onElem u (·.removeClass c))
    | _, _ => (s, sym "bad-step")
  | .list [.atom "append", u, n] => match toNat? u, Driver.C06.toNode n with
    | some u, some sub => edit s (fun d => (d.find? u).map (fun _ => Node.appendAt u sub d))
    | _, _ => (s, sym "bad-step")
  | .list [.atom "remove", u] => match toNat? u with
    | some u => edit s (fun d => if d.uid == u then none else (d.find? u).map (fun _ => d.removeAt u))
    | none => (s, sym "bad-step")
  | .list [.atom "addindex", a] => match toStr? a with
    | some a => ({ s with idx := s.idx.addIndexOn a }, ok)
    | none => (s, sym "bad-step")
  | .list [.atom "rmindex", a] => match toStr? a with
    | some a => ({ s with idx := s.idx.removeIndexOn a }, ok)
    | none => (s, sym "bad-step")
  | .list [.atom "disable"] => ({ s with idx := s.idx.disable }, ok)
  | .list [.atom "reindex", a, b, c, d] => match toOptBool a, toOptBool b, toOptBool c, toOptBool d, s.doc with
    | some a, some b, some c, some d, some doc => ({ s with idx := s.idx.reindex doc a b c d }, ok)
    | _, _, _, _, _ => (s, err)
  | .list [.atom "setroot", u] => match toNat? u, s.doc with
    | some u, some doc => match doc.find? u with
      | some r => ({ idx := s.idx.reindex r none none none none, doc := some r }, ok)
      | none => (s, err)
    | _, _ => (s, err)
  | .list [.atom "maps"] => (s, mapsObs s.idx)
  | .list [.atom "query", rv, op, ui] => match toBool ui, s.doc with
    | some ui, some doc => (s, runQuery s doc rv op ui)
    | _, _ => (s, err)
  | _ => (s, sym "bad-step")

def loop : St → List Sexp → List Sexp → List Sexp
  | _, [], acc => acc.reverse
  | s, x :: xs, acc => let (s', o) := step s x; loop s' xs (o :: acc)

def run (payload : String) : String :=
  match Sexp.parse payload with
  | some (.list [.list [a, b, c, d], .list attrs, .list steps]) =>
    match toBool a, toBool b, toBool c, toBool d, attrs.mapM toStr? with
    | some a, some b, some c, some d, some attrs =>
      let idx := attrs.foldl Idx.addIndexOn (Idx.init a b c d)
      (Sexp.list (loop ⟨idx, none⟩ steps [])).render
    | _, _, _, _, _ => "bad-case"
  | _ => "bad-case"

end Driver.C07
