/-
  Driver.C12 — stream `C12`: same payload as `C11` (see Driver/C11.lean); every result additionally carries the
  formatter object's final counters (`currentIndentLevel`, `inPreformatted`, `len(_inTag)`) and every element
  of its tree in document order with its `_indent`.
-/
import Driver.C11
namespace Driver.C12
def run (payload : String) : String := Driver.C11.runWith true payload
end Driver.C12
