/- Driver.C12 — stream `C12` (stub: replaced when the property's model is built). -/
namespace Driver.C12
def run (_payload : String) : String := "unimplemented"
end Driver.C12
