/- Driver.C05 — stream `C05` (stub: replaced when the property's model is built). -/
namespace Driver.C05
def run (_payload : String) : String := "unimplemented"
end Driver.C05
