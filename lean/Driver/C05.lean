/-
  Driver.C05 — stream `C05`: the same lock-step histories as `C04` (wire format: Driver.DomWire).
  Output: one entry per state, `(ret (struct*) (html*))`; the first entry is the initial world.
    struct := ( uid sc (block*) (child*) "text" ((k v)*) )         for every element, sorted by uid
    html   := ( uid "outerHTML" "innerHTML" "textContent" )         for every element when the world has at
              most 12 elements, else for the roots and the target of the call
-/
import Driver.DomWire
namespace Driver.C05
open AHP AHP.Sexp AHP.Dom Driver.DomWire

def structSx (e : Meta × List DN) : Sexp :=
  .list [natAtom e.1.id, sym (if e.1.sc then "1" else "0"), .list (e.2.map blockSx), .list (e.1.children.map natAtom),
         strAtom e.1.text, .list (e.1.attrs.map (fun a => .list [strAtom a.1, optStr a.2]))]

def htmlSx (e : Meta × List DN) : Sexp :=
  .list [natAtom e.1.id, strAtom (outerHTML (.el e.1 e.2)), strAtom (innerHTML e.1 e.2), strAtom (textContent (.el e.1 e.2))]

def stateSx (w : World) (t : Nat) : List Sexp :=
  let all := allElems w
  let shown := if all.length ≤ 12 then all else
    let keep := t :: rootIds w
    all.filter (fun e => keep.contains e.1.id)
  [.list (all.map structSx), .list (shown.map htmlSx)]

def loop : World → List Op → List Sexp → List Sexp
  | _, [], acc => acc.reverse
  | w, op :: ops, acc =>
    match step w op with
    | none => (.list [sym "outside"] :: acc).reverse
    | some (w', v) => loop w' ops (.list (valSx v :: stateSx w' (opTarget op)) :: acc)

def run (payload : String) : String :=
  match Sexp.parse payload with
  | some sx =>
    match toCase sx with
    | some c => (Sexp.list (loop c.world c.ops [.list (sym "init" :: stateSx c.world 0)])).render
    | none => "bad-case"
  | none => "bad-case"

end Driver.C05
