/-
  Driver.AttrsWire — shared wire format of the streams C08, C09, C10 (model: AHP/Model/Attrs.lean).

  payload := ( tables init history views checkpoints )
    tables      := ( (bin*) (binstr*) ( (dotname attr special validated binStr bin event)* ) )     flags 0/1
    init        := ( tag sc ( (name val)* ) through )      val := none | "str     sc, through := 0 | 1
                   through = 1: the element under test is a copy (cloneNode / copy / unpickle) of the constructed one
    history     := ( item* )
      item      := (sa n val) | (sas (n val)*) | (ra n) | (ms n val) | (md n) | (dot n dv)
                 | (ac s) | (rc s) | (cn val)
                 | (sd n val) | (sp n val) | (ss n val) | (sss (n val)*) | (st val) | (scp s) | (self) | (sync)
                 | (read view)
      dv        := none | "str | true | false
    views       := ( group* )       group := ( view* ): the views of one group are read one after the other on one
                                   fresh element; different groups get different fresh elements
      view      := (startTag) | (list) | (items) | (keys) | (has n) | (in n) | (item n) | (get n) | (getd n)
                 | (attr n) | (attrd n) | (dotget n) | (domkeys) | (domitem n)
                 | (className) | (classList) | (hasClass n) | (styleStr) | (sdot n) | (gstyle n) | (styeq s)
                 | (clone) | (reparse)
    checkpoints := ( k* )      prefix lengths of the history

  result := ( (outcome*) (chk k obs*)* (seq obs*) )
    outcome: ok | KeyError | unsupported | the observation of a `read`
    (chk k (obs*)*): per group, its views read on a *fresh* element after replaying the first k history items
    (seq …): all views read one after the other on the element that went through the whole history
-/
import AHP.Model.Attrs
namespace Driver.AttrsWire
open AHP AHP.Sexp AHP.Attrs

inductive View where
  | startTag | list | items | keys
  | has (n : Str) | inMap (n : Str) | item (n : Str) | get (n : Str) | getd (n : Str)
  | attr (n : Str) | attrd (n : Str) | dotget (n : Str) | domkeys | domitem (n : Str)
  | className | classList | hasClass (n : Str) | styleStr | sdot (n : Str) | gstyle (n : Str)
  | styeq (s : Str)
  | clone | reparse

inductive Item where
  | op (o : Op)
  | read (v : View)

def flag? : Sexp → Option Bool
  | .atom "0" => some false
  | .atom "1" => some true
  | _ => none

def pair? : Sexp → Option (Str × Option Str)
  | .list [n, v] => do pure ((← toStr? n), (← toOptStr? v))
  | _ => none

def link? : Sexp → Option (Str × Link)
  | .list [n, a, sp, va, bs, bi, ev] => do
    pure ((← toStr? n), { attr := (← toStr? a), special := (← flag? sp), validated := (← flag? va),
                          binStr := (← flag? bs), bin := (← flag? bi), event := (← flag? ev) })
  | _ => none

def tables? : Sexp → Option Tables
  | .list [.list b, .list bs, .list ls] => do
    pure { binary := (← b.mapM toStr?), binStr := (← bs.mapM toStr?), links := (← ls.mapM link?) }
  | _ => none

def dotVal? : Sexp → Option DotVal
  | .atom "none" => some .none
  | .atom "true" => some (.bool true)
  | .atom "false" => some (.bool false)
  | x => (toStr? x).map .str

def view? : Sexp → Option View
  | .list [.atom "startTag"] => some .startTag
  | .list [.atom "list"] => some .list
  | .list [.atom "items"] => some .items
  | .list [.atom "keys"] => some .keys
  | .list [.atom "has", n] => (toStr? n).map .has
  | .list [.atom "in", n] => (toStr? n).map .inMap
  | .list [.atom "item", n] => (toStr? n).map .item
  | .list [.atom "get", n] => (toStr? n).map .get
  | .list [.atom "getd", n] => (toStr? n).map .getd
  | .list [.atom "attr", n] => (toStr? n).map .attr
  | .list [.atom "attrd", n] => (toStr? n).map .attrd
  | .list [.atom "dotget", n] => (toStr? n).map .dotget
  | .list [.atom "domkeys"] => some .domkeys
  | .list [.atom "domitem", n] => (toStr? n).map .domitem
  | .list [.atom "className"] => some .className
  | .list [.atom "classList"] => some .classList
  | .list [.atom "hasClass", n] => (toStr? n).map .hasClass
  | .list [.atom "styleStr"] => some .styleStr
  | .list [.atom "sdot", n] => (toStr? n).map .sdot
  | .list [.atom "gstyle", n] => (toStr? n).map .gstyle
  | .list [.atom "styeq", n] => (toStr? n).map .styeq
  | .list [.atom "clone"] => some .clone
  | .list [.atom "reparse"] => some .reparse
  | _ => none

def item? : Sexp → Option Item
  | .list [.atom "sa", n, v] => do pure (.op (.setAttr (← toStr? n) (← toOptStr? v)))
  | .list (.atom "sas" :: ps) => do pure (.op (.setAttrs (← ps.mapM pair?)))
  | .list [.atom "ra", n] => do pure (.op (.rmAttr (← toStr? n)))
  | .list [.atom "ms", n, v] => do pure (.op (.mapSet (← toStr? n) (← toOptStr? v)))
  | .list [.atom "md", n] => do pure (.op (.mapDel (← toStr? n)))
  | .list [.atom "dot", n, v] => do pure (.op (.dot (← toStr? n) (← dotVal? v)))
  | .list [.atom "ac", s] => do pure (.op (.addClass (← toStr? s)))
  | .list [.atom "rc", s] => do pure (.op (.rmClass (← toStr? s)))
  | .list [.atom "cn", v] => do pure (.op (.className (← toOptStr? v)))
  | .list [.atom "sd", n, v] => do pure (.op (.styDot (← toStr? n) (← toOptStr? v)))
  | .list [.atom "sp", n, v] => do pure (.op (.styProp (← toStr? n) (← toOptStr? v)))
  | .list [.atom "ss", n, v] => do pure (.op (.setStyle (← toStr? n) (← toOptStr? v)))
  | .list (.atom "sss" :: ps) => do pure (.op (.setStyles (← ps.mapM pair?)))
  | .list [.atom "st", v] => do pure (.op (.styAssign (← toOptStr? v)))
  | .list [.atom "scp", s] => do pure (.op (.styCopy (← toStr? s)))
  | .list [.atom "self"] => some (.op .stySelf)
  | .list [.atom "sync"] => some (.op .sync)
  | .list [.atom "read", v] => (view? v).map .read
  | _ => none

/-! #### rendering of observations -/

def pyVal : PyVal → Sexp
  | .none => sym "none"
  | .str s => strAtom s
  | .bool b => sym (if b then "true" else "false")
  | .style s => .list [sym "sty", strAtom s]

def boolS (b : Bool) : Sexp := sym (if b then "true" else "false")
def names (l : List Str) : Sexp := .list (l.map strAtom)
def pairs (l : List (Str × Option Str)) : Sexp := .list (l.map (fun p => .list [strAtom p.1, optStr p.2]))
def valPairs (l : List (Str × PyVal)) : Sexp := .list (l.map (fun p => .list [strAtom p.1, pyVal p.2]))

def dfltV : PyVal := .str ['d', 'f', 'l', 't']

/-- read one view; returns the observation and the state the read leaves behind -/
def readView (T : Tables) (e : El) : View → Sexp × El
  | .startTag => let (s, e') := startTag T e; (strAtom s, e')
  | .list => let (l, e') := attrsList e; (pairs l, e')
  | .items => let (l, e') := items e; (valPairs l, e')
  | .keys => let (l, e') := keys e; (names l, e')
  | .has n => (boolS (hasAttribute n e), e)
  | .inMap n => (boolS (contains n e), e)
  | .item n => (pyVal (getitem T n e), e)
  | .get n => let (v, e') := mapGet T n .none e; (pyVal v, e')
  | .getd n => let (v, e') := mapGet T n dfltV e; (pyVal v, e')
  | .attr n => let (v, e') := getAttribute T n .none e; (pyVal v, e')
  | .attrd n => let (v, e') := getAttribute T n dfltV e; (pyVal v, e')
  | .dotget n =>
    match dotGet T n e with
    | (some v, e') => (pyVal v, e')
    | (none, e') => (sym "unsupported", e')
  | .domkeys => let (l, e') := domKeys e; (names l, e')
  | .domitem n =>
    match domItem T n e with
    | some (k, v) => (.list [strAtom k, pyVal v], e)
    | none => (sym "none", e)
  | .className => (strAtom e.className, e)
  | .classList => (names (classList e), e)
  | .hasClass n => (boolS (hasClass n e), e)
  | .styleStr => (strAtom (styleStr e), e)
  | .sdot n => (strAtom (styleDotGet n e), e)
  | .gstyle n => (strAtom (getStyle n e), e)
  | .styeq s => (boolS (styleEq e.sty (styleToDict s)), e)
  | .clone =>
    let (c, e') := clone T e
    let (l, c') := attrsList c
    (.list [pairs l, strAtom (startTag T c').1], e')
  | .reparse =>
    let (c, e') := reparse T e
    let (l, c') := attrsList c
    (.list [pairs l, strAtom (startTag T c').1], e')

def outcome : Outcome → Sexp
  | .ok => sym "ok"
  | .keyError => sym "KeyError"
  | .unsupported => sym "unsupported"

def stepItem (T : Tables) (e : El) : Item → Sexp × El
  | .op o => let (r, e') := step T e o; (outcome r, e')
  | .read v => readView T e v

def runItems (T : Tables) : El → List Item → List Sexp → List Sexp × El
  | e, [], acc => (acc.reverse, e)
  | e, it :: r, acc => let (o, e') := stepItem T e it; runItems T e' r (o :: acc)

def seqViews (T : Tables) : El → List View → List Sexp → List Sexp
  | _, [], acc => acc.reverse
  | e, v :: r, acc => let (o, e') := readView T e v; seqViews T e' r (o :: acc)

def initEl (T : Tables) (tag : Str) (sc : Bool) (attrs : List (Str × Option Str)) (through : Bool) : El :=
  let e := mk T tag sc attrs
  if through then (clone T e).1 else e

def runCase (T : Tables) (tag : Str) (sc : Bool) (attrs : List (Str × Option Str)) (through : Bool)
    (hist : List Item) (groups : List (List View)) (chks : List Nat) : Sexp :=
  let e0 := initEl T tag sc attrs through
  let (outs, eN) := runItems T e0 hist []
  let chk (k : Nat) : Sexp :=
    let ek := (runItems T e0 (hist.take k) []).2
    .list (sym "chk" :: natAtom k :: groups.map (fun g => Sexp.list (seqViews T ek g [])))
  .list ([.list outs] ++ chks.map chk ++ [.list (sym "seq" :: seqViews T eN groups.flatten [])])

def group? : Sexp → Option (List View)
  | .list vs => vs.mapM view?
  | _ => none

def run (payload : String) : String :=
  match Sexp.parse payload with
  | some (.list [tb, .list [tag, sc, .list attrs, thr], .list hist, .list groups, .list chks]) =>
    match tables? tb, toStr? tag, flag? sc, attrs.mapM pair?, flag? thr, hist.mapM item?, groups.mapM group?,
          chks.mapM toNat? with
    | some T, some tag, some sc, some attrs, some thr, some hist, some groups, some chks =>
      (runCase T tag sc attrs thr hist groups chks).render
    | _, _, _, _, _, _, _, _ => "bad-case"
  | _ => "bad-case"

end Driver.AttrsWire
