/- Driver.C09 — stream `C09`: the shared attribute-store wire format (Driver/AttrsWire.lean, model AHP/Model/Attrs.lean). -/
import Driver.AttrsWire
namespace Driver.C09
def run (payload : String) : String := Driver.AttrsWire.run payload
end Driver.C09
