/- Driver.C09 — stream `C09` (stub: replaced when the property's model is built). -/
namespace Driver.C09
def run (_payload : String) : String := "unimplemented"
end Driver.C09
