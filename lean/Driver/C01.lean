/- Driver.C01 — stream `C01` (stub: replaced when the property's model is built). -/
namespace Driver.C01
def run (_payload : String) : String := "unimplemented"
end Driver.C01
