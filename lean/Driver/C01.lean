/-
  Driver.C01 — stream `C01`.
    payload `(doc doctype|none blocks...)`: a document built through the constructor / append API: one
      top-level element = single root, otherwise the blocks sit in the invisible wrapper.
      block := (t text) | (e name (attr*) sc block*)      attr := (name value|none)
    payload `(lex text)`: only the strict lexer.
  Observation for `doc`: getHTML, the tokens `lexStrict` sees in it, and the document parsed back from it
  (canonical tree + its getHTML).
-/
import Driver.TokIO
import AHP.Model.Lexer
namespace Driver.C01
open AHP AHP.Sexp Driver.TokIO

partial def toNode? : Sexp → Option Node
  | .list [.atom "t", s] => (toStr? s).map Node.text
  | .list (.atom "e" :: n :: .list as :: .atom sc :: kids) => do
    let n ← toStr? n
    let as ← as.mapM toAttr?
    let kids ← kids.mapM toNode?
    -- `AdvancedTag(name, attrList, isSelfClosing)`: name lower-cased, void names are self-closing
    let n := lower n
    pure (Node.elem n (intake as AttrState.empty) (sc == "1" || isVoid n) kids)
  | _ => none

def lexSx (o : Option (List Token)) : Sexp :=
  match o with
  | none => sym "nolex"
  | some ts => .list (sym "toks" :: ts.map tokenSx)

def run (payload : String) : String :=
  match Sexp.parse payload with
  | some (.list [.atom "lex", s]) =>
    match toStr? s with
    | some text => (lexSx (lexStrict text)).render
    | none => "bad-case"
  | some (.list (.atom "doc" :: dt :: blocks)) =>
    match toOptStr? dt, blocks.mapM toNode? with
    | some dt, some bs =>
      let root : Node := match bs with
        | [.elem n a sc kids] => .elem n a sc kids
        | _ => .elem wrapperName AttrState.empty false bs
      let html := docHTML dt root
      let lexed := lexStrict html
      let back : Sexp := match lexed with
        | none => sym "nolex"
        | some toks => feedSx (feedTokens toks)
      (Sexp.list [strAtom html, canonSx root, lexSx lexed, back]).render
    | _, _ => "bad-case"
  | _ => "bad-case"

end Driver.C01
