/-
  Driver.C19 — stream `C19`: one cell of the typed-property table.

    payload := ( mode tag prop attr iattr ( anc* ) pre via init assign )
      mode   := cell                       -- the model of the code: dispatch over the generated tables (AHP.Gen)
              | spec                       -- the documented rule (AHP.Conv.Spec) evaluated on the same cell:
                                           --   result := ( setout value "htmlName" )  |  bare
    payload := ( names )                   -- the documented name tables: ( ("tag" "prop"*)* ) ( "common"* )
      tag prop attr iattr anc := string atoms
                                           -- tag: as passed to the constructor (any case); attr: the HTML attribute observed;
                                           -- iattr: its spelling when the cell initialises it (any case)
      pre    := true | false               -- an unrelated attribute data-k="v" precedes
      via    := ctor | html | setattr      -- constructor attribute list (= what the parser calls) | em.setAttribute(iattr, text)
      init   := absent | (bare) | (text T)
      assign := no | (s T) | (i n) | (b true|false) | (n)               -- `em.prop = value` after the initialisation
      T      := "text" | (rep T n) | (cat T*)

    result := ( setout value attrvalue hasattr ( ("name" value?)* ) )
      setout := skip | ok | (raise E)
      value  := none | (s "text") | (i n) | (b true|false) | (t "w"*) | (anc i) | (obj what) | (raise E)
-/
import AHP.Model.ConvSpec
namespace Driver.C19
open AHP AHP.Sexp AHP.Conv

def errName : PyErr → String
  | .valueError => "ValueError"
  | .typeError => "TypeError"
  | .keyError => "KeyError"
  | .indexSizeError => "IndexSizeErrorException"
  | .other n => n

def boolSym (b : Bool) : Sexp := sym (if b then "true" else "false")

def renderV : PyV → Sexp
  | .none => sym "none"
  | .str s => .list [sym "s", strAtom s]
  | .int n => .list [sym "i", sym (toString n)]
  | .bool b => .list [sym "b", boolSym b]
  | .tokens ws => .list (sym "t" :: ws.map strAtom)
  | .ancestor i => .list [sym "anc", natAtom i]
  | .opaque w => .list [sym "obj", sym w]

def renderR : Except PyErr PyV → Sexp
  | .ok v => renderV v
  | .error e => .list [sym "raise", sym (errName e)]

def toS? (x : Sexp) : Option String := (toStr? x).map String.ofList

/-- text on the wire: a string atom, `(rep text n)` (n copies) or `(cat text*)` — long repetitive texts stay short. -/
partial def toText? : Sexp → Option Str
  | .list [.atom "rep", x, n] => do
    let u ← toText? x
    let k ← toNat? n
    pure ((List.replicate k u).flatten)
  | .list (.atom "cat" :: xs) => do
    let parts ← xs.mapM toText?
    pure parts.flatten
  | x => toStr? x

def parseV : Sexp → Option PyV
  | .list [.atom "s", x] => (toText? x).map .str
  | .list [.atom "i", .atom n] => n.toInt?.map .int
  | .list [.atom "b", .atom "true"] => some (.bool true)
  | .list [.atom "b", .atom "false"] => some (.bool false)
  | .list [.atom "n"] => some .none
  | _ => none

def parseInit (attr : String) : Sexp → Option (List (String × Option Str))
  | .atom "absent" => some []
  | .list [.atom "bare"] => some [(attr, none)]
  | .list [.atom "text", x] => (toText? x).map (fun s => [(attr, some s)])
  | _ => none

def observe (T : Tables) (e : Elem) (prop attr : String) (setout : Sexp) : Sexp :=
  .list [setout,
         renderR (getProp T pyIntOfStr e prop),
         renderV (e.getAttribute T attr .none),
         boolSym (e.hasAttribute attr),
         .list (e.attributesList.map (fun (k, v) => .list [strAtom k.toList, optStr v]))]

/-- Build the element the way the cell says; `none` when the initialisation itself raised. -/
def initial (T : Tables) (tag : String) (anc : List String) (pre : Bool) (via : String)
    (init : List (String × Option Str)) : Except PyErr Elem :=
  let tag' := lowerS tag                         -- AdvancedTag.__init__: self.tagName = tagName.lower()
  let preAttrs : List (String × Option Str) := if pre then [("data-k", some (str "v"))] else []
  if via = "setattr" then
    let e0 := Elem.ofAttrList T tag' anc preAttrs (Elem.new tag' anc)
    match init with
    | [(k, some s)] => e0.setAttribute T k (.str s)
    | [(k, none)] => e0.setAttribute T k .none
    | _ => .ok e0
  else .ok (Elem.ofAttrList T tag' anc (preAttrs ++ init) (Elem.new tag' anc))

def runCell (T : Tables) (tag prop attr : String) (anc : List String) (pre : Bool) (via : String)
    (init : List (String × Option Str)) (assign : Option PyV) : Sexp :=
  match initial T tag anc pre via init with
  | .error err => .list [sym "init-raise", sym (errName err)]
  | .ok e0 =>
    match assign with
    | none => observe T e0 prop attr (sym "skip")
    | some v =>
      match setProp T pyIntOfStr e0 prop v with
      | .ok e1 => observe T e1 prop attr (sym "ok")
      | .error err => observe T e0 prop attr (.list [sym "raise", sym (errName err)])

/-- The documented rule on a cell (used by the harness to compare its Python restatement with `Spec`). -/
def runSpec (tag prop : String) (anc : List String) (init : List (String × Option Str)) (assign : Option PyV) : Sexp :=
  let r := Spec.srule tag prop
  match init with
  | [(_, none)] => sym "bare"
  | _ =>
    let st0 : Spec.St := match init with | [(_, some s)] => .text s | _ => .absent
    let (setout, st) : Sexp × Spec.St := match assign with
      | none => (sym "skip", st0)
      | some v => match Spec.assign pyIntOfStr r v with
        | .raise => (.list [sym "raise", sym "IndexSizeErrorException"], st0)
        | .remove => (sym "ok", .absent)
        | .store s => (sym "ok", .text s)
    let cls := match st with | .text s => Spec.words s | .absent => []
    .list [setout, renderV (Spec.expected pyIntOfStr r st anc cls), strAtom (Spec.htmlName prop).toList]

def specNames : Sexp :=
  .list [.list (Spec.tagProps.map (fun (t, ps) => .list (strAtom t.toList :: ps.map (fun p => strAtom p.toList)))),
         .list (Spec.commonProps.map (fun p => strAtom p.toList))]

def run (payload : String) : String :=
  match Sexp.parse payload with
  | some (.list [.atom "names"]) => specNames.render
  | some (.list [.atom mode, tag, prop, attr, iattr, .list anc, .atom pre, .atom via, init, assign]) =>
    match toS? tag, toS? prop, toS? attr, toS? iattr, anc.mapM toS? with
    | some tag, some prop, some attr, some iattr, some anc =>
      match parseInit iattr init with
      | none => "bad-init"
      | some init =>
        let asg : Option (Option PyV) := match assign with
          | .atom "no" => some none
          | x => (parseV x).map some
        match asg with
        | none => "bad-assign"
        | some asg =>
          if mode = "cell" then (runCell genTables tag prop attr anc (pre = "true") via init asg).render
          else if mode = "spec" then (runSpec (lowerS tag) prop anc init asg).render
          else "bad-mode"
    | _, _, _, _, _ => "bad-case"
  | _ => "bad-case"

end Driver.C19
