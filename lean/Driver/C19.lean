/- Driver.C19 — stream `C19` (stub: replaced when the property's model is built). -/
namespace Driver.C19
def run (_payload : String) : String := "unimplemented"
end Driver.C19
