/-
  AHP.Lemmas.AttrsWrite — WRITE → READ and FRAME laws of the attribute store (C08–C10).

  `viewList e` (= `getAttributesList()`, the list every view is a projection of) is a pure function of the three
  state components: `viewOf e.dict e.cls e.sty` = the dict after the lazy synchronisation (`syncDict`: the `class`
  step, then the `style` step), each slot shown as a value.  Every writer changes one component in a known way:

    * a writer of an ordinary key sets / deletes one key of the dict;
    * a class writer replaces `cls` (the dict is not touched: the `class` key is materialised by the next reader);
    * a style writer replaces `sty` and runs `_ensureHtmlAttribute` on the dict.

  From that: (1) per key — the written key reads the written value, every other key reads what it read before, in
  EVERY state that satisfies the invariants; (2) as a LIST — `d[k] = v` on the one list (an existing key keeps its
  place, a new key goes last) when the `class` key of the dict is in step with the class list (`ClassSynced`: the
  state after any synchronising reader), and always on the list without its `class` entry.
-/
import AHP.Lemmas.AttrsCopy
namespace AHP.Attrs
open AHP

/-! #### association lists: commutation of writes, writes under a map -/

theorem aset_nil {α : Type} (k : Str) (x : α) : aset k x ([] : AL α) = [(k, x)] := rfl

theorem aset_cons_same {α : Type} (k : Str) (x v0 : α) (r : AL α) : aset k x ((k, v0) :: r) = (k, x) :: r := by
  simp [aset]

theorem aset_cons_ne {α : Type} {k k0 : Str} (h : k0 ≠ k) (x v0 : α) (r : AL α) :
    aset k x ((k0, v0) :: r) = (k0, v0) :: aset k x r := by
  simp [aset, h]

theorem adel_aset_comm {α : Type} {k k' : Str} (h : k ≠ k') (x : α) : ∀ d : AL α,
    adel k' (aset k x d) = aset k x (adel k' d)
  | [] => by
    rw [aset_nil, adel_cons_ne h, adel_nil, aset_nil]
  | (k0, v0) :: r => by
    by_cases h0 : k0 = k
    · subst h0
      rw [aset_cons_same, adel_cons_ne h, adel_cons_ne h, aset_cons_same]
    · rw [aset_cons_ne h0]
      by_cases h1 : k0 = k'
      · subst h1
        rw [adel_cons_same, adel_cons_same]
        exact adel_aset_comm h x r
      · rw [adel_cons_ne h1, adel_cons_ne h1, aset_cons_ne h0, adel_aset_comm h x r]

theorem adel_adel_comm {α : Type} (k k' : Str) (d : AL α) : adel k' (adel k d) = adel k (adel k' d) := by
  unfold adel
  rw [List.filter_filter, List.filter_filter]
  apply List.filter_congr
  intro p _
  exact Bool.and_comm _ _

theorem adel_idem {α : Type} (k : Str) (d : AL α) : adel k (adel k d) = adel k d := by
  unfold adel
  rw [List.filter_filter]
  apply List.filter_congr
  intro p _
  simp

theorem adel_aset_same {α : Type} (k : Str) (x : α) : ∀ d : AL α, adel k (aset k x d) = adel k d
  | [] => by rw [aset_nil, adel_cons_same]
  | (k0, v0) :: r => by
    by_cases h0 : k0 = k
    · subst h0
      rw [aset_cons_same, adel_cons_same, adel_cons_same]
    · rw [aset_cons_ne h0, adel_cons_ne h0, adel_cons_ne h0, adel_aset_same k x r]

theorem aset_aset_same {α : Type} (k : Str) (x y : α) : ∀ d : AL α, aset k y (aset k x d) = aset k y d
  | [] => by rw [aset_nil, aset_cons_same, aset_nil]
  | (k0, v0) :: r => by
    by_cases h0 : k0 = k
    · subst h0
      rw [aset_cons_same, aset_cons_same, aset_cons_same]
    · rw [aset_cons_ne h0, aset_cons_ne h0, aset_cons_ne h0, aset_aset_same k x y r]

/-- two writes under different keys commute as soon as one of the keys is already there (else the two new keys
    are appended in the order of the writes) -/
theorem aset_aset_comm {α : Type} {k k' : Str} (h : k ≠ k') (x y : α) : ∀ d : AL α, (k ∈ akeys d ∨ k' ∈ akeys d) →
    aset k' y (aset k x d) = aset k x (aset k' y d)
  | [], hm => by rcases hm with hm | hm <;> simp [akeys] at hm
  | (k0, v0) :: r, hm => by
    by_cases h0 : k0 = k
    · subst h0
      have h1 : ¬ k0 = k' := h
      simp [aset, h1]
    · by_cases h1 : k0 = k'
      · subst h1
        simp [aset, h0]
      · have hm' : k ∈ akeys r ∨ k' ∈ akeys r := by
          simp only [akeys, List.map_cons, List.mem_cons] at hm
          rcases hm with (e | m) | (e | m)
          · exact absurd e.symm h0
          · exact Or.inl m
          · exact absurd e.symm h1
          · exact Or.inr m
        simp only [aset, h0, h1, if_false]
        rw [aset_aset_comm h x y r hm']

theorem aset_map {α β : Type} (f : α → β) (k : Str) (x : α) : ∀ d : AL α,
    (aset k x d).map (fun p => (p.1, f p.2)) = aset k (f x) (d.map (fun p => (p.1, f p.2)))
  | [] => rfl
  | (k0, v0) :: r => by
    by_cases h0 : k0 = k
    · simp [aset, h0]
    · simp only [aset, h0, if_false, List.map_cons]
      rw [aset_map f k x r]

theorem adel_map {α β : Type} (f : α → β) (k : Str) (d : AL α) :
    (adel k d).map (fun p => (p.1, f p.2)) = adel k (d.map (fun p => (p.1, f p.2))) := by
  unfold adel
  rw [List.filter_map]
  rfl

/-- after `d[k] = y` the old value under `k` no longer matters -/
theorem aset_map_congr {α β : Type} {f g : α → β} (k : Str) (y : β) : ∀ {d : AL α}, (akeys d).Nodup →
    (∀ p ∈ d, p.1 ≠ k → f p.2 = g p.2) →
    aset k y (d.map (fun p => (p.1, f p.2))) = aset k y (d.map (fun p => (p.1, g p.2)))
  | [], _, _ => rfl
  | (k0, v0) :: r, hn, h => by
    have hn' : k0 ∉ akeys r ∧ (akeys r).Nodup := by simpa [akeys] using hn
    by_cases h0 : k0 = k
    · subst h0
      simp only [List.map_cons, aset, if_true]
      congr 1
      apply List.map_congr_left
      intro p hp
      have hne : p.1 ≠ k0 := fun e => hn'.1 (e ▸ List.mem_map_of_mem (f := fun p : Str × α => p.1) hp)
      rw [h p (List.mem_cons_of_mem _ hp) hne]
    · simp only [List.map_cons, aset, h0, if_false]
      rw [h (k0, v0) (by simp) h0, aset_map_congr k y hn'.2 (fun p hp => h p (List.mem_cons_of_mem _ hp))]

theorem adel_map_congr {α β : Type} {f g : α → β} (k : Str) : ∀ {d : AL α},
    (∀ p ∈ d, p.1 ≠ k → f p.2 = g p.2) →
    adel k (d.map (fun p => (p.1, f p.2))) = adel k (d.map (fun p => (p.1, g p.2)))
  | [], _ => rfl
  | (k0, v0) :: r, h => by
    have ih := adel_map_congr (f := f) (g := g) k (d := r) (fun p hp => h p (List.mem_cons_of_mem _ hp))
    by_cases h0 : k0 = k
    · subst h0
      simp only [List.map_cons]
      rw [adel_cons_same, adel_cons_same, ih]
    · simp only [List.map_cons]
      rw [adel_cons_ne h0, adel_cons_ne h0, ih, h (k0, v0) (by simp) h0]

theorem akeys_aset_of_mem {α : Type} {k : Str} (x : α) : ∀ {d : AL α}, k ∈ akeys d → akeys (aset k x d) = akeys d
  | [], h => by simp [akeys] at h
  | (k0, v0) :: r, h => by
    by_cases h0 : k0 = k
    · simp [aset, h0, akeys]
    · have hm : k ∈ akeys r := by
        simp only [akeys, List.map_cons, List.mem_cons] at h
        rcases h with e | m
        · exact absurd e.symm h0
        · exact m
      have := akeys_aset_of_mem x hm
      simp only [akeys] at this
      simp [aset, h0, akeys, this]

/-! #### the one list as a function of the three state components -/

/-- the `class` step of `_handleClassAttr` -/
def classStep (cls : List Str) (d : AL Slot) : AL Slot :=
  if cls.isEmpty then adel classK d else aset classK (Slot.cls (joinWith [' '] cls)) d

/-- the `style` step (`_handleClassAttr`, and `_ensureHtmlAttribute`) -/
def styleStep (sty : AL Str) (d : AL Slot) : AL Slot :=
  if sty.isEmpty then adel styleK d else aset styleK Slot.sty d

def syncDict (d : AL Slot) (cls : List Str) (sty : AL Str) : AL Slot := styleStep sty (classStep cls d)

/-- what a slot shows in `getAttributesList()` -/
def slotView (sty : AL Str) : Slot → Option Str
  | .val v => v
  | .cls s => some s
  | .sty => some (asStr sty)

def viewOf (d : AL Slot) (cls : List Str) (sty : AL Str) : List (Str × Option Str) :=
  (syncDict d cls sty).map (fun p => (p.1, slotView sty p.2))

theorem handleClassAttr_dict (e : El) : (handleClassAttr e).dict = syncDict e.dict e.cls e.sty := rfl

theorem viewList_eq (e : El) : viewList e = viewOf e.dict e.cls e.sty := by
  unfold viewList viewOf
  rw [attrsList_fst, items_fst, List.map_map, handleClassAttr_dict]
  apply List.map_congr_left
  intro p _
  show (p.1, (slotVal (handleClassAttr e) p.2).tostrOpt) = (p.1, slotView e.sty p.2)
  cases p.2 with
  | val v => cases v <;> rfl
  | cls s => rfl
  | sty => rfl

theorem ensureStyle_dict (e : El) : (ensureStyle e).dict = styleStep e.sty e.dict := by
  unfold ensureStyle styleStep
  split <;> rfl

/-! #### the `class` key of the dict in step with the class list -/

/-- the state after any synchronising reader (`items()`, `keys()`, `getAttributesList()`, `getStartTag()` …): the
    `class` key is in the dict exactly when there is a class name -/
def ClassSynced (e : El) : Prop := classK ∈ akeys e.dict ↔ e.cls ≠ []

theorem classStep_mem (cls : List Str) (d : AL Slot) : classK ∈ akeys (classStep cls d) ↔ cls ≠ [] := by
  unfold classStep
  cases cls with
  | nil =>
    simp only [List.isEmpty_nil, if_true, ne_eq, not_true_eq_false, iff_false]
    intro h
    exact (mem_akeys_adel.mp h).2 rfl
  | cons a r =>
    simp only [List.isEmpty_cons, Bool.false_eq_true, if_false, ne_eq, reduceCtorEq, not_false_eq_true, iff_true]
    exact (mem_akeys_aset _).mpr (Or.inl rfl)

theorem styleStep_mem_other (sty : AL Str) (d : AL Slot) {k : Str} (hk : k ≠ styleK) :
    k ∈ akeys (styleStep sty d) ↔ k ∈ akeys d := by
  unfold styleStep
  split
  · rw [mem_akeys_adel]; exact ⟨fun h => h.1, fun h => ⟨h, hk⟩⟩
  · rw [mem_akeys_aset]; exact ⟨fun h => h.resolve_left hk, fun h => Or.inr h⟩

theorem classSynced_sync (e : El) : ClassSynced (handleClassAttr e) := by
  unfold ClassSynced
  rw [handleClassAttr_dict]
  unfold syncDict
  rw [styleStep_mem_other _ _ classK_ne_styleK]
  exact classStep_mem e.cls e.dict

/-- with the dict's `style` key present exactly when the style map is non-empty (`DictInv.style`) and holding the
    style object, the `style` step changes nothing -/
theorem styleStep_self {sty : AL Str} {d : AL Slot} (hs : ahas styleK d = !sty.isEmpty)
    (hv : ∀ p ∈ d, p.1 = styleK → p.2 = Slot.sty) : styleStep sty d = d := by
  unfold styleStep
  cases he : sty.isEmpty with
  | true =>
    simp only [if_true]
    rw [he] at hs
    exact adel_of_not_mem (ahas_eq_false_iff.mp (by simpa using hs))
  | false =>
    simp only [Bool.false_eq_true, if_false]
    rw [he] at hs
    exact aset_eq_self (ahas_iff_mem.mp (by simpa using hs)) hv

theorem style_slot_of_inv {e : El} (h : DictInv e) : ∀ p ∈ e.dict, p.1 = styleK → p.2 = Slot.sty := by
  intro p hp hk
  have := (h.slots p hp).2.2
  cases hs : p.2 with
  | val v => rw [hs] at this; exact absurd hk this.2
  | cls s => rw [hs] at this; exact absurd (hk.symm.trans this) (Ne.symm classK_ne_styleK)
  | sty => rfl

/-! #### commutation of the synchronisation with the writes -/

theorem classStep_aset_comm {k : Str} (hk : k ≠ classK) (x : Slot) (cls : List Str) (d : AL Slot)
    (hc : cls ≠ [] → classK ∈ akeys d) : classStep cls (aset k x d) = aset k x (classStep cls d) := by
  unfold classStep
  cases he : cls.isEmpty with
  | true => simp only [if_true]; exact adel_aset_comm hk x d
  | false =>
    simp only [Bool.false_eq_true, if_false]
    have hne : cls ≠ [] := by intro h; rw [h] at he; cases he
    exact aset_aset_comm hk x _ d (Or.inr (hc hne))

theorem styleStep_aset_comm {k : Str} (hk : k ≠ styleK) (x : Slot) (sty : AL Str) (d : AL Slot)
    (hc : sty.isEmpty = false → styleK ∈ akeys d ∨ k ∈ akeys d) :
    styleStep sty (aset k x d) = aset k x (styleStep sty d) := by
  unfold styleStep
  cases he : sty.isEmpty with
  | true => simp only [if_true]; exact adel_aset_comm hk x d
  | false =>
    simp only [Bool.false_eq_true, if_false]
    exact aset_aset_comm hk x _ d ((hc he).symm)

theorem classStep_adel_comm {k : Str} (hk : k ≠ classK) (cls : List Str) (d : AL Slot) :
    classStep cls (adel k d) = adel k (classStep cls d) := by
  unfold classStep
  split
  · exact adel_adel_comm k classK d
  · exact (adel_aset_comm (Ne.symm hk) _ d).symm

theorem styleStep_adel_comm {k : Str} (hk : k ≠ styleK) (sty : AL Str) (d : AL Slot) :
    styleStep sty (adel k d) = adel k (styleStep sty d) := by
  unfold styleStep
  split
  · exact adel_adel_comm k styleK d
  · exact (adel_aset_comm (Ne.symm hk) _ d).symm

theorem style_mem_of_inv {e : El} (h : DictInv e) (hne : e.sty.isEmpty = false) : styleK ∈ akeys e.dict := by
  apply ahas_iff_mem.mp
  rw [h.style, hne]
  rfl

/-- `d[k] = x` for an ordinary key, seen through the one list — when no `class` key is pending -/
theorem viewOf_aset {e : El} (h : DictInv e) (hc : e.cls ≠ [] → classK ∈ akeys e.dict) {k : Str}
    (hkc : k ≠ classK) (hks : k ≠ styleK) (v : Option Str) :
    viewOf (aset k (Slot.val v) e.dict) e.cls e.sty = aset k v (viewOf e.dict e.cls e.sty) := by
  unfold viewOf syncDict
  rw [classStep_aset_comm hkc _ _ _ hc, styleStep_aset_comm hks, aset_map]
  · rfl
  · intro hne
    left
    have hm := style_mem_of_inv h hne
    unfold classStep
    split
    · exact mem_akeys_adel.mpr ⟨hm, styleK_ne_classK⟩
    · exact (mem_akeys_aset _).mpr (Or.inr hm)

/-- `del d[k]` for an ordinary key, seen through the one list — in every state -/
theorem viewOf_adel (d : AL Slot) (cls : List Str) (sty : AL Str) {k : Str} (hkc : k ≠ classK) (hks : k ≠ styleK) :
    viewOf (adel k d) cls sty = adel k (viewOf d cls sty) := by
  unfold viewOf syncDict
  rw [classStep_adel_comm hkc, styleStep_adel_comm hks, adel_map]

/-! #### the synchronised dict under the invariant; changes of the class list and of the style map -/

theorem ahas_classStep_style (cls : List Str) (d : AL Slot) : ahas styleK (classStep cls d) = ahas styleK d := by
  unfold classStep
  split
  · exact ahas_adel_ne styleK_ne_classK d
  · exact ahas_aset_ne styleK_ne_classK _ d

theorem mem_classStep {cls : List Str} {d : AL Slot} {p : Str × Slot} (hp : p ∈ classStep cls d) :
    p = (classK, Slot.cls (joinWith [' '] cls)) ∨ p ∈ d := by
  unfold classStep at hp
  split at hp
  · exact Or.inr (mem_adel.mp hp).1
  · exact mem_aset hp

/-- under the invariant the `style` step of the synchronisation is the identity: the writers keep the key eagerly -/
theorem syncDict_eq_classStep {e : El} (h : DictInv e) : syncDict e.dict e.cls e.sty = classStep e.cls e.dict := by
  unfold syncDict
  apply styleStep_self
  · rw [ahas_classStep_style]; exact h.style
  · intro p hp hk
    rcases mem_classStep hp with rfl | hm
    · exact absurd hk classK_ne_styleK
    · exact style_slot_of_inv h p hm hk

theorem adel_class_classStep (cls : List Str) (d : AL Slot) : adel classK (classStep cls d) = adel classK d := by
  unfold classStep
  split
  · exact adel_idem classK d
  · exact adel_aset_same classK _ d

/-- the one list without its `class` entry is the one list of the same element without class names -/
theorem adel_class_viewOf (d : AL Slot) (cls : List Str) (sty : AL Str) :
    adel classK (viewOf d cls sty) = viewOf d [] sty := by
  unfold viewOf syncDict
  rw [← adel_map, ← styleStep_adel_comm classK_ne_styleK, adel_class_classStep]
  rfl

theorem slotView_congr_of_ne_style {e : El} (h : DictInv e) (m : AL Str) :
    ∀ p ∈ classStep e.cls e.dict, p.1 ≠ styleK → slotView m p.2 = slotView e.sty p.2 := by
  intro p hp hk
  rcases mem_classStep hp with rfl | hm
  · rfl
  · have := (h.slots p hm).2.2
    cases hs : p.2 with
    | val v => rfl
    | cls s => rfl
    | sty => rw [hs] at this; exact absurd this hk

theorem nodup_classStep {e : El} (h : DictInv e) : (akeys (classStep e.cls e.dict)).Nodup := by
  unfold classStep
  split
  · exact nodup_adel _ h.nodup
  · exact nodup_aset _ _ h.nodup

/-- replacing the class list (the dict is not touched), seen through the one list: `d['class'] = …` / `del d['class']`
    on the list — when the `class` key of the dict is in step with the old class list -/
theorem viewOf_class {e : El} (h : DictInv e) (hs : ClassSynced e) (cls' : List Str) :
    viewOf e.dict cls' e.sty =
      if cls'.isEmpty then adel classK (viewOf e.dict e.cls e.sty)
      else aset classK (some (joinWith [' '] cls')) (viewOf e.dict e.cls e.sty) := by
  have hD1 : ∀ x : Slot, aset classK x (classStep e.cls e.dict) = aset classK x e.dict := by
    intro x
    unfold classStep
    cases he : e.cls.isEmpty with
    | true =>
      simp only [if_true]
      have : classK ∉ akeys e.dict := fun hm => by
        have := hs.mp hm
        exact this (by simpa using he)
      rw [adel_of_not_mem this]
    | false =>
      simp only [Bool.false_eq_true, if_false]
      exact aset_aset_same classK _ x e.dict
  cases he' : cls'.isEmpty with
  | true =>
    simp only [if_true]
    rw [adel_class_viewOf]
    have : cls' = [] := by simpa using he'
    rw [this]
  | false =>
    simp only [Bool.false_eq_true, if_false]
    unfold viewOf syncDict
    have hcomm : styleStep e.sty (aset classK (Slot.cls (joinWith [' '] cls')) (classStep e.cls e.dict))
        = aset classK (Slot.cls (joinWith [' '] cls')) (styleStep e.sty (classStep e.cls e.dict)) := by
      apply styleStep_aset_comm classK_ne_styleK
      intro hne
      left
      have hm := style_mem_of_inv h hne
      have := ahas_classStep_style e.cls e.dict
      apply ahas_iff_mem.mp
      rw [this]
      exact ahas_iff_mem.mpr hm
    have e1 : classStep cls' e.dict = aset classK (Slot.cls (joinWith [' '] cls')) e.dict := by
      unfold classStep; rw [he']; rfl
    rw [e1, ← hD1, hcomm, aset_map]
    rfl

/-- replacing the style map and running `_ensureHtmlAttribute`, seen through the one list: `d['style'] = …` /
    `del d['style']` on the list — when no `class` key is pending -/
theorem viewOf_style {e : El} (h : DictInv e) (hc : e.cls ≠ [] → classK ∈ akeys e.dict) (m : AL Str) :
    viewOf (styleStep m e.dict) e.cls m =
      if m.isEmpty then adel styleK (viewOf e.dict e.cls e.sty)
      else aset styleK (some (asStr m)) (viewOf e.dict e.cls e.sty) := by
  have hX : viewOf e.dict e.cls e.sty = (classStep e.cls e.dict).map (fun p => (p.1, slotView e.sty p.2)) := by
    unfold viewOf; rw [syncDict_eq_classStep h]
  rw [hX]
  unfold viewOf syncDict
  cases he : m.isEmpty with
  | true =>
    simp only [if_true]
    have e1 : styleStep m e.dict = adel styleK e.dict := by unfold styleStep; rw [he]; rfl
    have e2 : ∀ d, styleStep m d = adel styleK d := by intro d; unfold styleStep; rw [he]; rfl
    rw [e1, classStep_adel_comm styleK_ne_classK, e2, adel_idem, adel_map]
    exact adel_map_congr styleK (slotView_congr_of_ne_style h m)
  | false =>
    simp only [Bool.false_eq_true, if_false]
    have e2 : ∀ d, styleStep m d = aset styleK Slot.sty d := by intro d; unfold styleStep; rw [he]; rfl
    rw [e2, e2, classStep_aset_comm styleK_ne_classK _ _ _ hc, aset_aset_same, aset_map]
    exact aset_map_congr styleK _ (nodup_classStep h) (slotView_congr_of_ne_style h m)

/-! #### per key: what the one list holds under a key, from the three components -/

theorem viewList_lookup {e : El} (h : DictInv e) (k : Str) :
    aget k (viewList e) =
      if k = classK then (if e.cls.isEmpty then none else some (some e.className))
      else if k = styleK then (if e.sty.isEmpty then none else some (some (asStr e.sty)))
      else rawLookup k e := by
  by_cases hc : k = classK
  · rw [if_pos hc, hc, viewList_class]
  · rw [if_neg hc]
    by_cases hs : k = styleK
    · rw [if_pos hs, hs, viewList_style]
    · rw [if_neg hs, viewList_ordinary h hc hs]

/-- two states with the same class list, the same style map and the same raw slot under `k` list the same under `k` -/
theorem lookup_congr {e e' : El} (h : DictInv e) (h' : DictInv e') {k : Str} (hc : e'.cls = e.cls) (hs : e'.sty = e.sty)
    (hd : k ≠ classK → k ≠ styleK → aget k e'.dict = aget k e.dict) : aget k (viewList e') = aget k (viewList e) := by
  rw [viewList_lookup h', viewList_lookup h, hc, hs]
  unfold El.className
  rw [hc]
  by_cases h1 : k = classK
  · simp only [h1, if_true]
  · by_cases h2 : k = styleK
    · simp only [h1, h2, if_false, if_true]
    · simp only [h1, h2, if_false]
      unfold rawLookup
      rw [hd h1 h2]

/-! #### the writers as state updates -/

theorem words_nil : words [] = [] := by decide
theorem styleToDict_nil : styleToDict [] = [] := by decide

theorem mapSet_ordinary (T : Tables) {k : Str} (hv : validName k = true) (hc : lower k ≠ classK) (hs : lower k ≠ styleK)
    (v : Option Str) (e : El) :
    mapSet T k v e = (.ok, { e with dict := aset (lower k) (Slot.val (normVal T (lower k) v)) e.dict }) := by
  unfold mapSet normVal
  simp only [validName_lower, hv, hc, hs, Bool.not_true, Bool.false_eq_true, if_false]

theorem mapSet_class (T : Tables) {k : Str} (hk : lower k = classK) (v : Option Str) (e : El) :
    mapSet T k v e = (.ok, { e with cls := words (v.getD []) }) := by
  unfold mapSet
  simp only [hk]
  have h1 : (!validName classK) = false := by decide
  simp only [h1, Bool.false_eq_true, if_false, classK_ne_styleK, if_true]
  rfl

theorem mapSet_style (T : Tables) {k : Str} (hk : lower k = styleK) (v : Option Str) (e : El) :
    mapSet T k v e = (.ok, ensureStyle { e with sty := styleToDict (v.getD []) }) := by
  unfold mapSet
  simp only [hk]
  have h1 : (!validName styleK) = false := by decide
  simp only [h1, Bool.false_eq_true, if_false, if_true]
  unfold assignStyleFrom assignStyle
  simp only [Option.getD_some]
  rw [styleToDict_render_idem]

theorem mapDel_ordinary {k : Str} (hc : lower k ≠ classK) (hs : lower k ≠ styleK) (e : El) :
    mapDel k e = { e with dict := adel (lower k) e.dict } := by
  unfold mapDel
  simp only [hc, hs, if_false]

theorem mapDel_class {k : Str} (hk : lower k = classK) (e : El) : mapDel k e = { e with cls := [] } := by
  unfold mapDel
  simp only [hk, classK_ne_styleK, if_false, if_true]
  unfold setClassName
  simp only [Option.getD_some]
  rw [words_nil]

theorem mapDel_style {k : Str} (hk : lower k = styleK) (e : El) : mapDel k e = ensureStyle { e with sty := [] } := by
  unfold mapDel
  simp only [hk, if_true]
  unfold assignStyle
  simp only [Option.getD_some]
  rw [styleToDict_nil]

theorem setAttribute_eq_mapSet (T : Tables) {k : Str} (hv : validName k = true) (v : Option Str) (e : El) :
    setAttribute T k v e = mapSet T k v e := by
  unfold setAttribute
  simp [hv]

theorem assignStyle_eq (v : Option Str) (e : El) : assignStyle v e = ensureStyle { e with sty := styleToDict (v.getD []) } := rfl

theorem assignStyleFrom_eq (s : Str) (e : El) :
    assignStyleFrom (styleToDict s) e = ensureStyle { e with sty := styleToDict s } := by
  unfold assignStyleFrom assignStyle
  simp only [Option.getD_some]
  rw [styleToDict_render_idem]

/-! #### the one list after each kind of write, as a LIST -/

theorem viewList_set_dict {e : El} (h : DictInv e) (hc : e.cls ≠ [] → classK ∈ akeys e.dict) {k : Str}
    (hkc : k ≠ classK) (hks : k ≠ styleK) (v : Option Str) :
    viewList { e with dict := aset k (Slot.val v) e.dict } = aset k v (viewList e) := by
  rw [viewList_eq, viewList_eq]
  exact viewOf_aset h hc hkc hks v

theorem viewList_del_dict (e : El) {k : Str} (hkc : k ≠ classK) (hks : k ≠ styleK) :
    viewList { e with dict := adel k e.dict } = adel k (viewList e) := by
  rw [viewList_eq, viewList_eq]
  exact viewOf_adel e.dict e.cls e.sty hkc hks

theorem viewList_set_cls {e : El} (h : DictInv e) (hs : ClassSynced e) (cls' : List Str) :
    viewList { e with cls := cls' } =
      if cls'.isEmpty then adel classK (viewList e) else aset classK (some (joinWith [' '] cls')) (viewList e) := by
  rw [viewList_eq, viewList_eq]
  exact viewOf_class h hs cls'

theorem viewList_set_sty {e : El} (h : DictInv e) (hc : e.cls ≠ [] → classK ∈ akeys e.dict) (m : AL Str) :
    viewList (ensureStyle { e with sty := m }) =
      if m.isEmpty then adel styleK (viewList e) else aset styleK (some (asStr m)) (viewList e) := by
  rw [viewList_eq, viewList_eq, ensureStyle_dict]
  have : (ensureStyle { e with sty := m }).cls = e.cls := ensureStyle_cls _
  rw [this, ensureStyle_sty]
  exact viewOf_style h hc m

/-- the one list without its `class` entry: the list of the element with its class names taken away -/
theorem adel_class_viewList (e : El) : adel classK (viewList e) = viewList { e with cls := [] } := by
  rw [viewList_eq, viewList_eq]
  exact adel_class_viewOf e.dict e.cls e.sty

/-- `_handleClassAttr` twice is `_handleClassAttr` once -/
theorem viewList_sync_list {e : El} (h : DictInv e) : viewList (handleClassAttr e) = viewList e := by
  rw [viewList_eq, viewList_eq]
  show viewOf (syncDict e.dict e.cls e.sty) e.cls e.sty = viewOf e.dict e.cls e.sty
  unfold viewOf
  congr 1
  have hi := dictInv_handleClassAttr h
  have := syncDict_eq_classStep hi
  rw [handleClassAttr_dict] at this
  show syncDict (syncDict e.dict e.cls e.sty) e.cls e.sty = _
  have e1 : (handleClassAttr e).cls = e.cls := rfl
  have e2 : (handleClassAttr e).sty = e.sty := rfl
  rw [e1, e2] at this
  rw [this, syncDict_eq_classStep h]
  unfold classStep
  split
  · exact adel_idem classK _
  · exact aset_aset_same classK _ _ _

end AHP.Attrs
