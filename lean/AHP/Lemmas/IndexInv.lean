/-
  The index invariant of `IndexedAdvancedHTMLParser` (C07) and its preservation.

    `matchU p xs`   uids of the elements of `xs` (creation order) that satisfy `p`
    `classU c xs`   what `_classNameMap[c]` holds: the uid of every element of `xs`, once per occurrence of `c` in
                    its class list (`class="a a"` is listed twice under `a` — `_indexClassName` loops over
                    `tag.classNames` without de-duplication; the lookups wrap the list in a `TagCollection`)
    `Idx.Good i`    structural well-formedness of an index state: `indexFunctions` mirrors the flags, the two
                    dicts of the attribute indexes have the same keys, no key twice
    `Idx.Holds i xs` every installed map lists, per key, exactly the matching elements of `xs`, in order
-/
import AHP.Lemmas.Index
namespace AHP.G3
open Idx

def matchU (p : Elem → Bool) (xs : List Elem) : List Nat := (xs.filter p).map (·.uid)

theorem matchU_nil (p : Elem → Bool) : matchU p [] = [] := rfl

theorem matchU_snoc (p : Elem → Bool) (xs : List Elem) (e : Elem) :
    matchU p (xs ++ [e]) = matchU p xs ++ (if p e then [e.uid] else []) := by
  by_cases h : p e <;> simp [matchU, List.filter_append, h]

/-- the entry of `_classNameMap` under `c` for the elements `xs` indexed in this order: every element once per
    occurrence of `c` in its class list -/
def classU (c : Str) (xs : List Elem) : List Nat := xs.flatMap (fun e => List.replicate (e.classes.count c) e.uid)

theorem classU_snoc (c : Str) (xs : List Elem) (e : Elem) :
    classU c (xs ++ [e]) = classU c xs ++ List.replicate (e.classes.count c) e.uid := by
  simp [classU, List.flatMap_append]

/-- without repeated class names the entry is the list of matching elements, each once -/
theorem classU_eq_matchU (c : Str) (xs : List Elem) (h : ∀ e ∈ xs, e.classes.Nodup) :
    classU c xs = matchU (pClass c) xs := by
  induction xs with
  | nil => rfl
  | cons e xs ih =>
    have ih' := ih (fun x hx => h x (List.mem_cons_of_mem _ hx))
    have hn := h e List.mem_cons_self
    simp only [classU, List.flatMap_cons] at ih' ⊢
    rw [ih']
    by_cases hc : c ∈ e.classes
    · have h1 : e.classes.count c = 1 := by rw [List.Nodup.count hn, if_pos hc]
      have h2 : pClass c e = true := by simp [pClass, Elem.hasClass, hc]
      simp [matchU, List.filter_cons, h1, h2]
    · have h1 : e.classes.count c = 0 := List.count_eq_zero.mpr hc
      have h2 : pClass c e = false := by simp [pClass, Elem.hasClass, hc]
      simp [matchU, List.filter_cons, h1, h2]

namespace Idx

structure Good (i : Idx) : Prop where
  sync : i.fnIDs = i.indexIDs ∧ i.fnNames = i.indexNames ∧ i.fnClassNames = i.indexClassNames ∧
         i.fnTagNames = i.indexTagNames
  nodup : i.otherFns.Nodup
  keys : ∀ a, a ∈ i.otherFns ↔ (i.other.lookup a).isSome = true

structure Holds (i : Idx) (xs : List Elem) : Prop where
  tags : i.fnTagNames = true → ∀ q, assocGet i.tagNameMap q = matchU (pTag q) xs
  names : i.fnNames = true → ∀ q, q ≠ [] → assocGet i.nameMap q = matchU (pAttr (str "name") q) xs
  classes : i.fnClassNames = true → ∀ c, assocGet i.classNameMap c = classU c xs
  ids : i.fnIDs = true → ∀ q, q ≠ [] → i.idMap.lookup q = (matchU (pAttr (str "id") q) xs).getLast?
  others : ∀ a m, a ∈ i.otherFns → i.other.lookup a = some m → ∀ v, assocGet m v = matchU (pAttr a v) xs

/-! #### `_indexTag` as one record update -/

theorem indexTag_eq (i : Idx) (e : Elem) :
    indexTag i e = { i with
      idMap := if i.fnIDs then (indexID i e).idMap else i.idMap,
      nameMap := if i.fnNames then (indexName i e).nameMap else i.nameMap,
      classNameMap := if i.fnClassNames then (indexClassName i e).classNameMap else i.classNameMap,
      tagNameMap := if i.fnTagNames then (indexTagName i e).tagNameMap else i.tagNameMap,
      other := (indexOthers i e).other } := by
  obtain ⟨a1, a2, a3, a4, b1, b2, b3, b4, m1, m2, m3, m4, o, ofn⟩ := i
  cases b1 <;> cases b2 <;> cases b3 <;> cases b4 <;> rfl

/-! #### the single maps -/

theorem pTag_eq (q : Str) (e : Elem) : pTag q e = true ↔ q = e.tag := by
  simp only [pTag, beq_iff_eq]
  exact ⟨fun h => h.symm, fun h => h.symm⟩

theorem tag_step (m : List (Str × List Nat)) (e : Elem) (q : Str) (xs : List Elem)
    (h : assocGet m q = matchU (pTag q) xs) :
    assocGet (assocPush m e.tag e.uid) q = matchU (pTag q) (xs ++ [e]) := by
  rw [assocGet_push, matchU_snoc, h]
  congr 1
  by_cases hq : q = e.tag
  · simp [hq, pTag]
  · have : pTag q e = false := by
      cases hp : pTag q e
      · rfl
      · exact absurd ((pTag_eq q e).mp hp) hq
    simp [hq, this]

theorem pAttr_eq (a v : Str) (e : Elem) : pAttr a v e = true ↔ e.attr a = some v := by
  simp [pAttr]

theorem name_step (m : List (Str × List Nat)) (e : Elem) (q : Str) (hq : q ≠ []) (xs : List Elem)
    (h : assocGet m q = matchU (pAttr (str "name") q) xs) :
    assocGet (indexName ⟨false, false, false, false, false, false, false, false, [], m, [], [], [], []⟩ e).nameMap q
      = matchU (pAttr (str "name") q) (xs ++ [e]) := by
  rw [matchU_snoc, ← h]
  simp only [indexName]
  cases ha : e.attr (str "name") with
  | none =>
    have : pAttr (str "name") q e = false := by simp [pAttr, ha]
    simp [this]
  | some v =>
    by_cases hv : v.isEmpty = true
    · have hv' : v = [] := by simpa using hv
      have : pAttr (str "name") q e = false := by
        simp only [pAttr, ha]
        have : v ≠ q := fun c => hq (c ▸ hv')
        simp [this]
      simp [hv, this]
    · have hv2 : v.isEmpty = false := by simpa using hv
      simp only [hv2, Bool.false_eq_true, if_false]
      rw [assocGet_push]
      congr 1
      by_cases hqv : q = v
      · subst hqv; simp [pAttr, ha]
      · have : pAttr (str "name") q e = false := by
          simp only [pAttr, ha]
          have : v ≠ q := fun c => hqv c.symm
          simp [this]
        simp [hqv, this]

theorem class_fold (u : Nat) (c : Str) : ∀ (cs : List Str) (m : List (Str × List Nat)),
    assocGet (cs.foldl (fun m c => assocPush m c u) m) c = assocGet m c ++ List.replicate (cs.count c) u
  | [], m => by simp
  | c0 :: cs, m => by
    simp only [List.foldl_cons]
    rw [class_fold u c cs, assocGet_push]
    by_cases h0 : c = c0
    · subst h0
      simp [List.count_cons_self, List.replicate_succ]
    · have : (c0 == c) = false := by simpa using Ne.symm h0
      simp [h0, List.count_cons, this]

/-- `_indexClassName` on one element — for every class list, repeated names included -/
theorem class_step (m : List (Str × List Nat)) (e : Elem) (c : Str) (xs : List Elem)
    (h : assocGet m c = classU c xs) :
    assocGet (e.classes.foldl (fun m c => assocPush m c e.uid) m) c = classU c (xs ++ [e]) := by
  rw [class_fold e.uid c e.classes m, classU_snoc, h]

theorem getLast?_append_ite (l : List Nat) (b : Bool) (u : Nat) :
    (l ++ (if b then [u] else [])).getLast? = if b then some u else l.getLast? := by
  cases b <;> simp

theorem id_step (m : List (Str × Nat)) (e : Elem) (q : Str) (hq : q ≠ []) (xs : List Elem)
    (h : m.lookup q = (matchU (pAttr (str "id") q) xs).getLast?) :
    (indexID ⟨false, false, false, false, false, false, false, false, m, [], [], [], [], []⟩ e).idMap.lookup q
      = (matchU (pAttr (str "id") q) (xs ++ [e])).getLast? := by
  rw [matchU_snoc, getLast?_append_ite, ← h]
  simp only [indexID]
  cases ha : e.attr (str "id") with
  | none =>
    have : pAttr (str "id") q e = false := by simp [pAttr, ha]
    simp [this]
  | some v =>
    by_cases hv : v.isEmpty = true
    · have hv' : v = [] := by simpa using hv
      have : pAttr (str "id") q e = false := by
        simp only [pAttr, ha]
        have : v ≠ q := fun c => hq (c ▸ hv')
        simp [this]
      simp [hv, this]
    · have hv2 : v.isEmpty = false := by simpa using hv
      simp only [hv2, Bool.false_eq_true, if_false]
      by_cases hqv : q = v
      · subst hqv
        have : pAttr (str "id") q e = true := by simp [pAttr, ha]
        simp [lookup_assocSet_same, this]
      · have : pAttr (str "id") q e = false := by
          simp only [pAttr, ha]
          have : v ≠ q := fun c => hqv c.symm
          simp [this]
        simp [lookup_assocSet_other _ _ _ _ hqv, this]

/-! #### the attribute indexes -/

def updOther (m : List (Str × List Nat)) (a : Str) (e : Elem) : List (Str × List Nat) :=
  match e.attr a with
  | none => m
  | some v => assocPush m v e.uid

theorem indexOther_same (o : List (Str × List (Str × List Nat))) (a : Str) (e : Elem) (m : List (Str × List Nat))
    (h : o.lookup a = some m) : (indexOther o a e).lookup a = some (updOther m a e) := by
  simp only [indexOther, updOther]
  cases e.attr a with
  | none => exact h
  | some v => simp [h, lookup_assocSet_same]

theorem indexOther_other (o : List (Str × List (Str × List Nat))) (a b : Str) (e : Elem) (hne : b ≠ a) :
    (indexOther o a e).lookup b = o.lookup b := by
  simp only [indexOther]
  cases e.attr a with
  | none => rfl
  | some v =>
    cases o.lookup a with
    | none => rfl
    | some m => exact lookup_assocSet_other _ _ _ _ hne

theorem indexOther_fold_notin (e : Elem) (b : Str) : ∀ (fns : List Str) (o : List (Str × List (Str × List Nat))),
    b ∉ fns → (fns.foldl (fun o a => indexOther o a e) o).lookup b = o.lookup b
  | [], o, _ => rfl
  | a :: fns, o, h => by
    simp only [List.mem_cons, not_or] at h
    simp only [List.foldl_cons]
    rw [indexOther_fold_notin e b fns _ h.2, indexOther_other o a b e h.1]

theorem indexOther_fold_in (e : Elem) (b : Str) : ∀ (fns : List Str) (o : List (Str × List (Str × List Nat)))
    (m : List (Str × List Nat)), fns.Nodup → b ∈ fns → o.lookup b = some m →
    (fns.foldl (fun o a => indexOther o a e) o).lookup b = some (updOther m b e)
  | [], _, _, _, h, _ => by cases h
  | a :: fns, o, m, hn, hb, hm => by
    have hn' := List.nodup_cons.mp hn
    simp only [List.foldl_cons]
    by_cases hab : b = a
    · subst hab
      rw [indexOther_fold_notin e b fns _ hn'.1]
      exact indexOther_same o b e m hm
    · have hb' : b ∈ fns := by
        rcases List.mem_cons.mp hb with h | h
        · exact absurd h hab
        · exact h
      apply indexOther_fold_in e b fns _ m hn'.2 hb'
      rw [indexOther_other o a b e hab]; exact hm

theorem indexOther_fold_keys (e : Elem) (b : Str) : ∀ (fns : List Str) (o : List (Str × List (Str × List Nat))),
    ((fns.foldl (fun o a => indexOther o a e) o).lookup b).isSome = (o.lookup b).isSome
  | [], _ => rfl
  | a :: fns, o => by
    simp only [List.foldl_cons]
    rw [indexOther_fold_keys e b fns]
    by_cases hab : b = a
    · subst hab
      cases hm : o.lookup b with
      | none =>
        simp only [indexOther, hm]
        cases e.attr b <;> simp [hm]
      | some m => simp [indexOther_same o b e m hm]
    · rw [indexOther_other o a b e hab]

theorem updOther_step (m : List (Str × List Nat)) (a : Str) (e : Elem) (v : Str) (xs : List Elem)
    (h : assocGet m v = matchU (pAttr a v) xs) :
    assocGet (updOther m a e) v = matchU (pAttr a v) (xs ++ [e]) := by
  rw [matchU_snoc, ← h]
  simp only [updOther]
  cases ha : e.attr a with
  | none =>
    have : pAttr a v e = false := by simp [pAttr, ha]
    simp [this]
  | some w =>
    simp only
    rw [assocGet_push]
    congr 1
    by_cases hvw : v = w
    · subst hvw; simp [pAttr, ha]
    · have : pAttr a v e = false := by
        simp only [pAttr, ha]
        have : w ≠ v := fun c => hvw c.symm
        simp [this]
      simp [hvw, this]

/-! #### one element -/

theorem indexTag_good {i : Idx} (h : Good i) (e : Elem) : Good (indexTag i e) := by
  rw [indexTag_eq]
  refine ⟨h.sync, h.nodup, ?_⟩
  intro a
  show a ∈ i.otherFns ↔ ((indexOthers i e).other.lookup a).isSome = true
  rw [h.keys a]
  simp only [indexOthers]
  rw [indexOther_fold_keys]

theorem indexTag_holds {i : Idx} (hg : Good i) {xs : List Elem} (h : Holds i xs) (e : Elem) :
    Holds (indexTag i e) (xs ++ [e]) := by
  rw [indexTag_eq]
  refine ⟨?_, ?_, ?_, ?_, ?_⟩
  · intro hf q
    have hf' : i.fnTagNames = true := hf
    show assocGet (if i.fnTagNames = true then (indexTagName i e).tagNameMap else i.tagNameMap) q = _
    simp only [hf', if_true, indexTagName]
    exact tag_step _ e q xs (h.tags hf' q)
  · intro hf q hq
    have hf' : i.fnNames = true := hf
    show assocGet (if i.fnNames = true then (indexName i e).nameMap else i.nameMap) q = _
    simp only [hf', if_true]
    exact name_step i.nameMap e q hq xs (h.names hf' q hq)
  · intro hf c
    have hf' : i.fnClassNames = true := hf
    show assocGet (if i.fnClassNames = true then (indexClassName i e).classNameMap else i.classNameMap) c = _
    simp only [hf', if_true, indexClassName]
    exact class_step _ e c xs (h.classes hf' c)
  · intro hf q hq
    have hf' : i.fnIDs = true := hf
    show (if i.fnIDs = true then (indexID i e).idMap else i.idMap).lookup q = _
    simp only [hf', if_true]
    exact id_step i.idMap e q hq xs (h.ids hf' q hq)
  · intro a m ha hm v
    have ha' : a ∈ i.otherFns := ha
    have hm' : (indexOthers i e).other.lookup a = some m := hm
    obtain ⟨m0, hm0⟩ := Option.isSome_iff_exists.mp ((hg.keys a).mp ha')
    simp only [indexOthers] at hm'
    rw [indexOther_fold_in e a i.otherFns i.other m0 hg.nodup ha' hm0] at hm'
    have : m = updOther m0 a e := by simpa using hm'.symm
    subst this
    exact updOther_step m0 a e v xs (h.others a m0 ha' hm0 v)

/-! #### many elements -/

theorem fold_good {i : Idx} (h : Good i) (es : List Elem) : Good (es.foldl indexTag i) := by
  induction es generalizing i with
  | nil => exact h
  | cons e es ih => exact ih (indexTag_good h e)

theorem fold_holds {i : Idx} (hg : Good i) {xs : List Elem} (h : Holds i xs) (es : List Elem) :
    Holds (es.foldl indexTag i) (xs ++ es) := by
  induction es generalizing i xs with
  | nil => simpa using h
  | cons e es ih =>
    have h1 := indexTag_holds hg h e
    have := ih (indexTag_good hg e) h1
    simpa [List.append_assoc] using this

/-! #### `_resetIndexInternal` -/

theorem lookup_map_reset (o : List (Str × List (Str × List Nat))) (a : Str) :
    (o.map (fun p => (p.1, ([] : List (Str × List Nat))))).lookup a = (o.lookup a).map (fun _ => []) := by
  induction o with
  | nil => rfl
  | cons p rest ih =>
    obtain ⟨k, v⟩ := p
    simp only [List.map_cons, List.lookup_cons]
    cases (a == k) <;> simp [ih]

/-- What `_resetIndexInternal` needs of the state it is called on: the dict keys. -/
structure Keys (i : Idx) : Prop where
  nodup : i.otherFns.Nodup
  keys : ∀ a, a ∈ i.otherFns ↔ (i.other.lookup a).isSome = true

theorem Good.toKeys {i : Idx} (h : Good i) : Keys i := ⟨h.nodup, h.keys⟩

theorem reset_good {i : Idx} (h : Keys i) : Good (resetInternal i) := by
  refine ⟨⟨rfl, rfl, rfl, rfl⟩, h.nodup, ?_⟩
  intro a
  show a ∈ i.otherFns ↔ ((i.other.map (fun p => (p.1, []))).lookup a).isSome = true
  rw [lookup_map_reset, h.keys a]
  cases i.other.lookup a <;> simp

theorem reset_holds (i : Idx) : Holds (resetInternal i) [] := by
  refine ⟨?_, ?_, ?_, ?_, ?_⟩
  · intro _ q; rfl
  · intro _ q _; rfl
  · intro _ c; rfl
  · intro _ q _; rfl
  · intro a m _ hm v
    have hm' : (i.other.map (fun p => (p.1, []))).lookup a = some m := hm
    rw [lookup_map_reset] at hm'
    cases h : i.other.lookup a with
    | none => simp [h] at hm'
    | some m0 =>
      simp only [h, Option.map_some, Option.some.injEq] at hm'
      subst hm'
      rfl

/-! #### the configuration operations keep the state well-formed -/

theorem init_keys (a b c d : Bool) :
    Keys ⟨a, b, c, d, false, false, false, false, [], [], [], [], [], []⟩ :=
  ⟨List.nodup_nil, by intro a; simp⟩

theorem init_good (a b c d : Bool) : Good (init a b c d) := reset_good (init_keys a b c d)

theorem addIndexOn_keys {i : Idx} (h : Keys i) (a0 : Str) : Keys (addIndexOn i a0) := by
  by_cases hc : lower a0 ∈ i.otherFns
  · have hc' : i.otherFns.contains (lower a0) = true := by simpa using hc
    refine ⟨?_, ?_⟩
    · show (if i.otherFns.contains (lower a0) = true then i.otherFns else i.otherFns ++ [lower a0]).Nodup
      rw [if_pos hc']; exact h.nodup
    · intro b
      show b ∈ (if i.otherFns.contains (lower a0) = true then i.otherFns else i.otherFns ++ [lower a0]) ↔
        ((assocSet i.other (lower a0) []).lookup b).isSome = true
      rw [if_pos hc']
      by_cases hb : b = lower a0
      · subst hb; rw [lookup_assocSet_same]; simp [hc]
      · rw [lookup_assocSet_other _ _ _ _ hb]; exact h.keys b
  · have hc' : ¬ (i.otherFns.contains (lower a0) = true) := by simpa using hc
    refine ⟨?_, ?_⟩
    · show (if i.otherFns.contains (lower a0) = true then i.otherFns else i.otherFns ++ [lower a0]).Nodup
      rw [if_neg hc']
      exact List.nodup_append.mpr ⟨h.nodup, by simp, by
        intro x hx y hy
        simp at hy
        subst hy
        intro e; subst e; exact hc hx⟩
    · intro b
      show b ∈ (if i.otherFns.contains (lower a0) = true then i.otherFns else i.otherFns ++ [lower a0]) ↔
        ((assocSet i.other (lower a0) []).lookup b).isSome = true
      rw [if_neg hc']
      by_cases hb : b = lower a0
      · subst hb; rw [lookup_assocSet_same]; simp
      · rw [lookup_assocSet_other _ _ _ _ hb, ← h.keys b]; simp [hb]

theorem addIndexOn_good {i : Idx} (h : Good i) (a0 : Str) : Good (addIndexOn i a0) :=
  ⟨h.sync, (addIndexOn_keys h.toKeys a0).nodup, (addIndexOn_keys h.toKeys a0).keys⟩

theorem removeIndexOn_keys {i : Idx} (h : Keys i) (a0 : Str) : Keys (removeIndexOn i a0) := by
  refine ⟨h.nodup.filter _, ?_⟩
  intro b
  show b ∈ i.otherFns.filter (fun x => !(x == lower a0)) ↔ ((assocDel i.other (lower a0)).lookup b).isSome = true
  by_cases hb : b = lower a0
  · subst hb
    simp [lookup_assocDel_same]
  · rw [lookup_assocDel_other _ _ _ hb, ← h.keys b]
    simp [hb]

theorem removeIndexOn_good {i : Idx} (h : Good i) (a0 : Str) : Good (removeIndexOn i a0) :=
  ⟨h.sync, (removeIndexOn_keys h.toKeys a0).nodup, (removeIndexOn_keys h.toKeys a0).keys⟩

/-- Removing an attribute index leaves the remaining maps as they are. -/
theorem removeIndexOn_holds {i : Idx} {xs : List Elem} (h : Holds i xs) (a0 : Str) : Holds (removeIndexOn i a0) xs := by
  refine ⟨h.tags, h.names, h.classes, h.ids, ?_⟩
  intro a m ha hm v
  have ha' : a ∈ i.otherFns.filter (fun x => !(x == lower a0)) := ha
  have hm' : (assocDel i.other (lower a0)).lookup a = some m := hm
  have hne : a ≠ lower a0 := by
    have := (List.mem_filter.mp ha').2
    simpa using this
  rw [lookup_assocDel_other _ _ _ hne] at hm'
  exact h.others a m (List.mem_filter.mp ha').1 hm' v

theorem disable_good {i : Idx} (h : Good i) : Good (disable i) :=
  reset_good (i := { i with indexIDs := false, indexNames := false, indexClassNames := false, indexTagNames := false })
    ⟨h.nodup, h.keys⟩

/-! #### `_indexTagRecursive` visits the elements in creation order -/

mutual
theorem indexRec_eq : ∀ (n : Node) (i : Idx), indexRec i n = (creationOrder n).foldl indexTag i
  | .mk e ks, i => by
    simp only [indexRec, creationOrder, List.foldl_cons]
    exact indexRecL_eq ks _
theorem indexRecL_eq : ∀ (ks : List Node) (i : Idx), indexRecL i ks = (creationOrderL ks).foldl indexTag i
  | [], _ => rfl
  | k :: ks, i => by
    simp only [indexRecL, creationOrderL, List.foldl_append]
    rw [indexRec_eq k i, indexRecL_eq ks]
end

mutual
theorem creationOrder_eq : ∀ n : Node, creationOrder n = n.preorder.map Node.elem
  | .mk e ks => by simp [creationOrder, Node.preorder, Node.elem, creationOrderL_eq ks]
theorem creationOrderL_eq : ∀ ks : List Node, creationOrderL ks = (preorderL ks).map Node.elem
  | [] => rfl
  | k :: ks => by simp [creationOrderL, preorderL, creationOrder_eq k, creationOrderL_eq ks]
end

theorem matchU_creationOrder (p : Elem → Bool) (doc : Node) :
    matchU p (creationOrder doc) = uidsOf (fil p doc.preorder) := by
  rw [creationOrder_eq]
  simp only [matchU, fil, uidsOf, List.filter_map, List.map_map]
  rfl

end Idx

/-- "class lists carry no repeated name" — NOT a hypothesis of any C07 theorem any more (with a repeated name the
    class map lists the element once per occurrence — `classU` — and the lookups de-duplicate); kept for
    `classU_eq_matchU`: under it the map lists every matching element exactly once. -/
def ClassesNodup (doc : Node) : Prop := ∀ e ∈ creationOrder doc, e.classes.Nodup

end AHP.G3