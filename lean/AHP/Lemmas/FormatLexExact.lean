/-
  AHP.Lemmas.FormatLexExact — the finer skeleton `pskel` for C11b at the level of the RE-PARSED OUTPUT.

  `cskel` (FormatLexBuild) erases white space in every data block, pre/code included.  `pskel` keeps
    * data blocks below pre/code (at any depth) EXACT (adjacent data blocks joined: re-tokenising glues them),
    * the content of a script/style element outside pre/code — the concatenation of its text — exact up to its
      trailing run of line-feed / space / tab characters (`stripTail`; the pretty printers add `LF ++ indent` there),
    * references and comments verbatim, everything else as `cskel` does (white space of data blocks removed).
  `pskL_expand…` / `pskL_mergeL`: `expand` and `mergeL` are invisible to it; `pskel_outRoot` / `pskel_outM` are the
  document-level statements used by `C11.formatter_output_reparses_exact`.

  The exact form of what is appended to script/style content is the separate statement `rawConts_…`: the list of
  script/style contents (outside pre/code, document order) of the re-parsed output is, element by element, the
  input's content or the input's content followed by the element's `_indent` (`TailRel`).
-/
import AHP.Lemmas.FormatLexPretty
namespace AHP.Fmt
open AHP

/-! ### the finer skeleton -/

/-- line feed, space, tab: the characters of an `_indent` -/
def isIndCh (c : Char) : Bool := c = '\n' || c = ' ' || c = '\t'

/-- the text without its trailing run of line-feed / space / tab characters -/
def stripTail (s : Str) : Str := rdropWhile isIndCh s

/-- the concatenated text of a block list (element blocks skipped: raw-text content has none) -/
def textCat : List Node → Str
  | [] => []
  | .text _ s :: xs => s ++ textCat xs
  | .elem _ _ _ _ _ _ :: xs => textCat xs

mutual
/-- `pre` = "a pre/code ancestor exists".  Element class and `_indent` forgotten; references and comments verbatim;
    data blocks exact below pre/code, with white space removed elsewhere; the content of a script/style element
    outside pre/code is one block: its text without the trailing run of LF / space / tab. -/
def pskelAt (pre : Bool) : Node → Node
  | .text true s => .text true s
  | .text false s => .text false (if pre then s else eraseWS s)
  | .elem _ n st sc _ kids =>
      .elem .normal n st sc []
        (if !pre && isRawText n then [.text false (stripTail (textCat kids))] else pskelAtL (pre || isPre n) kids)
def pskelAtL (pre : Bool) : List Node → List Node
  | [] => []
  | x :: xs => pskelAt pre x :: pskelAtL pre xs
end

/-- **the document modulo formatting, preformatted content exact**: `pskelAt false`, then empty data blocks dropped and
    adjacent data blocks joined (`canon`) -/
def pskel (t : Node) : Node := canon (pskelAt false t)

/-- shorthand: the canonical finer skeleton of the blocks of a tree in lexical form -/
def pskL (pre : Bool) (ks : List FNode) : List Node := canonL (pskelAtL pre (toNodeL ks))

/-- what `pskelAt` keeps of a data block -/
def ptext (pre : Bool) (s : Str) : Str := if pre then s else eraseWS s

theorem ptext_append (pre : Bool) (a b : Str) : ptext pre (a ++ b) = ptext pre a ++ ptext pre b := by
  cases pre <;> simp [ptext, eraseWS_append]

theorem pskL_cons (pre : Bool) (k : FNode) (ks : List FNode) :
    pskL pre (k :: ks) = canonCons (canon (pskelAt pre k.toNode)) (pskL pre ks) := by
  simp only [pskL, toNodeL, pskelAtL, canonL_cons]

theorem pskL_cons_congr (pre : Bool) (k : FNode) (xs ys : List FNode) (h : pskL pre xs = pskL pre ys) :
    pskL pre (k :: xs) = pskL pre (k :: ys) := by
  rw [pskL_cons, pskL_cons, h]

theorem pskL_data (pre : Bool) (s : Str) (ks : List FNode) :
    pskL pre (.tok (.data s) :: ks) = pushText (ptext pre s) (pskL pre ks) := by
  rw [pskL_cons]
  simp [FNode.toNode, isVerb, renderTok, pskelAt, canon, canonCons, ptext]

theorem pskL_dataTok (pre : Bool) (s : Str) (ks : List FNode) :
    pskL pre (dataTok s ++ ks) = pushText (ptext pre s) (pskL pre ks) := by
  unfold dataTok
  by_cases h : s.isEmpty = true
  · have : s = [] := by simpa using h
    subst this
    cases pre <;> simp [ptext, eraseWS, pushText_nil]
  · simp only [h, Bool.false_eq_true, if_false, List.cons_append, List.nil_append]
    exact pskL_data pre s ks

/-- a trailing data block that `ptext` maps to the empty text does not show -/
theorem pskL_append_blank (pre : Bool) (ks : List FNode) (e : Str) (he : ptext pre e = []) :
    pskL pre (ks ++ dataTok e) = pskL pre ks := by
  induction ks with
  | nil =>
    have := pskL_dataTok pre e []
    simp only [List.append_nil] at this
    rw [List.nil_append, this, he, pushText_nil]
  | cons k ks ih =>
    rw [List.cons_append]
    exact pskL_cons_congr pre k _ _ ih

/-! ### `mergeL` -/

theorem textCat_append (xs ys : List Node) : textCat (xs ++ ys) = textCat xs ++ textCat ys := by
  induction xs with
  | nil => rfl
  | cons x xs ih =>
    cases x with
    | text v s => simp [textCat, ih]
    | elem k n st sc ind kids => simp [textCat, ih]

theorem textCat_pushTok (t : Token) (r : List FNode) :
    textCat (toNodeL (pushTok t r)) = textCat (toNodeL (.tok t :: r)) := by
  unfold pushTok
  split
  · simp [toNodeL, FNode.toNode, renderTok, textCat]
  · rfl

theorem textCat_mergeL : ∀ ks : List FNode, textCat (toNodeL (mergeL ks)) = textCat (toNodeL ks)
  | [] => by simp [mergeL]
  | .tok t :: ks => by
    simp only [mergeL]
    rw [textCat_pushTok]
    simp only [toNodeL, FNode.toNode, textCat]
    rw [textCat_mergeL ks]
  | .elem n st sc kids :: ks => by
    simp only [mergeL, toNodeL, FNode.toNode, textCat]
    exact textCat_mergeL ks

theorem pskL_pushTok (pre : Bool) (t : Token) (r : List FNode) : pskL pre (pushTok t r) = pskL pre (.tok t :: r) := by
  unfold pushTok
  split
  · rename_i a b r'
    rw [pskL_data, pskL_data, pskL_data, pushText_pushText, ptext_append]
  · rfl

mutual
theorem pskelAt_merge (pre : Bool) : ∀ u : FNode, canon (pskelAt pre (merge u).toNode) = canon (pskelAt pre u.toNode)
  | .tok t => by simp [merge]
  | .elem n st sc kids => by
    simp only [merge, FNode.toNode, pskelAt, canon]
    by_cases hr : (!pre && isRawText n) = true
    · simp only [hr, if_true, textCat_mergeL]
    · have ih := pskL_mergeL (pre || isPre n) kids
      simp only [pskL] at ih
      simp only [hr, Bool.false_eq_true, if_false, ih]
theorem pskL_mergeL (pre : Bool) : ∀ ks : List FNode, pskL pre (mergeL ks) = pskL pre ks
  | [] => by simp [mergeL]
  | .tok t :: ks => by
    simp only [mergeL]
    rw [pskL_pushTok]
    exact pskL_cons_congr pre _ _ _ (pskL_mergeL pre ks)
  | .elem n st sc kids :: ks => by
    have h1 := pskelAt_merge pre (.elem n st sc kids)
    simp only [merge] at h1
    simp only [mergeL]
    rw [pskL_cons, pskL_cons, h1, pskL_mergeL pre ks]
end

/-! ### `expand` -/

theorem isIndCh_of_ws (s : Str) (h : WsStr s) : ∀ c ∈ s, isIndCh c = true := by
  intro c hc
  rcases h c hc with e | e | e <;> (subst e; decide)

theorem stripTail_append_ws (a w : Str) (hw : WsStr w) : stripTail (a ++ w) = stripTail a := by
  unfold stripTail
  rw [rdropWhile_append, rdropWhile_all isIndCh w (isIndCh_of_ws w hw)]
  simp

/-- the concatenated text of raw-text content -/
theorem textCat_rawText : ∀ (ks : List FNode) (raw : Str), rawText ks = some raw → textCat (toNodeL ks) = raw
  | [], raw, h => by
    simp only [rawText, Option.some.injEq] at h
    subst h; rfl
  | k :: ks, raw, h => by
    obtain ⟨s, r', rfl, _, hr', rfl⟩ := rawText_cons k ks raw h
    simp only [toNodeL, FNode.toNode, renderTok, textCat]
    rw [textCat_rawText ks r' hr']

theorem preserve_false_of (m : Str) (hpre : isPre m = false) (hr : isRawText m = false) : isPreserve m = false := by
  cases h : isPreserve m with
  | false => rfl
  | true =>
    rcases preserve_cases m h with h' | h'
    · rw [h'] at hpre; cases hpre
    · rw [h'] at hr; cases hr

mutual
/-- outside pre/code, in an element whose content is not preserved: what `expand` puts in place of a block has the
    same finer skeleton as the block -/
theorem pskL_expand (cfg : Cfg) (hi : IndentWS cfg) (c : Ctx) (p : Str) (hc : c.inPre = 0)
    (hp : isPreserve p = false) :
    ∀ (u : FNode), u.Strict → ∀ zs : List FNode, pskL false (expand cfg c p u ++ zs) = pskL false (u :: zs)
  | .tok t, h, zs => by
    simp only [FNode.Strict] at h
    simp only [expand]
    cases t with
    | data s =>
      simp only [expandTok]
      rw [pskL_dataTok, pskL_data, dataRule_sq c p s hc hp]
      simp [ptext, eraseWS_squeeze]
    | entity e => rfl
    | charref e => rfl
    | comment e => rfl
    | decl d => simp [isTextLike] at h
    | unknownDecl d => simp [isTextLike] at h
    | pi d => simp [isTextLike] at h
    | start n a => simp [isTextLike] at h
    | startend n a => simp [isTextLike] at h
    | end_ n => simp [isTextLike] at h
  | .elem n st sc kids, h, zs => by
    have hb := strict_buildable _ h
    simp only [FNode.Strict] at h
    obtain ⟨_, _, hsc, _, _, hk⟩ := h
    have hkb : BuildableL kids := by
      simp only [FNode.Buildable] at hb
      exact hb.2.2.2.2
    have hind := indentAt_ws cfg hi c
    simp only [expand, List.append_assoc]
    rw [pskL_dataTok]
    have he0 : ptext false (indentAt cfg c) = [] := by simp [ptext, eraseWS_ws _ hind]
    rw [he0, pushText_nil]
    simp only [List.cons_append, List.nil_append]
    rw [pskL_cons, pskL_cons]
    have hnode : canon (pskelAt false (FNode.elem n st sc (if sc = true then [] else
          expandL cfg (c.push n) n kids
            ++ dataTok (endInd n (indentAt cfg c) (decorateL cfg (c.push n) n (toNodeL kids))))).toNode)
        = canon (pskelAt false (FNode.elem n st sc kids).toNode) := by
      cases sc with
      | true =>
        have : kids = [] := hsc rfl
        subst this
        rfl
      | false =>
        simp only [Bool.false_eq_true, if_false]
        have he := endInd_ws n (indentAt cfg c) (decorateL cfg (c.push n) n (toNodeL kids)) hind
        by_cases hr : isRawText n = true
        · -- script/style: the content grows by the end indent at most
          simp only [hr, if_true] at hk
          obtain ⟨raw, hraw, _⟩ := hk
          simp only [FNode.toNode, pskelAt, Bool.not_false, Bool.true_and, hr, if_true, canon]
          rw [expandL_raw cfg (c.push n) n (rawName_preserve n hr) kids raw hraw, toNodeL_append, textCat_append,
            textCat_rawText kids raw hraw]
          have h2 : textCat (toNodeL (dataTok (endInd n (indentAt cfg c) (decorateL cfg (c.push n) n (toNodeL kids)))))
              = endInd n (indentAt cfg c) (decorateL cfg (c.push n) n (toNodeL kids)) := by
            have := textCat_rawText _ _ (rawText_dataTok
              (endInd n (indentAt cfg c) (decorateL cfg (c.push n) n (toNodeL kids))))
            exact this
          rw [h2, stripTail_append_ws _ _ he]
        · have hr' : isRawText n = false := by simpa using hr
          simp only [hr] at hk
          simp only [FNode.toNode, pskelAt, Bool.not_false, Bool.true_and, hr', Bool.false_eq_true, if_false, canon,
            Bool.false_or]
          congr 1
          by_cases hpre : isPre n = true
          · -- pre/code: nothing is rewritten below
            rw [endInd_pre cfg c n _ (Or.inr hpre), expandL_inPre cfg _ n (push_inPre_of_pre c n hpre) kids hkb]
            simp [dataTok]
          · have hpre' : isPre n = false := by simpa using hpre
            have h1 := pskL_expandL cfg hi (c.push n) n (push_inPre_zero c n hc hpre')
              (preserve_false_of n hpre' hr') kids hk
              (dataTok (endInd n (indentAt cfg c) (decorateL cfg (c.push n) n (toNodeL kids))))
            have h2 := pskL_append_blank false kids _ (by simp [ptext, eraseWS_ws _ he] :
              ptext false (endInd n (indentAt cfg c) (decorateL cfg (c.push n) n (toNodeL kids))) = [])
            simp only [pskL, hpre'] at h1 h2 ⊢
            rw [h1, h2]
    rw [hnode]
theorem pskL_expandL (cfg : Cfg) (hi : IndentWS cfg) (c : Ctx) (p : Str) (hc : c.inPre = 0)
    (hp : isPreserve p = false) :
    ∀ (ks : List FNode), StrictL ks → ∀ zs : List FNode, pskL false (expandL cfg c p ks ++ zs) = pskL false (ks ++ zs)
  | [], _, zs => by simp [expandL]
  | k :: ks, h, zs => by
    simp only [StrictL] at h
    simp only [expandL, List.append_assoc, List.cons_append]
    rw [pskL_expand cfg hi c p hc hp k h.1]
    exact pskL_cons_congr false k _ _ (pskL_expandL cfg hi c p hc hp ks h.2 zs)
end

/-! ### the document -/

theorem preserve_nil : isPreserve [] = false := by decide
theorem preserve_wrapper : isPreserve wrapper = false := by decide

/-- **(b), finer skeleton, single root**: the output's root element has the finer skeleton of the document's root -/
theorem pskel_outRoot (cfg : Cfg) (hi : IndentWS cfg) (n : Str) (st : AStore) (sc : Bool) (kids : List FNode)
    (hs : (FNode.elem n st sc kids).Strict) :
    pskel (outRoot cfg n st sc kids).toNode = pskel (FNode.elem n st sc kids).toNode := by
  have h1 := pskL_expand cfg hi ⟨0, 0⟩ [] rfl preserve_nil (.elem n st sc kids) hs []
  simp only [expand, List.append_assoc] at h1
  rw [pskL_dataTok] at h1
  have he0 : ptext false (indentAt cfg ⟨0, 0⟩) = [] := by simp [ptext, eraseWS_ws _ (indentAt_ws cfg hi _)]
  rw [he0, pushText_nil] at h1
  simp only [List.cons_append, List.nil_append] at h1
  rw [pskL_cons, pskL_cons] at h1
  have h2 := pskelAt_merge false (.elem n st sc (if sc then [] else
    expandL cfg ((⟨0, 0⟩ : Ctx).push n) n kids
      ++ dataTok (endInd n (indentAt cfg ⟨0, 0⟩) (decorateL cfg ((⟨0, 0⟩ : Ctx).push n) n (toNodeL kids)))))
  simp only [merge] at h2
  unfold outRoot pskel
  rw [h2]
  simp only [FNode.toNode, pskelAt, canon, canonCons, pskL, toNodeL, pskelAtL, canonL, List.cons.injEq, and_true]
    at h1 ⊢
  exact h1

/-- **(b), finer skeleton, multi-root** -/
theorem pskel_outM (cfg : Cfg) (hi : IndentWS cfg) (dt : Option Str) (st : AStore) (kids : List FNode)
    (hs : StrictL kids) :
    pskel (FNode.elem wrapper st false (outBlocksM cfg dt kids)).toNode
      = pskel (FNode.elem wrapper st false kids).toNode := by
  have h1 : pskL false (outBlocksM cfg dt kids) = pskL false kids := by
    unfold outBlocksM
    rw [pskL_mergeL]
    have hdtb : dtBlock dt = dataTok (dtText dt) := by
      cases dt with
      | none => rfl
      | some d =>
        by_cases hd : d.isEmpty = true
        · simp [dtBlock, dtText, hd, dataTok]
        · simp [dtBlock, dtText, hd, dataTok]
    rw [hdtb, pskL_dataTok]
    have he0 : ptext false (dtText dt) = [] := by simp [ptext, eraseWS_ws _ (dtText_ws dt)]
    rw [he0, pushText_nil]
    have := pskL_expandL cfg hi ((⟨0, 0⟩ : Ctx).push wrapper) wrapper (by decide) preserve_wrapper kids hs []
    simpa using this
  have hw : isRawText wrapper = false := wrapper_facts.2.2
  have hp : isPre wrapper = false := by decide
  simp only [pskL] at h1
  simp only [pskel, FNode.toNode, pskelAt, canon, hw, hp, Bool.and_false, Bool.false_eq_true, if_false, Bool.or_false,
    h1]

/-! ### script/style content: exactly what is appended -/

/-- what the formatters may add at the end of script/style content: nothing, or a line break followed by spaces/tabs
    (the `_indent` `getEndTag` writes before the end tag) -/
def TailRel (a b : Str) : Prop := b = a ∨ ∃ w, b = a ++ '\n' :: w ∧ ∀ c ∈ w, c = ' ' ∨ c = '\t'

mutual
/-- the contents (concatenated text) of the script/style elements of a tree, in document order -/
def rawConts : Node → List Str
  | .text _ _ => []
  | .elem _ n _ _ _ kids => if isRawText n then [textCat kids] else rawContsL kids
def rawContsL : List Node → List Str
  | [] => []
  | x :: xs => rawConts x ++ rawContsL xs
end

theorem rawContsL_append (xs ys : List Node) : rawContsL (xs ++ ys) = rawContsL xs ++ rawContsL ys := by
  induction xs with
  | nil => rfl
  | cons x xs ih => simp [rawContsL, ih]

theorem rawContsL_dataTok (s : Str) : rawContsL (toNodeL (dataTok s)) = [] := by
  unfold dataTok
  split <;> simp [toNodeL, FNode.toNode, rawContsL, rawConts]

theorem rawContsL_pushTok (t : Token) (r : List FNode) :
    rawContsL (toNodeL (pushTok t r)) = rawContsL (toNodeL r) := by
  unfold pushTok
  split <;> simp [toNodeL, FNode.toNode, rawContsL, rawConts]

mutual
theorem rawConts_merge : ∀ u : FNode, rawConts (merge u).toNode = rawConts u.toNode
  | .tok t => by simp [merge]
  | .elem n st sc kids => by
    simp only [merge, FNode.toNode, rawConts, textCat_mergeL, rawContsL_mergeL kids]
theorem rawContsL_mergeL : ∀ ks : List FNode, rawContsL (toNodeL (mergeL ks)) = rawContsL (toNodeL ks)
  | [] => by simp [mergeL]
  | .tok t :: ks => by
    simp only [mergeL]
    rw [rawContsL_pushTok, rawContsL_mergeL ks]
    simp [toNodeL, FNode.toNode, rawContsL, rawConts]
  | .elem n st sc kids :: ks => by
    have h1 := rawConts_merge (.elem n st sc kids)
    simp only [merge] at h1
    simp only [mergeL, toNodeL, rawContsL]
    rw [h1, rawContsL_mergeL ks]
end

/-- `TailRel` element by element (lists of the same length) -/
inductive TailsRel : List Str → List Str → Prop
  | nil : TailsRel [] []
  | cons {a b : Str} {l m : List Str} : TailRel a b → TailsRel l m → TailsRel (a :: l) (b :: m)

theorem tailRel_refl (a : Str) : TailRel a a := Or.inl rfl

theorem forall2_refl : ∀ l : List Str, TailsRel l l
  | [] => .nil
  | a :: l => .cons (tailRel_refl a) (forall2_refl l)

theorem forall2_append {a b c d : List Str} (h1 : TailsRel a b) (h2 : TailsRel c d) :
    TailsRel (a ++ c) (b ++ d) := by
  induction h1 with
  | nil => exact h2
  | cons h _ ih => exact .cons h ih

/-- an `_indent` is empty or a line break followed by spaces/tabs -/
theorem indentAt_shape (cfg : Cfg) (hi : IndentWS cfg) (c : Ctx) :
    indentAt cfg c = [] ∨ ∃ w, indentAt cfg c = '\n' :: w ∧ ∀ x ∈ w, x = ' ' ∨ x = '\t' := by
  unfold indentAt getIndent
  by_cases h0 : c.inPre = 0
  · by_cases hm : cfg.mini = true
    · left; simp [h0, hm]
    · right
      refine ⟨rep (c.level : Int).toNat cfg.indent, by simp [h0, hm], rep_unit _ _ hi⟩
  · left; simp [h0]

theorem endInd_shape (cfg : Cfg) (hi : IndentWS cfg) (c : Ctx) (n : Str) (kids : List Node) :
    endInd n (indentAt cfg c) kids = [] ∨ ∃ w, endInd n (indentAt cfg c) kids = '\n' :: w ∧ ∀ x ∈ w, x = ' ' ∨ x = '\t' := by
  unfold endInd
  split
  · exact Or.inl rfl
  · split
    · exact Or.inl rfl
    · exact indentAt_shape cfg hi c

mutual
/-- script/style content after `expand`: the content, or the content followed by a line break and spaces/tabs -/
theorem rawConts_expand (cfg : Cfg) (hi : IndentWS cfg) (c : Ctx) (p : Str) :
    ∀ u : FNode, u.Strict → TailsRel (rawConts u.toNode) (rawContsL (toNodeL (expand cfg c p u)))
  | .tok t, _ => by
    have h1 : rawConts (FNode.tok t).toNode = [] := by simp [FNode.toNode, rawConts]
    have h2 : rawContsL (toNodeL (expand cfg c p (.tok t))) = [] := by
      simp only [expand]
      cases t with
      | data s => simp only [expandTok]; exact rawContsL_dataTok _
      | _ => simp [expandTok, toNodeL, FNode.toNode, rawContsL, rawConts]
    rw [h1, h2]
    exact .nil
  | .elem n st sc kids, h => by
    simp only [FNode.Strict] at h
    obtain ⟨_, _, hsc, _, _, hk⟩ := h
    simp only [expand, toNodeL_append, rawContsL_append, rawContsL_dataTok, List.nil_append, toNodeL, rawContsL,
      List.append_nil, FNode.toNode, rawConts]
    cases sc with
    | true =>
      have : kids = [] := hsc rfl
      subst this
      simp only [if_true]
      exact forall2_refl _
    | false =>
      simp only [Bool.false_eq_true, if_false]
      by_cases hr : isRawText n = true
      · simp only [hr, if_true] at hk ⊢
        obtain ⟨raw, hraw, _⟩ := hk
        rw [expandL_raw cfg (c.push n) n (rawName_preserve n hr) kids raw hraw, toNodeL_append, textCat_append,
          textCat_rawText kids raw hraw,
          textCat_rawText _ _ (rawText_dataTok (endInd n (indentAt cfg c) (decorateL cfg (c.push n) n (toNodeL kids))))]
        refine .cons ?_ .nil
        rcases endInd_shape cfg hi c n (decorateL cfg (c.push n) n (toNodeL kids)) with e | ⟨w, e, hw⟩
        · rw [e, List.append_nil]; exact Or.inl rfl
        · rw [e]; exact Or.inr ⟨w, rfl, hw⟩
      · simp only [hr] at hk ⊢
        rw [toNodeL_append, rawContsL_append, rawContsL_dataTok, List.append_nil]
        exact rawContsL_expandL cfg hi (c.push n) n kids hk
theorem rawContsL_expandL (cfg : Cfg) (hi : IndentWS cfg) (c : Ctx) (p : Str) :
    ∀ ks : List FNode, StrictL ks →
      TailsRel (rawContsL (toNodeL ks)) (rawContsL (toNodeL (expandL cfg c p ks)))
  | [], _ => .nil
  | k :: ks, h => by
    simp only [StrictL] at h
    simp only [expandL, toNodeL, rawContsL, toNodeL_append, rawContsL_append]
    exact forall2_append (rawConts_expand cfg hi c p k h.1) (rawContsL_expandL cfg hi c p ks h.2)
end

/-- **script/style content of the re-parsed output, single root**: element by element the input's content, or the
    input's content followed by a line break and spaces/tabs -/
theorem rawConts_outRoot (cfg : Cfg) (hi : IndentWS cfg) (n : Str) (st : AStore) (sc : Bool) (kids : List FNode)
    (hs : (FNode.elem n st sc kids).Strict) :
    TailsRel (rawConts (FNode.elem n st sc kids).toNode) (rawConts (outRoot cfg n st sc kids).toNode) := by
  have h1 := rawConts_expand cfg hi ⟨0, 0⟩ [] (.elem n st sc kids) hs
  simp only [expand, toNodeL_append, rawContsL_append, rawContsL_dataTok, List.nil_append, toNodeL, rawContsL,
    List.append_nil] at h1
  have h2 := rawConts_merge (.elem n st sc (if sc then [] else
    expandL cfg ((⟨0, 0⟩ : Ctx).push n) n kids
      ++ dataTok (endInd n (indentAt cfg ⟨0, 0⟩) (decorateL cfg ((⟨0, 0⟩ : Ctx).push n) n (toNodeL kids)))))
  simp only [merge] at h2
  unfold outRoot
  rw [h2]
  exact h1

/-- … multi-root -/
theorem rawConts_outM (cfg : Cfg) (hi : IndentWS cfg) (dt : Option Str) (st : AStore) (kids : List FNode)
    (hs : StrictL kids) :
    TailsRel (rawConts (FNode.elem wrapper st false kids).toNode)
      (rawConts (FNode.elem wrapper st false (outBlocksM cfg dt kids)).toNode) := by
  have hw : isRawText wrapper = false := wrapper_facts.2.2
  simp only [FNode.toNode, rawConts, hw, Bool.false_eq_true, if_false]
  unfold outBlocksM
  rw [rawContsL_mergeL, toNodeL_append, rawContsL_append]
  have hdt : rawContsL (toNodeL (dtBlock dt)) = [] := by
    cases dt with
    | none => rfl
    | some d =>
      by_cases hd : d.isEmpty = true
      · simp [dtBlock, hd, toNodeL, rawContsL]
      · simp [dtBlock, hd, toNodeL, FNode.toNode, rawContsL, rawConts]
  rw [hdt, List.nil_append]
  exact rawContsL_expandL cfg hi _ wrapper kids hs

/-! ### `pskel` refines `cskel` -/

/-- all blocks are data blocks -/
def allData : List Node → Prop
  | [] => True
  | .text false _ :: xs => allData xs
  | _ => False

mutual
/-- the content of every script/style element consists of data blocks only (the tokenizer reports raw text as data) -/
def RawData : Node → Prop
  | .text _ _ => True
  | .elem _ n _ _ _ kids => (isRawText n = true → allData kids) ∧ RawDataL kids
def RawDataL : List Node → Prop
  | [] => True
  | x :: xs => RawData x ∧ RawDataL xs
end

theorem eraseWS_idem (s : Str) : eraseWS (eraseWS s) = eraseWS s := by
  unfold eraseWS
  rw [List.filter_filter]
  simp

theorem eraseWS_stripTail (s : Str) : eraseWS (stripTail s) = eraseWS s := by
  unfold stripTail
  apply eraseWS_rdropWhile
  intro c hc
  simp only [isIndCh, Bool.or_eq_true, decide_eq_true_eq] at hc
  rcases hc with (rfl | rfl) | rfl <;> decide

theorem canonL_skelL_pushText (s : Str) (r : List Node) :
    canonL (skelL (pushText s r)) = pushText (eraseWS s) (canonL (skelL r)) := by
  by_cases hs : s.isEmpty = true
  · have : s = [] := by simpa using hs
    subst this
    simp [pushText, eraseWS]
  · cases r with
    | nil => simp [pushText, hs, skelL, skel, canonL]
    | cons x r' =>
      cases x with
      | elem k n st sc ind kids => simp [pushText, hs, skelL, skel, canonL]
      | text v e' =>
        cases v with
        | true => simp [pushText, hs, skelL, skel, canonL]
        | false =>
          have h1 : pushText s (Node.text false e' :: r') = Node.text false (s ++ e') :: r' := by
            simp [pushText, hs]
          rw [h1]
          simp only [skelL, skel, canonL, eraseWS_append]
          rw [pushText_pushText]

mutual
theorem canon_skel_canon : ∀ x : Node, canon (skel (canon x)) = canon (skel x)
  | .text v s => by cases v <;> simp [canon]
  | .elem k n st sc ind kids => by
    simp only [canon, skel]
    rw [canonL_skelL_canonL kids]
theorem canonL_skelL_canonL : ∀ xs : List Node, canonL (skelL (canonL xs)) = canonL (skelL xs)
  | [] => by simp [canonL, skelL]
  | .text false s :: xs => by
    simp only [canonL, skelL, skel]
    rw [canonL_skelL_pushText, canonL_skelL_canonL xs]
  | .text true s :: xs => by
    simp only [canonL, skelL, skel]
    rw [canonL_skelL_canonL xs]
  | .elem k n st sc ind kids :: xs => by
    simp only [canonL, skelL, skel]
    rw [canonL_skelL_canonL kids, canonL_skelL_canonL xs]
end

/-- the canonical skeleton of data-only content is one block: its text without white space -/
theorem canonL_skelL_allData : ∀ kids : List Node, allData kids →
    canonL (skelL kids) = pushText (eraseWS (textCat kids)) []
  | [], _ => by simp [skelL, canonL, textCat, eraseWS, pushText]
  | .text false s :: xs, h => by
    simp only [allData] at h
    simp only [skelL, skel, canonL, textCat, eraseWS_append]
    rw [canonL_skelL_allData xs h, pushText_pushText]
  | .text true s :: xs, h => by simp [allData] at h
  | .elem k n st sc ind kids :: xs, h => by simp [allData] at h

mutual
theorem canon_skel_pskelAt (pre : Bool) : ∀ x : Node, RawData x → canon (skel (pskelAt pre x)) = canon (skel x)
  | .text true s, _ => by simp [pskelAt]
  | .text false s, _ => by
    cases pre <;> simp [pskelAt, skel, eraseWS_idem]
  | .elem k n st sc ind kids, h => by
    simp only [RawData] at h
    simp only [pskelAt, skel, canon]
    by_cases hr : (!pre && isRawText n) = true
    · have hraw : isRawText n = true := by
        cases hn : isRawText n with
        | true => rfl
        | false => simp [hn] at hr
      simp only [hr, if_true, skelL, skel, canonL]
      rw [canonL_skelL_allData kids (h.1 hraw), eraseWS_stripTail]
    · simp only [hr, Bool.false_eq_true, if_false]
      rw [canonL_skelL_pskelAtL (pre || isPre n) kids h.2]
theorem canonL_skelL_pskelAtL (pre : Bool) : ∀ xs : List Node, RawDataL xs →
    canonL (skelL (pskelAtL pre xs)) = canonL (skelL xs)
  | [], _ => by simp [pskelAtL]
  | x :: xs, h => by
    simp only [RawDataL] at h
    simp only [pskelAtL, skelL]
    rw [canonL_cons, canonL_cons, canon_skel_pskelAt pre x h.1, canonL_skelL_pskelAtL pre xs h.2]
end

/-- **`cskel` is a function of `pskel`** (on trees whose script/style content is data only — every tree the tokenizer
    can produce): erase the white space that `pskel` kept and canonicalise again -/
theorem cskel_eq_of_pskel (t : Node) (h : RawData t) : cskel t = canon (skel (pskel t)) := by
  unfold cskel pskel
  rw [canon_skel_canon, canon_skel_pskelAt false t h]

/-- trees with the same `pskel` have the same `cskel` -/
theorem cskel_of_pskel (a b : Node) (ha : RawData a) (hb : RawData b) (h : pskel a = pskel b) : cskel a = cskel b := by
  rw [cskel_eq_of_pskel a ha, cskel_eq_of_pskel b hb, h]

theorem allData_rawText : ∀ (ks : List FNode) (raw : Str), rawText ks = some raw → allData (toNodeL ks)
  | [], _, _ => trivial
  | k :: ks, raw, h => by
    obtain ⟨s, r', rfl, _, hr', _⟩ := rawText_cons k ks raw h
    simp only [toNodeL, FNode.toNode, isVerb, allData]
    exact allData_rawText ks r' hr'

theorem rawDataL_allData : ∀ xs : List Node, allData xs → RawDataL xs
  | [], _ => trivial
  | .text false s :: xs, h => by
    simp only [allData] at h
    exact ⟨trivial, rawDataL_allData xs h⟩
  | .text true s :: xs, h => by simp [allData] at h
  | .elem k n st sc ind kids :: xs, h => by simp [allData] at h

mutual
/-- strict trees are of that kind -/
theorem rawData_strict : ∀ u : FNode, u.Strict → RawData u.toNode
  | .tok t, _ => by simp [FNode.toNode, RawData]
  | .elem n st sc kids, h => by
    simp only [FNode.Strict] at h
    obtain ⟨_, _, _, _, _, hk⟩ := h
    simp only [FNode.toNode, RawData]
    by_cases hr : isRawText n = true
    · simp only [hr, if_true] at hk
      obtain ⟨raw, hraw, _⟩ := hk
      exact ⟨fun _ => allData_rawText kids raw hraw, rawDataL_allData _ (allData_rawText kids raw hraw)⟩
    · simp only [hr] at hk
      exact ⟨fun e => absurd e hr, rawDataL_strict kids hk⟩
theorem rawDataL_strict : ∀ ks : List FNode, StrictL ks → RawDataL (toNodeL ks)
  | [], _ => trivial
  | k :: ks, h => by
    simp only [StrictL] at h
    exact ⟨rawData_strict k h.1, rawDataL_strict ks h.2⟩
end

end AHP.Fmt
